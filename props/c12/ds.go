//go:build verif

package main

// Custom datasources (boundary audit): annotate accepts any implementation of
// its datasource interfaces, and takes a different code path for the ones that
// return children directly (NodeHistoryAsChildren / WayHistoryAsChildren /
// RelationHistoryAsChildren). The checks before the audit only ever passed the
// library's own map datasource.

import (
	"context"
	"errors"
	"sort"
	"time"

	"github.com/paulmach/osm"
	"github.com/paulmach/osm/annotate"
	"github.com/paulmach/osm/annotate/shared"
)

// dsMode selects the datasource an input is served from.
type dsMode struct {
	// kind 0: the library's *osm.HistoryDatasource; 1: a plain implementation of
	// osm.HistoryDatasourcer with its own not-found error, returning a fresh copy
	// of the history, newest version first, on every call; 2: the same plus the
	// AsChildren interfaces (children built and cached by the datasource, the
	// same objects are returned on every call).
	kind int
	// fail >= 0: every request for the child with this position in the child
	// list returns a backend error that NotFound does not recognise (stateless:
	// the datasource stays a function of the id). Needs kind >= 1.
	fail int
	// honourCtx: requests made with a cancelled context return its error
	honourCtx bool
	// grow: until advance() is called the datasource only knows the versions
	// stamped before the cutoff instant (a child without any such version is
	// not found); afterwards the whole history - the incremental workflow: new
	// child versions arrive between two calls on the same parents. Needs kind >= 1.
	grow bool
}

func (m dsMode) String() string {
	s := []string{"map", "plain", "as-children"}[m.kind]
	if m.fail >= 0 {
		s += "+backend-error-for-child-" + string(rune('0'+m.fail))
	}
	if m.honourCtx {
		s += "+honours-context"
	}
	if m.grow {
		s += "+history-grows-between-calls"
	}
	return s
}

var (
	errPlainNotFound = errors.New("c12 datasource: no such element")
	errBackend       = errors.New("c12 datasource: backend failure")
)

type plainDS struct {
	h         *osm.HistoryDatasource
	full      *osm.HistoryDatasource // grow: what h becomes at advance()
	failID    osm.FeatureID
	hasFail   bool
	honourCtx bool
}

func (d *plainDS) pre(ctx context.Context, id osm.FeatureID) error {
	if d.honourCtx && ctx != nil && ctx.Err() != nil {
		return ctx.Err()
	}
	if d.hasFail && id == d.failID {
		return errBackend
	}
	return nil
}

func (d *plainDS) NodeHistory(ctx context.Context, id osm.NodeID) (osm.Nodes, error) {
	if err := d.pre(ctx, id.FeatureID()); err != nil {
		return nil, err
	}
	v, ok := d.h.Nodes[id]
	if !ok {
		return nil, errPlainNotFound
	}
	out := make(osm.Nodes, len(v))
	for i := range v {
		out[len(v)-1-i] = v[i]
	}
	return out, nil
}

func (d *plainDS) WayHistory(ctx context.Context, id osm.WayID) (osm.Ways, error) {
	if err := d.pre(ctx, id.FeatureID()); err != nil {
		return nil, err
	}
	v, ok := d.h.Ways[id]
	if !ok {
		return nil, errPlainNotFound
	}
	out := make(osm.Ways, len(v))
	for i := range v {
		out[len(v)-1-i] = v[i]
	}
	return out, nil
}

func (d *plainDS) RelationHistory(ctx context.Context, id osm.RelationID) (osm.Relations, error) {
	if err := d.pre(ctx, id.FeatureID()); err != nil {
		return nil, err
	}
	v, ok := d.h.Relations[id]
	if !ok {
		return nil, errPlainNotFound
	}
	out := make(osm.Relations, len(v))
	for i := range v {
		out[len(v)-1-i] = v[i]
	}
	return out, nil
}

func (d *plainDS) NotFound(err error) bool { return err == errPlainNotFound }

// advance: the new child versions have arrived.
func (d *plainDS) advance() {
	if d.full != nil {
		d.h, d.full = d.full, nil
	}
}

// truncated returns the histories of h cut to the versions stamped before cutoff.
func truncated(h *osm.HistoryDatasource, cutoff time.Time) *osm.HistoryDatasource {
	out := &osm.HistoryDatasource{Nodes: map[osm.NodeID]osm.Nodes{}, Ways: map[osm.WayID]osm.Ways{}, Relations: map[osm.RelationID]osm.Relations{}}
	for id, l := range h.Nodes {
		var k osm.Nodes
		for _, x := range l {
			if x.Timestamp.Before(cutoff) {
				k = append(k, x)
			}
		}
		if len(k) > 0 || len(l) == 0 {
			out.Nodes[id] = append(osm.Nodes{}, k...)
		}
	}
	for id, l := range h.Ways {
		var k osm.Ways
		for _, x := range l {
			if x.Timestamp.Before(cutoff) {
				k = append(k, x)
			}
		}
		if len(k) > 0 || len(l) == 0 {
			out.Ways[id] = append(osm.Ways{}, k...)
		}
	}
	for id, l := range h.Relations {
		var k osm.Relations
		for _, x := range l {
			if x.Timestamp.Before(cutoff) {
				k = append(k, x)
			}
		}
		if len(k) > 0 || len(l) == 0 {
			out.Relations[id] = append(osm.Relations{}, k...)
		}
	}
	return out
}

// childrenDS additionally serves children directly.
type childrenDS struct {
	plainDS
	cache map[osm.FeatureID][]*shared.Child
}

func (d *childrenDS) advance() {
	d.plainDS.advance()
	d.cache = map[osm.FeatureID][]*shared.Child{}
}

func (d *childrenDS) children(ctx context.Context, id osm.FeatureID) ([]*shared.Child, error) {
	if err := d.pre(ctx, id); err != nil {
		return nil, err
	}
	if cs, ok := d.cache[id]; ok {
		return cs, nil
	}
	var cs []*shared.Child
	stamp := func(c *shared.Child, committed *time.Time) {
		if committed != nil {
			c.Committed = *committed
		}
		cs = append(cs, c)
	}
	switch id.Type() {
	case osm.TypeNode:
		v, ok := d.h.Nodes[id.NodeID()]
		if !ok {
			return nil, errPlainNotFound
		}
		for _, n := range v {
			stamp(&shared.Child{ID: id, Version: n.Version, ChangesetID: n.ChangesetID, Visible: n.Visible, Timestamp: n.Timestamp, Lon: n.Lon, Lat: n.Lat}, n.Committed)
		}
	case osm.TypeWay:
		v, ok := d.h.Ways[id.WayID()]
		if !ok {
			return nil, errPlainNotFound
		}
		for _, w := range v {
			stamp(&shared.Child{ID: id, Version: w.Version, ChangesetID: w.ChangesetID, Visible: w.Visible, Timestamp: w.Timestamp, Way: w}, w.Committed)
		}
	case osm.TypeRelation:
		v, ok := d.h.Relations[id.RelationID()]
		if !ok {
			return nil, errPlainNotFound
		}
		for _, r := range v {
			stamp(&shared.Child{ID: id, Version: r.Version, ChangesetID: r.ChangesetID, Visible: r.Visible, Timestamp: r.Timestamp}, r.Committed)
		}
	}
	sort.SliceStable(cs, func(i, j int) bool { return cs[i].Version < cs[j].Version })
	for i, c := range cs {
		c.VersionIndex = i
		if i > 0 && c.Way != nil {
			c.ReverseOfPrevious = annotate.IsReverse(c.Way, cs[i-1].Way)
		}
	}
	d.cache[id] = cs
	return cs, nil
}

func (d *childrenDS) NodeHistoryAsChildren(ctx context.Context, id osm.NodeID) ([]*shared.Child, error) {
	return d.children(ctx, id.FeatureID())
}

func (d *childrenDS) WayHistoryAsChildren(ctx context.Context, id osm.WayID) ([]*shared.Child, error) {
	return d.children(ctx, id.FeatureID())
}

func (d *childrenDS) RelationHistoryAsChildren(ctx context.Context, id osm.RelationID) ([]*shared.Child, error) {
	return d.children(ctx, id.FeatureID())
}

var (
	_ annotate.NodeHistoryAsChildrenDatasourcer = &childrenDS{}
	_ annotate.HistoryAsChildrenDatasourcer     = &childrenDS{}
)

// wrapDS serves the histories of h in the given mode; children is the child
// list the fail position refers to.
func wrapDS(h *osm.HistoryDatasource, m dsMode, children []osm.FeatureID, cutoff ...time.Time) osm.HistoryDatasourcer {
	if m.kind == 0 {
		return h
	}
	p := plainDS{h: h, honourCtx: m.honourCtx}
	if m.grow && len(cutoff) == 1 {
		p.h, p.full = truncated(h, cutoff[0]), h
	}
	if m.fail >= 0 && m.fail < len(children) {
		p.failID, p.hasFail = children[m.fail], true
	}
	if m.kind == 1 {
		return &p
	}
	return &childrenDS{plainDS: p, cache: map[osm.FeatureID][]*shared.Child{}}
}
