package main

import (
	"fmt"
	"math"
	"strings"
	"time"

	"github.com/paulmach/osm"
)

// Boundary families (added by the boundary audit). The families F1-F5 sweep the
// rule table; the families here hold the tags to a small decision-complete set
// and sweep what F1-F5 keep fixed: the numeric width of node refs, what else the
// object carries, the byte classes of keys and values, the number of tags,
// repeated tags, and the object's history of earlier calls.

// ---------------------------------------------------------------- tag sets

// decisionSets: one tag list per way the tag clause can be decided.
var decisionSets = []tagList{
	nil,                                       // no tags: not an area
	{{"building", "yes"}},                     // rule `all`: area
	{{"building", "no"}},                      // value no: not an area
	{{"highway", "services"}},                 // whitelisted: area
	{{"highway", "primary"}},                  // not whitelisted: not an area
	{{"natural", "wood"}},                     // not blacklisted: area
	{{"natural", "coastline"}},                // blacklisted: not an area
	{{"area", "yes"}},                         // area tag: area
	{{"area", "no"}},                          // area=no: not an area
	{{"area", "no"}, {"building", "yes"}},     // area=no wins
	{{"highway", "primary"}, {"area", "yes"}}, // area=yes wins
	{{"name", "no"}, {"source", "services"}},  // unrelated tags only
}

// crossSets: the string classes of F7 and a relation's deciding tag on a way, to
// be met together with the ref widths and variants of F6 (two features that are
// each covered alone).
var crossSets = []tagList{
	{{"building", "\xff"}},                  // area
	{{"area", " "}},                         // a non-empty area value: area
	{{"highway", "services\u00a0"}},         // not the whitelisted value: not an area
	{{"natural", long70k}},                  // not blacklisted: area
	{{"Area", "no"}, {"building", "yes"}},   // not the area tag: area
	{{"type", "multipolygon"}},              // decides relations only: not an area
	{{"type", "boundary"}, {"area", "no"}},  // not an area
	{{"was:building", "yes"}, {"\x00", ""}}, // no listed key: not an area
}

// ---------------------------------------------------------------- node refs

const (
	p31 = int64(1) << 31
	p32 = int64(1) << 32
	p40 = int64(1) << 40 // ref width of osm.FeatureID / osm.ElementID
	p53 = int64(1) << 53 // float64 integer precision
	p56 = int64(1) << 56 // top byte of a FeatureID holds the type
)

func ring(n int, closed bool) []int64 {
	refs := make([]int64, n)
	for i := range refs {
		refs[i] = int64(i + 1)
	}
	if closed && n > 0 {
		refs[n-1] = refs[0]
	}
	return refs
}

// boundaryShapes: closed rings whose refs sit at the widths where an encoding of
// ids changes, and open ways whose first and last refs are different numbers that
// become equal under a narrowing (int32/uint32 truncation, the 40-bit ref of a
// FeatureID, float64 rounding, sign loss, wrap-around), plus the list lengths
// around the documented limit of 2000 nodes and beyond 2^16.
func boundaryShapes(thorough bool) []shape {
	s := []shape{
		{"closed4-neg", []int64{-1, 2, 3, -1}, false},
		{"closed4-all-neg", []int64{-1, -2, -3, -1}, false},
		{"closed4-zero-all", []int64{0, 0, 0, 0}, false},
		{"closed4-2^31", []int64{p31, 2, 3, p31}, false},
		{"closed4-2^32", []int64{p32, 2, 3, p32}, false},
		{"closed4-2^40", []int64{p40, 2, 3, p40}, false},
		{"closed4-2^40+1-meta", []int64{p40 + 1, p40 + 2, p40 + 3, p40 + 1}, true},
		{"closed4-2^53+1", []int64{p53 + 1, 2, 3, p53 + 1}, false},
		{"closed4-max", []int64{math.MaxInt64, 2, 3, math.MaxInt64}, false},
		{"closed4-min", []int64{math.MinInt64, 2, 3, math.MinInt64}, false},
		{"closed4-max-min-inside", []int64{math.MaxInt64, math.MinInt64, 0, math.MaxInt64}, false},
		{"closed4-back-and-forth", []int64{1, 2, 2, 1}, false},
		{"closed5-back-and-forth", []int64{1, 2, 1, 2, 1}, false},
		{"closed3-2^40", []int64{p40, 2, p40}, false},
		{"closed3-neg", []int64{-1, 2, -1}, false},
		{"open4-last=first+2^32", []int64{1, 2, 3, 1 + p32}, false},
		{"open4-first=last+2^32", []int64{5 + p32, 2, 3, 5}, false},
		{"open4-last=first+2^40", []int64{1, 2, 3, 1 + p40}, false},
		{"open4-last=first+2^56", []int64{1, 2, 3, 1 + p56}, false},
		{"open4-2^53-vs-2^53+1", []int64{p53, 2, 3, p53 + 1}, false},
		{"open4-last=-first", []int64{1, 2, 3, -1}, false},
		{"open4-neg1-vs-2^32-1", []int64{-1, 2, 3, p32 - 1}, false},
		{"open4-neg1-vs-2^40-1", []int64{-1, 2, 3, p40 - 1}, false},
		{"open4-neg1-vs-max", []int64{-1, 2, 3, math.MaxInt64}, false},
		{"open4-max-vs-min", []int64{math.MaxInt64, 2, 3, math.MinInt64}, false},
		{"open4-min-vs-0", []int64{math.MinInt64, 2, 3, 0}, false},
		{"open4-1-vs-min+1", []int64{1, 2, 3, math.MinInt64 + 1}, false},
		{"open4-0-vs-2^32", []int64{0, 2, 3, p32}, false},
		{"open5-second=last", []int64{1, 5, 3, 4, 5}, false},
		{"closed1999", ring(1999, true), false},
		{"closed2000", ring(2000, true), false},
		{"closed2001", ring(2001, true), false},
		{"open2000", ring(2000, false), false},
		{"closed65537", ring(65537, true), false},
		{"open65537", ring(65537, false), false},
	}
	if thorough {
		s = append(s,
			shape{"closed257", ring(257, true), false},
			shape{"closed65536", ring(65536, true), false},
			shape{"closed1000001", ring(1000001, true), false},
			shape{"open1000001", ring(1000001, false), false},
			shape{"open4-last=first+2^31", []int64{1, 2, 3, 1 + p31}, false},
			shape{"open4-last=first+2^48", []int64{1, 2, 3, 1 + (1 << 48)}, false},
			shape{"open4-last=first+2^63", []int64{1, 2, 3, math.MinInt64 + 1}, false},
			shape{"closed4-2^56", []int64{p56, 2, 3, p56}, false},
		)
	}
	return s
}

// ---------------------------------------------------------------- variants

var wayVariants = []string{"id=0", "id=-1", "id=2^40+9", "id=max", "id=min", "metadata", "updates", "spare-capacity", "nil-or-empty-slices", "bounds"}
var relationVariants = []string{"id=0", "id=-1", "id=2^40+5", "id=max", "id=min", "metadata", "members=mixed", "members=2001", "nil-or-empty-slices",
	// the member list says nothing about whether a relation is an area: only the type tag does
	"members=nodes-only", "members=relations-only", "members=nodes-and-relations", "members=one-way-last"}

func variantID(v string, def int64) int64 {
	switch v {
	case "id=0":
		return 0
	case "id=-1":
		return -1
	case "id=2^40+9", "id=2^40+5":
		return p40 + def
	case "id=max":
		return math.MaxInt64
	case "id=min":
		return math.MinInt64
	}
	return def
}

var farFuture = time.Date(2300, 1, 2, 3, 4, 5, 6, time.FixedZone("x", 5*3600+1800))

func applyWayVariant(w *osm.Way, v string) {
	w.ID = osm.WayID(variantID(v, 9))
	switch v {
	case "metadata":
		w.Visible, w.Version, w.ChangesetID, w.UserID, w.User = true, math.MaxInt32, osm.ChangesetID(p40), -1, "ユーザー no"
		w.Timestamp = farFuture
		t := time.Unix(0, 0).UTC()
		w.Committed = &t
	case "updates":
		// updates never change refs; the way's node refs are w.Nodes as given
		w.Updates = osm.Updates{
			{Index: 0, Version: 7, Timestamp: farFuture, Lat: 9, Lon: 9},
			{Index: len(w.Nodes) - 1, Version: 8, Timestamp: time.Time{}, Lat: -9, Lon: -9, Reverse: true},
			{Index: len(w.Nodes) + 5, Version: 1},
			{Index: -1, Version: 1},
		}
	case "spare-capacity":
		// the backing arrays continue behind the slices' lengths with elements
		// that would change the answer if they were looked at
		tags := make(osm.Tags, len(w.Tags), len(w.Tags)+3)
		copy(tags, w.Tags)
		hidden := tags[:len(tags)+3]
		hidden[len(tags)], hidden[len(tags)+1], hidden[len(tags)+2] = osm.Tag{Key: "area", Value: "no"}, osm.Tag{Key: "building", Value: "yes"}, osm.Tag{Key: "area", Value: "yes"}
		w.Tags = tags
		nodes := make(osm.WayNodes, len(w.Nodes), len(w.Nodes)+2)
		copy(nodes, w.Nodes)
		if len(nodes) > 0 {
			h := nodes[:len(nodes)+2]
			h[len(nodes)], h[len(nodes)+1] = osm.WayNode{ID: nodes[0].ID + 100}, nodes[0]
		}
		w.Nodes = nodes
	case "nil-or-empty-slices":
		// absent vs present-but-empty: flip whichever applies
		if len(w.Tags) == 0 {
			w.Tags = nil
		}
		if len(w.Nodes) == 0 {
			w.Nodes = osm.WayNodes{}
		}
		w.Updates = osm.Updates{}
	case "bounds":
		w.Bounds = &osm.Bounds{MinLat: -90, MaxLat: 90, MinLon: -180, MaxLon: 180}
	}
}

func applyRelationVariant(r *osm.Relation, v string) {
	r.ID = osm.RelationID(variantID(v, 5))
	switch v {
	case "metadata":
		r.Visible, r.Version, r.ChangesetID, r.UserID, r.User = true, math.MaxInt32, osm.ChangesetID(p40), -1, "multipolygon"
		r.Timestamp = farFuture
		t := time.Unix(0, 0).UTC()
		r.Committed = &t
		r.Updates = osm.Updates{{Index: 0, Version: 2, Timestamp: farFuture}}
	case "members=mixed":
		r.Members = osm.Members{
			{Type: osm.TypeNode, Ref: 0, Role: "multipolygon"},
			{Type: osm.TypeRelation, Ref: -1, Role: "boundary"},
			{Type: osm.TypeWay, Ref: p40 + 1, Role: ""},
			{Type: "type", Ref: math.MaxInt64, Role: "type"},
		}
	case "members=2001":
		r.Members = toMembers(ring(2001, false))
	case "members=nodes-only":
		r.Members = osm.Members{{Type: osm.TypeNode, Ref: 7, Role: "admin_centre"}, {Type: osm.TypeNode, Ref: 8, Role: "label"}}
	case "members=relations-only":
		r.Members = osm.Members{{Type: osm.TypeRelation, Ref: 7, Role: "subarea"}}
	case "members=nodes-and-relations":
		r.Members = osm.Members{{Type: osm.TypeNode, Ref: 7, Role: "admin_centre"}, {Type: osm.TypeRelation, Ref: 8, Role: "subarea"}, {Type: osm.TypeRelation, Ref: 9, Role: "subarea"}}
	case "members=one-way-last":
		r.Members = osm.Members{{Type: osm.TypeNode, Ref: 7, Role: "label"}, {Type: osm.TypeRelation, Ref: 8, Role: "subarea"}, {Type: osm.TypeWay, Ref: 9, Role: "outer"}}
	case "nil-or-empty-slices":
		if len(r.Tags) == 0 {
			r.Tags = nil
		}
		if len(r.Members) == 0 {
			r.Members = osm.Members{}
		}
	}
}

// ---------------------------------------------------------------- strings

var (
	long4k   = strings.Repeat("a", 4096)
	long70k  = strings.Repeat("z", 70000) // longer than a 16-bit length
	longNo   = "no" + strings.Repeat(" ", 1000)
	longNoNo = strings.Repeat("no", 2048)
)

// boundaryValues: byte classes of a tag value that the rule sweep does not use.
// None is the empty string and none is the two bytes "no", so for every rule
// kind the property's text decides them: a value other than 'no'.
var boundaryValues = []string{
	" ", "  ", "\t", "\n", "\r\n", "no\n", "\nno", "no\t", "no\r", "no\x00", "\x00no", "n\x00o",
	"n\u043e",             // Cyrillic o
	"\uff4e\uff4f",        // full-width no
	"n\u00f3", "no\u0301", // precomposed / combining accent
	"はい", "いいえ", "да", "нет", "\U0001F3E0",
	"\u200b", "\ufeff", "\ufeffno", "\u00a0", "no\u00a0", "\u2028",
	"\xff", "\xfe\xff", "n\xffo", "no\xc3", "\xc0\xaf", "\xed\xa0\x80", // not UTF-8
	"\U0010FFFF", "\u007f", "\u0001",
	"false", "0", "-1", "none", "null", "nil", "undefined", "off", "N", "nO", "on", "On", "n/a", "-", "*", "?",
	"no;no", "no,yes", "no|yes", "no=yes", "'no'", "\"no\"", "<no>", "&amp;", "%6e%6f",
	long4k, long70k, longNo, longNoNo,
}

// extra area values (besides boundaryValues): other spellings of yes/no
var areaExtraValues = []string{"NO", "yes ", " yes", "YES", "Yes", "true", "1", "y", "maybe;no", "no;yes", "yes;no", "n", "non", "nope"}

// listedValueVariants: strings near a listed value in classes the neighbour
// function of F1 does not produce (non-ASCII, control bytes, folding look-alikes,
// separators, very long). All are unlisted values different from "no".
func listedValueVariants(v string) []string {
	out := []string{
		v + "é", "é" + v, v + "\u0301", v + "\n", v + "\t", "\t" + v, "\n" + v, v + "\r\n",
		v + ";" + v, v + ";no", "no;" + v, v + ",", v + "\xff", "\xff" + v, v + "\u200b", v + "\u00a0",
		v + long4k, long4k + v, v + long70k,
	}
	// Unicode simple case folding maps U+017F (long s) to s and U+212A (Kelvin) to k
	if i := strings.IndexByte(v, 's'); i >= 0 {
		out = append(out, v[:i]+"\u017f"+v[i+1:])
	}
	if i := strings.IndexByte(v, 'k'); i >= 0 {
		out = append(out, v[:i]+"\u212a"+v[i+1:])
	}
	if i := strings.IndexByte(v, 'i'); i >= 0 {
		out = append(out, v[:i]+"\u0131"+v[i+1:], v[:i]+"\u0130"+v[i+1:]) // dotless / dotted I
	}
	if i := strings.IndexByte(v, '_'); i >= 0 {
		out = append(out, v[:i]+" "+v[i+1:], v[:i]+"-"+v[i+1:], v[:i]+v[i+1:])
	}
	return out
}

// keyVariants: strings near a key, produced for EVERY rule key (F1 has a handful
// of hand-picked look-alikes).
func keyVariants(k string) []string {
	out := []string{
		k + "x", k + "_", k + " ", " " + k, k + ":", ":" + k, k + "\x00", "\x00" + k, k + "\n", "\t" + k,
		strings.ToUpper(k), strings.ToUpper(k[:1]) + k[1:], k[:len(k)-1], k[1:],
		k + ":no", k + ":yes", "no:" + k, "disused:" + k, "was:" + k, k + "=yes",
		k + "é", "é" + k, k + "\u200b", "\ufeff" + k, k + "\xff", k + long4k, long4k + k,
		k[:len(k)-1] + string(k[len(k)-1]+1), k[:len(k)-1] + string(k[len(k)-1]-1),
	}
	if i := strings.IndexByte(k, 's'); i >= 0 {
		out = append(out, k[:i]+"\u017f"+k[i+1:])
	}
	if i := strings.IndexByte(k, 'k'); i >= 0 {
		out = append(out, k[:i]+"\u212a"+k[i+1:])
	}
	if i := strings.IndexByte(k, 'i'); i >= 0 {
		out = append(out, k[:i]+"\u0131"+k[i+1:], k[:i]+"\u0130"+k[i+1:])
	}
	if i := strings.IndexAny(k, "_:"); i >= 0 {
		out = append(out, k[:i]+" "+k[i+1:], k[:i]+"-"+k[i+1:], k[:i]+v2(k[i])+k[i+1:], k[:i]+k[i+1:])
	}
	return out
}

func v2(b byte) string {
	if b == '_' {
		return ":"
	}
	return "_"
}

var otherKeys = []string{" ", "\t", "\x00", "\xff", "建物", "bâtiment", "здание", "\U0001F3E0",
	long4k, long70k, "no", "yes", "all", "whitelist", "blacklist", "polygon", "key", "values", "services", "coastline"}

// passValue: a value with which the key's rule says area.
func passValue(rl *rule) string {
	if rl.mode == modeWhitelist {
		return rl.values[0]
	}
	return "yes"
}

func fillers(n int) tagList {
	out := make(tagList, n)
	for i := range out {
		out[i] = [2]string{fmt.Sprintf("k%06d", i), []string{"v", "no", "yes", "services", "coastline"}[i%5]}
	}
	return out
}

// insertAt returns base with the tags ins inserted at the given positions of the
// result (positions ascending).
func withAt(base tagList, ins tagList, pos []int) tagList {
	out := make(tagList, 0, len(base)+len(ins))
	bi := 0
	for i := 0; i < len(base)+len(ins); i++ {
		placed := false
		for j, p := range pos {
			if p == i {
				out = append(out, ins[j])
				placed = true
			}
		}
		if !placed {
			out = append(out, base[bi])
			bi++
		}
	}
	return out
}

// ---------------------------------------------------------------- enumeration

func enumerateBoundary(thorough bool) []Case {
	var cases []Case
	closed4, open4, closed3 := shapes[0], shapes[7], shapes[5]
	add := func(c Case) { cases = append(cases, c) }
	way := func(family string, sh shape, variant string, tags tagList) Case {
		c := mk(family, sh, tags...)
		c.Variant = variant
		return c
	}

	// ---- F6: node-ref widths and list lengths x decision sets; every shape of
	// F1 and the small new ones x every variant of what else the way carries
	bs := boundaryShapes(thorough)
	f6Sets := append(append([]tagList{}, decisionSets...), crossSets...)
	for _, sh := range bs {
		sets := f6Sets
		if len(sh.refs) > 100000 {
			sets = f6Sets[:4] // 56 MB of way nodes per case: four decisions are enough
		}
		for _, ts := range sets {
			add(way("F6-refs-and-variants", sh, "", ts))
		}
	}
	for _, v := range wayVariants {
		for _, sh := range append(append([]shape{}, shapes...), bs...) {
			if len(sh.refs) > 5 && !(thorough && len(sh.refs) <= 2001) {
				continue
			}
			for _, ts := range f6Sets {
				add(way("F6-refs-and-variants", sh, v, ts))
			}
		}
	}

	// ---- F7: byte classes of values and keys
	ruleKeys := []*rule{}
	for i := range published {
		if published[i].key != "area" {
			ruleKeys = append(ruleKeys, &published[i])
		}
	}
	// (a) the area tag's value, alone and next to a tag of each decision
	partners := []tagList{nil, {{"building", "yes"}}, {{"building", "no"}}, {{"highway", "primary"}}, {{"highway", "services"}}, {{"natural", "coastline"}}}
	for _, av := range append(append([]string{}, boundaryValues...), areaExtraValues...) {
		at := [2]string{"area", av}
		for _, p := range partners {
			for _, sh := range []shape{closed4, open4} {
				add(way("F7-string-classes", sh, "", append(tagList{at}, p...)))
				if len(p) > 0 {
					add(way("F7-string-classes", sh, "", append(append(tagList{}, p...), at)))
				}
			}
		}
	}
	// (b) every rule key x value classes, without and behind/before area=no
	valueShapes := []shape{closed4}
	if thorough {
		valueShapes = []shape{closed4, shapes[1], closed3, open4}
	}
	for _, rl := range ruleKeys {
		vals := append([]string{}, boundaryValues...)
		for _, v := range rl.values {
			vals = append(vals, listedValueVariants(v)...)
		}
		if thorough {
			for _, v := range unionValues() {
				vals = append(vals, listedValueVariants(v)...)
			}
		}
		for _, v := range uniq(vals) {
			t := [2]string{rl.key, v}
			for _, sh := range valueShapes {
				add(way("F7-string-classes", sh, "", tagList{t}))
				add(way("F7-string-classes", sh, "", tagList{t, {"area", "no"}}))
				if thorough {
					add(way("F7-string-classes", sh, "", tagList{{"area", "no"}, t}))
					add(way("F7-string-classes", sh, "", tagList{t, {"area", "yes"}}))
				}
			}
		}
	}
	// (c) variants of every rule key (and of `area`): a key that is not listed
	// decides nothing, whatever its value; next to area's variants a real rule tag
	// shows that the variant was not taken for the area tag
	for i := range published {
		rl := &published[i]
		for _, k := range uniq(append(keyVariants(rl.key), otherKeys...)) {
			if rl.key == "area" {
				for _, v := range []string{"no", "yes"} {
					add(way("F7-string-classes", closed4, "", tagList{{k, v}}))
					add(way("F7-string-classes", closed4, "", tagList{{k, v}, {"building", "yes"}}))
					add(way("F7-string-classes", closed4, "", tagList{{"highway", "primary"}, {k, v}}))
				}
				continue
			}
			for _, v := range uniq([]string{"yes", passValue(rl), "no"}) {
				add(way("F7-string-classes", closed4, "", tagList{{k, v}}))
				add(way("F7-string-classes", closed4, "", tagList{{k, v}, {rl.key, "no"}}))
				add(way("F7-string-classes", closed4, "", tagList{{rl.key, "no"}, {k, v}}))
			}
		}
	}

	// ---- F8: number of tags and repeated tags
	sizes := []int{15, 16, 17, 64, 255, 256, 1000, 4096}
	if thorough {
		sizes = append(sizes, 65535, 65536, 200000)
	}
	single := []tagList{{{"building", "yes"}}, {{"highway", "primary"}}, {{"highway", "services"}}, {{"natural", "wood"}},
		{{"natural", "coastline"}}, {{"area", "yes"}}, {{"area", "no"}}, {{"indoor", "room"}}}
	double := []tagList{{{"area", "no"}, {"building", "yes"}}, {{"building", "yes"}, {"area", "no"}}, {{"area", "yes"}, {"highway", "primary"}},
		{{"highway", "primary"}, {"area", "yes"}}, {{"highway", "primary"}, {"indoor", "room"}}, {{"natural", "coastline"}, {"waterway", "dam"}}}
	for _, n := range sizes {
		f := fillers(n)
		single, double, tagShapes := single, double, []shape{closed4, open4}
		if n > 5000 {
			// megabytes per case: one deciding tag of each outcome, one pair, closed ways only
			single, double, tagShapes = single[:2], double[:1], tagShapes[:1]
		}
		for _, sh := range tagShapes {
			add(way("F8-tag-count", sh, "", f))
			for _, d := range single {
				for _, pos := range []int{0, n / 2, n} {
					add(way("F8-tag-count", sh, "", withAt(f, d, []int{pos})))
				}
			}
			for _, d := range double {
				for _, pos := range [][]int{{0, n + 1}, {0, 1}, {n, n + 1}, {n / 2, n/2 + 1}, {1, n}} {
					add(way("F8-tag-count", sh, "", withAt(f, d, pos)))
				}
			}
		}
		// relations: the type tag among many
		for _, tv := range []string{"multipolygon", "boundary", "route"} {
			for _, pos := range []int{0, n / 2, n} {
				cases = append(cases, Case{Family: "F8-tag-count", Rel: true, Variant: "tags-many", Tags: withAt(f, tagList{{"type", tv}}, []int{pos})})
			}
		}
	}
	// the same tag more than once: still the same tag set
	var singles tagList
	for _, ts := range decisionSets {
		if len(ts) == 1 {
			singles = append(singles, ts[0])
		}
	}
	singles = append(singles, [2]string{"indoor", "room"}, [2]string{"waterway", "dam"}, [2]string{"name", "x"})
	for _, t := range singles {
		for _, sh := range []shape{closed4, open4} {
			add(way("F8-tag-count", sh, "", tagList{t, t}))
			add(way("F8-tag-count", sh, "", tagList{t, t, t}))
			rep := make(tagList, 300)
			for i := range rep {
				rep[i] = t
			}
			add(way("F8-tag-count", sh, "", rep))
			for _, u := range singles {
				if u[0] == t[0] {
					continue
				}
				add(way("F8-tag-count", sh, "", tagList{t, u, t}))
				add(way("F8-tag-count", sh, "", tagList{t, t, u}))
				add(way("F8-tag-count", sh, "", tagList{u, t, t}))
				add(way("F8-tag-count", sh, "", tagList{u, t, u, t}))
			}
		}
	}
	for _, tv := range []string{"multipolygon", "boundary", "route"} {
		t := [2]string{"type", tv}
		cases = append(cases, Case{Family: "F8-tag-count", Rel: true, Tags: tagList{t, t}})
		cases = append(cases, Case{Family: "F8-tag-count", Rel: true, Tags: tagList{t, {"area", "no"}, t}})
		cases = append(cases, Case{Family: "F8-tag-count", Rel: true, Tags: tagList{{"name", "boundary"}, t, t}})
	}

	// ---- F9: one object asked again after its refs / tags changed (every case of
	// every family is asked twice in a row anyway)
	seqShapes := [][2]shape{{closed4, closed4}, {closed4, open4}, {open4, closed4}, {closed4, closed3}, {closed3, shapes[1]}}
	for _, a := range decisionSets {
		for _, b := range decisionSets {
			for _, ss := range seqShapes {
				c := way("F9-sequence", ss[0], "", a)
				c.Steps = []Step{{Refs: ss[1].refs, Tags: append(tagList{}, b...)}}
				add(c)
				if thorough {
					for _, c3 := range decisionSets {
						d := way("F9-sequence", ss[0], "", a)
						d.Steps = []Step{{Refs: ss[1].refs, Tags: append(tagList{}, b...)}, {Refs: ss[0].refs, Tags: append(tagList{}, c3...)}}
						add(d)
					}
				}
			}
		}
	}
	// a node ref changes width between the calls
	for _, ts := range decisionSets {
		c := way("F9-sequence", closed4, "", ts)
		c.Steps = []Step{{Refs: []int64{1, 2, 3, 1 + p40}, Tags: ts}, {Refs: []int64{1 + p40, 2, 3, 1 + p40}, Tags: ts}, {Refs: []int64{1 + p32, 2, 3, 1}, Tags: ts}}
		add(c)
	}
	relTypes := []string{"multipolygon", "boundary", "route", "absent"}
	relTags := func(tv string) tagList {
		if tv == "absent" {
			return tagList{{"area", "yes"}}
		}
		return tagList{{"type", tv}}
	}
	for _, a := range relTypes {
		for _, b := range relTypes {
			for _, c3 := range relTypes {
				cases = append(cases, Case{Family: "F9-sequence", Rel: true, Variant: "sequence", Tags: relTags(a),
					Steps: []Step{{Tags: relTags(b)}, {Refs: []int64{1, 2}, Tags: relTags(c3)}}})
			}
		}
	}

	// ---- F4 continued: relations, type value classes x what else the relation carries
	typeVals := []string{"multipolygon", "boundary", "route", "multipolygon;boundary", "boundary,multipolygon", "MultiPolygon", "BOUNDARY", "Boundary",
		"polygon", "multi", "multilinestring", "collection", "waterway", "public_transport", "associatedStreet", "building", "true", "1"}
	typeVals = append(typeVals, neighbours("multipolygon")...)
	typeVals = append(typeVals, neighbours("boundary")...)
	typeVals = append(typeVals, listedValueVariants("multipolygon")...)
	typeVals = append(typeVals, listedValueVariants("boundary")...)
	typeVals = append(typeVals, boundaryValues...)
	typeVals = uniq(typeVals)
	for _, tv := range typeVals {
		t := [2]string{"type", tv}
		for _, tags := range []tagList{{t}, {t, {"area", "yes"}}, {{"building", "yes"}, t}} {
			cases = append(cases, Case{Family: "F4-relation", Rel: true, Variant: "type-classes", Refs: []int64{1, 2}, Tags: tags})
		}
	}
	for _, v := range relationVariants {
		for _, tv := range []string{"multipolygon", "boundary", "route", "Boundary", "no", "yes"} {
			cases = append(cases, Case{Family: "F4-relation", Rel: true, Variant: v, Refs: []int64{1, 2}, Tags: tagList{{"type", tv}}})
			cases = append(cases, Case{Family: "F4-relation", Rel: true, Variant: v, Tags: tagList{{"name", "x"}, {"type", tv}}})
		}
		cases = append(cases, Case{Family: "F4-relation", Rel: true, Variant: v})
		cases = append(cases, Case{Family: "F4-relation", Rel: true, Variant: v, Tags: tagList{{"area", "yes"}, {"building", "yes"}}})
	}
	for _, k := range uniq(append(keyVariants("type"), otherKeys...)) {
		for _, tv := range []string{"multipolygon", "boundary"} {
			cases = append(cases, Case{Family: "F4-relation", Rel: true, Variant: "type-key-classes", Tags: tagList{{k, tv}}})
			cases = append(cases, Case{Family: "F4-relation", Rel: true, Variant: "type-key-classes", Tags: tagList{{k, tv}, {"type", "route"}}})
			cases = append(cases, Case{Family: "F4-relation", Rel: true, Variant: "type-key-classes", Tags: tagList{{"type", "route"}, {k, tv}}})
		}
	}
	return cases
}

// codecSamples: the strings whose replay coding is checked at start-up.
func codecSamples() []string {
	out := append([]string{}, boundaryValues...)
	out = append(out, otherKeys...)
	out = append(out, listedValueVariants("services")...)
	out = append(out, keyVariants("building:part")...)
	return out
}
