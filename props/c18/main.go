// C18 — Area classification of ways follows the published polygon-features rules.
//
// Bounded-exhaustive comparison of osm.Way.Polygon / osm.Relation.Polygon with a
// reference predicate written here from the property text and an independent
// transcription of https://wiki.openstreetmap.org/wiki/Overpass_turbo/Polygon_Features
// (see table.go). The reference never looks at the library's table, uses plain
// linear search, and is order independent by construction (it quantifies over the
// tag set).
package main

import (
	"fmt"
	"strings"
	"sync/atomic"

	"github.com/paulmach/osm"

	"verif/kit"
)

// Case is one way or relation handed to Polygon(). It is the replay format.
type Case struct {
	Family string      `json:"family"`
	Rel    bool        `json:"relation,omitempty"`
	Shape  string      `json:"shape,omitempty"`
	Refs   []int64     `json:"refs,omitempty"`
	Meta   bool        `json:"meta,omitempty"` // first/last way node carry different version/lat/lon
	Tags   [][2]string `json:"tags"`
}

func (c Case) Fingerprint() string {
	var b strings.Builder
	if c.Rel {
		b.WriteString("R")
	} else {
		fmt.Fprintf(&b, "W%v%v", c.Refs, c.Meta)
	}
	for _, t := range c.Tags {
		b.WriteString("|")
		b.WriteString(t[0])
		b.WriteString("=")
		b.WriteString(t[1])
	}
	return b.String()
}

// ---------------------------------------------------------------- reference

const (
	no          = 0
	yes         = 1
	unspecified = 2
)

func closedMoreThanThree(refs []int64) bool {
	return len(refs) > 3 && refs[0] == refs[len(refs)-1]
}

// tagSetArea evaluates the tag clause of the property on a tag set with distinct
// keys. emptyIsValue selects the reading of a tag whose value is the empty
// string: false = "the key has no value" (the tag is ignored), true = "it is a
// value other than 'no'". The property text does not say which; refWay reports
// `unspecified` when the two readings disagree.
func tagSetArea(tags [][2]string, emptyIsValue bool) bool {
	// never for area=no, always for any other non-empty area value
	for _, t := range tags {
		if t[0] == "area" {
			if t[1] == "no" {
				return false
			}
			if t[1] != "" {
				return true
			}
		}
	}
	// otherwise: some listed key has a value other than 'no' that passes the
	// key's all / whitelist / blacklist rule
	for _, t := range tags {
		rl := lookupRule(t[0])
		if rl == nil {
			continue
		}
		if t[1] == "no" {
			continue
		}
		if t[1] == "" && !emptyIsValue {
			continue
		}
		if rl.passes(t[1]) {
			return true
		}
	}
	return false
}

func refWay(c Case) int {
	if !closedMoreThanThree(c.Refs) {
		return no
	}
	a, b := tagSetArea(c.Tags, false), tagSetArea(c.Tags, true)
	if a != b {
		return unspecified
	}
	if a {
		return yes
	}
	return no
}

func refRelation(c Case) int {
	for _, t := range c.Tags {
		if t[0] == "type" {
			if t[1] == "multipolygon" || t[1] == "boundary" {
				return yes
			}
			return no
		}
	}
	return no
}

func distinctKeys(tags [][2]string) bool {
	for i := range tags {
		for j := i + 1; j < len(tags); j++ {
			if tags[i][0] == tags[j][0] {
				return false
			}
		}
	}
	return true
}

// ---------------------------------------------------------------- real code

func callReal(c Case) (got bool, panicked interface{}) {
	defer func() {
		if p := recover(); p != nil {
			panicked = p
		}
	}()
	tags := make(osm.Tags, 0, len(c.Tags))
	for _, t := range c.Tags {
		tags = append(tags, osm.Tag{Key: t[0], Value: t[1]})
	}
	if c.Rel {
		r := &osm.Relation{ID: 5, Tags: tags}
		for i, ref := range c.Refs {
			r.Members = append(r.Members, osm.Member{Type: osm.TypeWay, Ref: ref, Role: []string{"outer", "inner"}[i%2]})
		}
		return r.Polygon(), nil
	}
	w := &osm.Way{ID: 9, Tags: tags}
	for _, ref := range c.Refs {
		w.Nodes = append(w.Nodes, osm.WayNode{ID: osm.NodeID(ref)})
	}
	if c.Meta && len(w.Nodes) > 0 {
		w.Nodes[0].Version, w.Nodes[0].Lat = 1, 1.5
		l := len(w.Nodes) - 1
		w.Nodes[l].Version, w.Nodes[l].Lon, w.Nodes[l].ChangesetID = 2, -3.25, 77
	}
	return w.Polygon(), nil
}

func checkCase(r *kit.Run, c Case) {
	if !distinctKeys(c.Tags) {
		r.Add("skipped_duplicate_keys", 1) // "tag set" is not defined for repeated keys
		return
	}
	var want int
	if c.Rel {
		want = refRelation(c)
	} else {
		want = refWay(c)
	}
	if want == unspecified {
		r.Add("skipped_empty_value_ambiguous", 1)
		return
	}
	r.Case(c.Fingerprint(), nonTrivial(c))
	atomic.AddInt64(r.Counter("family_"+c.Family), 1)
	if want == yes {
		atomic.AddInt64(r.Counter("expected_area"), 1)
	}
	got, p := callReal(c)
	if p != nil {
		r.Violation("panic/"+kindOf(c), fmt.Sprintf("Polygon() panicked: %v for %s", p, c.Fingerprint()), c)
		return
	}
	if got != (want == yes) {
		r.Violation(keyFor(c, want), fmt.Sprintf("Polygon()=%v, reference says %v for %s", got, want == yes, c.Fingerprint()), c)
	}
}

func kindOf(c Case) string {
	if c.Rel {
		return "relation"
	}
	return "way"
}

// nonTrivial: the precondition holds and at least one tag that a rule speaks
// about is present (so the tag clause decides), or it is a relation with tags.
func nonTrivial(c Case) bool {
	if c.Rel {
		return len(c.Tags) > 0
	}
	if !closedMoreThanThree(c.Refs) {
		return false
	}
	for _, t := range c.Tags {
		if lookupRule(t[0]) != nil {
			return true
		}
	}
	return false
}

// keyFor builds a stable key: the clause that decides in the reference plus the
// rule key (and for list rules the value) it is decided on.
func keyFor(c Case, want int) string {
	if c.Rel {
		return "relation-type/" + c.tag("type")
	}
	if !closedMoreThanThree(c.Refs) {
		return "precondition/" + c.Shape
	}
	if v, ok := c.lookup("area"); ok && v != "" {
		if v == "no" {
			return "area-tag/no"
		}
		return "area-tag/other-nonempty"
	}
	// first tag (in table order, deterministic) that should have decided
	for _, rl := range published {
		v, ok := c.lookup(rl.key)
		if !ok || v == "" {
			continue
		}
		cls := "unlisted-value"
		if v == "no" {
			cls = "no"
		} else if rl.listed(v) {
			cls = "value=" + v
		}
		if want == yes && v != "no" && rl.passes(v) {
			return "rule/" + rl.key + "/" + rl.modeName() + "/" + cls + "/should-be-area"
		}
		if want == no {
			return "rule/" + rl.key + "/" + rl.modeName() + "/" + cls + "/should-not-be-area"
		}
	}
	return "no-rule-key/should-not-be-area"
}

func (c Case) lookup(k string) (string, bool) {
	for _, t := range c.Tags {
		if t[0] == k {
			return t[1], true
		}
	}
	return "", false
}
func (c Case) tag(k string) string {
	v, ok := c.lookup(k)
	if !ok {
		return "absent"
	}
	return "value=" + v
}

func main() {
	kit.Main("C18", "exploration", func(r *kit.Run) {
		r.Rule("every case of five finite families is evaluated (no sampling): F1 every rule key and look-alike key x every value (own list, every other key's list, '', no, yes, unlisted, neighbours of listed values) x area class x area position x way shape; F2 every ordered pair of rule keys x value classes x area x shape; F3 every permutation of every <=3-tag subset of a pool with an unrelated tag at every position; F4 relations: type values x position among other tags; F5 (thorough) every ordered triple of rule keys x value classes. Non-trivial = way closed with >3 refs carrying at least one rule/area key (relations: at least one tag); distinct = distinct (refs, ordered tag list).")
		r.Assume("reference rule table = independent transcription from memory of the Overpass-turbo polygon-features wiki table (no network); compared key by key with /repo/polygon.go by the author: identical keys, rule kinds and values")
		r.Assume("a tag with an empty value: the property does not say whether it 'has a value'; cases where the two readings differ are skipped and counted")
		r.Assume("tag lists with a repeated key are outside the property's 'tag set' and are not generated")
		if r.ReplayPath != "" {
			var c Case
			r.LoadReplay(&c)
			checkCase(r, c)
			return
		}
		selfCheckTable()
		cases := enumerate(!r.Quick())
		r.Set("cases_generated", len(cases))
		r.Set("rule_keys", len(published))
		// samples: six non-trivial, judged cases spread evenly over the case list
		for k := 0; k < 6; k++ {
			for i := k*len(cases)/6 + len(cases)/12; i < len(cases); i++ {
				c := cases[i]
				if nonTrivial(c) && (c.Rel || refWay(c) != unspecified) {
					r.Sample(c)
					break
				}
			}
		}
		r.Par(len(cases), func(i int) { checkCase(r, cases[i]) })
	})
}
