// C18 — Area classification of ways follows the published polygon-features rules.
//
// Bounded-exhaustive comparison of osm.Way.Polygon / osm.Relation.Polygon with a
// reference predicate written here from the property text and an independent
// transcription of https://wiki.openstreetmap.org/wiki/Overpass_turbo/Polygon_Features
// (see table.go). The reference never looks at the library's table, uses plain
// linear search, and is order independent by construction (it quantifies over the
// tag set).
package main

import (
	"fmt"
	"hash/fnv"
	"strings"
	"sync/atomic"

	"github.com/paulmach/osm"

	"verif/kit"
)

// Case is one way or relation handed to Polygon(). It is the replay format.
type Case struct {
	Family string  `json:"family"`
	Rel    bool    `json:"relation,omitempty"`
	Shape  string  `json:"shape,omitempty"`
	Refs   []int64 `json:"refs,omitempty"`
	Meta   bool    `json:"meta,omitempty"` // first/last way node carry different version/lat/lon
	Tags   tagList `json:"tags"`
	// Variant names what else the object carries besides refs and tags (its own
	// id, metadata, updates, nil instead of empty slices, ...); see applyVariant.
	// None of it is mentioned by the property, so none of it may matter.
	Variant string `json:"variant,omitempty"`
	// Steps: after the first answer the SAME object is given these refs and tags
	// one after the other and asked again each time.
	Steps []Step `json:"steps,omitempty"`
}

// Step is one later state of the object of a sequence case.
type Step struct {
	Refs []int64 `json:"refs,omitempty"`
	Tags tagList `json:"tags"`
}

func (c Case) Fingerprint() string {
	var b strings.Builder
	if c.Rel {
		b.WriteString("R")
		if c.Variant != "" {
			fmt.Fprintf(&b, "%d", len(c.Refs))
		}
	} else {
		fmt.Fprintf(&b, "W%s%v", abbrevRefs(c.Refs), c.Meta)
	}
	if c.Variant != "" {
		b.WriteString("{" + c.Variant + "}")
	}
	writeTags(&b, c.Tags)
	for _, st := range c.Steps {
		fmt.Fprintf(&b, " -> %s", abbrevRefs(st.Refs))
		writeTags(&b, st.Tags)
	}
	return b.String()
}

// Describe is the Fingerprint for messages: of a long tag list only the tags a
// rule speaks about are shown (with their positions).
func (c Case) Describe() string {
	long := len(c.Tags) > 24
	for _, st := range c.Steps {
		long = long || len(st.Tags) > 24
	}
	if !long {
		return c.Fingerprint()
	}
	short := func(tags tagList) tagList {
		if len(tags) <= 24 {
			return tags
		}
		h := fnv.New64a()
		var out tagList
		for i, t := range tags {
			h.Write([]byte(t[0] + "\x00" + t[1] + "\x00"))
			if lookupRule(t[0]) != nil || t[0] == "type" || i == 0 || i == len(tags)-1 {
				out = append(out, [2]string{fmt.Sprintf("[%d]%s", i, t[0]), t[1]})
			}
		}
		return append(out, [2]string{"tags", fmt.Sprintf("%d,fnv=%016x", len(tags), h.Sum64())})
	}
	d := c
	d.Tags = short(c.Tags)
	d.Steps = nil
	for _, st := range c.Steps {
		d.Steps = append(d.Steps, Step{Refs: st.Refs, Tags: short(st.Tags)})
	}
	return d.Fingerprint()
}

func writeTags(b *strings.Builder, tags tagList) {
	for _, t := range tags {
		b.WriteString("|")
		b.WriteString(abbrev(t[0]))
		b.WriteString("=")
		b.WriteString(abbrev(t[1]))
	}
}

// states lists the object states of a case: the initial one and one per step.
func (c Case) states() []Case {
	out := []Case{c}
	out[0].Steps = nil
	for _, st := range c.Steps {
		n := out[0]
		n.Refs, n.Tags = st.Refs, st.Tags
		out = append(out, n)
	}
	return out
}

// ---------------------------------------------------------------- reference

const (
	no          = 0
	yes         = 1
	unspecified = 2
)

func closedMoreThanThree(refs []int64) bool {
	return len(refs) > 3 && refs[0] == refs[len(refs)-1]
}

// tagSetArea evaluates the tag clause of the property on a tag set with distinct
// keys. emptyIsValue selects the reading of a tag whose value is the empty
// string: false = "the key has no value" (the tag is ignored), true = "it is a
// value other than 'no'". The property text does not say which; refWay reports
// `unspecified` when the two readings disagree.
func tagSetArea(tags [][2]string, emptyIsValue bool) bool {
	// never for area=no, always for any other non-empty area value
	for _, t := range tags {
		if t[0] == "area" {
			if t[1] == "no" {
				return false
			}
			if t[1] != "" {
				return true
			}
		}
	}
	// otherwise: some listed key has a value other than 'no' that passes the
	// key's all / whitelist / blacklist rule
	for _, t := range tags {
		rl := lookupRule(t[0])
		if rl == nil {
			continue
		}
		if t[1] == "no" {
			continue
		}
		if t[1] == "" && !emptyIsValue {
			continue
		}
		if rl.passes(t[1]) {
			return true
		}
	}
	return false
}

func refWay(c Case) int {
	if !closedMoreThanThree(c.Refs) {
		return no
	}
	a, b := tagSetArea(c.Tags, false), tagSetArea(c.Tags, true)
	if a != b {
		return unspecified
	}
	if a {
		return yes
	}
	return no
}

func refRelation(c Case) int {
	for _, t := range c.Tags {
		if t[0] == "type" {
			if t[1] == "multipolygon" || t[1] == "boundary" {
				return yes
			}
			return no
		}
	}
	return no
}

// isTagSet: the list denotes a tag set (a key has one value). A tag that is
// repeated with the same value denotes the same set as a single occurrence; a
// key with two different values is not a tag set and is not judged.
func isTagSet(tags [][2]string) bool {
	if len(tags) > 64 {
		seen := make(map[string]string, len(tags))
		for _, t := range tags {
			if v, ok := seen[t[0]]; ok && v != t[1] {
				return false
			}
			seen[t[0]] = t[1]
		}
		return true
	}
	for i := range tags {
		for j := i + 1; j < len(tags); j++ {
			if tags[i][0] == tags[j][0] && tags[i][1] != tags[j][1] {
				return false
			}
		}
	}
	return true
}

// ---------------------------------------------------------------- real code

// outcome of running one case against the library: one answer per object state
// (every state is asked twice in a row; unstable = index of the first state whose
// two answers differ, or -1).
type outcome struct {
	got      []bool
	unstable int
	panicked interface{}
	at       int
}

func toTags(tl tagList) osm.Tags {
	tags := make(osm.Tags, 0, len(tl))
	for _, t := range tl {
		tags = append(tags, osm.Tag{Key: t[0], Value: t[1]})
	}
	return tags
}

func toNodes(refs []int64, meta bool) osm.WayNodes {
	var ns osm.WayNodes // stays nil for a way without refs
	if len(refs) > 0 {
		ns = make(osm.WayNodes, len(refs))
	}
	for i, ref := range refs {
		ns[i].ID = osm.NodeID(ref)
	}
	if meta && len(ns) > 0 {
		ns[0].Version, ns[0].Lat = 1, 1.5
		l := len(ns) - 1
		ns[l].Version, ns[l].Lon, ns[l].ChangesetID = 2, -3.25, 77
	}
	return ns
}

func toMembers(refs []int64) osm.Members {
	var ms osm.Members
	for i, ref := range refs {
		ms = append(ms, osm.Member{Type: osm.TypeWay, Ref: ref, Role: []string{"outer", "inner"}[i%2]})
	}
	return ms
}

// setTags / setNodes give an existing object its next state: in place when the
// length allows it (the slice header the object holds stays the same), by a new
// slice otherwise.
func setTags(dst *osm.Tags, tl tagList) {
	if len(*dst) == len(tl) && len(tl) > 0 {
		for i, t := range tl {
			(*dst)[i] = osm.Tag{Key: t[0], Value: t[1]}
		}
		return
	}
	*dst = toTags(tl)
}

func setNodes(dst *osm.WayNodes, refs []int64, meta bool) {
	ns := toNodes(refs, meta)
	if len(*dst) == len(ns) && len(ns) > 0 {
		copy(*dst, ns)
		return
	}
	*dst = ns
}

func callReal(c Case) (o outcome) {
	o.unstable = -1
	defer func() {
		if p := recover(); p != nil {
			o.panicked = p
		}
	}()
	var ask func() bool
	var next func(st Step)
	if c.Rel {
		r := &osm.Relation{ID: 5, Tags: toTags(c.Tags), Members: toMembers(c.Refs)}
		applyRelationVariant(r, c.Variant)
		ask = r.Polygon
		next = func(st Step) { setTags(&r.Tags, st.Tags); r.Members = toMembers(st.Refs) }
	} else {
		w := &osm.Way{ID: 9, Tags: toTags(c.Tags), Nodes: toNodes(c.Refs, c.Meta)}
		applyWayVariant(w, c.Variant)
		ask = w.Polygon
		next = func(st Step) { setTags(&w.Tags, st.Tags); setNodes(&w.Nodes, st.Refs, c.Meta) }
	}
	for i := 0; i <= len(c.Steps); i++ {
		o.at = i
		if i > 0 {
			next(c.Steps[i-1])
		}
		first := ask()
		second := ask()
		if first != second && o.unstable < 0 {
			o.unstable = i
		}
		o.got = append(o.got, first)
	}
	return o
}

func checkCase(r *kit.Run, c Case) {
	states := c.states()
	wants := make([]int, len(states))
	for i, st := range states {
		if !isTagSet(st.Tags) {
			r.Add("skipped_duplicate_keys", 1) // "tag set" is not defined for a key with two values
			return
		}
		if c.Rel {
			wants[i] = refRelation(st)
		} else {
			wants[i] = refWay(st)
		}
		if wants[i] == unspecified {
			r.Add("skipped_empty_value_ambiguous", 1)
			return
		}
	}
	nt := false
	for _, st := range states {
		nt = nt || nonTrivial(st)
	}
	r.Case(c.Fingerprint(), nt)
	desc := c.Describe
	atomic.AddInt64(r.Counter("family_"+c.Family), 1)
	if wants[0] == yes {
		atomic.AddInt64(r.Counter("expected_area"), 1)
	}
	o := callReal(c)
	if o.panicked != nil {
		r.Violation("panic/"+kindOf(c)+variantSuffix(c), fmt.Sprintf("Polygon() panicked: %v for %s (state %d)", o.panicked, desc(), o.at), c)
		return
	}
	for i, st := range states {
		if o.got[i] != (wants[i] == yes) {
			key := keyFor(st, wants[i]) + variantSuffix(c)
			if len(states) > 1 {
				key = fmt.Sprintf("sequence/state%d/%s", i, key)
			}
			r.Violation(key, fmt.Sprintf("Polygon()=%v, reference says %v for %s (state %d)", o.got[i], wants[i] == yes, desc(), i), c)
			return
		}
	}
	if o.unstable >= 0 {
		r.Violation("second-call-differs/"+keyFor(states[o.unstable], wants[o.unstable])+variantSuffix(c),
			fmt.Sprintf("two consecutive Polygon() calls on one unchanged object disagree for %s (state %d)", desc(), o.unstable), c)
	}
}

func variantSuffix(c Case) string {
	if c.Variant == "" {
		return ""
	}
	return "/variant=" + c.Variant
}

func kindOf(c Case) string {
	if c.Rel {
		return "relation"
	}
	return "way"
}

// nonTrivial: the precondition holds and at least one tag that a rule speaks
// about is present (so the tag clause decides), or it is a relation with tags.
func nonTrivial(c Case) bool {
	if c.Rel {
		return len(c.Tags) > 0
	}
	if !closedMoreThanThree(c.Refs) {
		return false
	}
	for _, t := range c.Tags {
		if lookupRule(t[0]) != nil {
			return true
		}
	}
	return false
}

// keyFor builds a stable key: the clause that decides in the reference plus the
// rule key (and for list rules the value) it is decided on.
func keyFor(c Case, want int) string {
	if c.Rel {
		return "relation-type/" + c.tag("type")
	}
	if !closedMoreThanThree(c.Refs) {
		return "precondition/" + c.Shape
	}
	if v, ok := c.lookup("area"); ok && v != "" {
		if v == "no" {
			return "area-tag/no"
		}
		return "area-tag/other-nonempty"
	}
	// first tag (in table order, deterministic) that should have decided
	for _, rl := range published {
		v, ok := c.lookup(rl.key)
		if !ok || v == "" {
			continue
		}
		cls := "unlisted-value"
		if v == "no" {
			cls = "no"
		} else if rl.listed(v) {
			cls = "value=" + v
		}
		if want == yes && v != "no" && rl.passes(v) {
			return "rule/" + rl.key + "/" + rl.modeName() + "/" + cls + "/should-be-area"
		}
		if want == no {
			return "rule/" + rl.key + "/" + rl.modeName() + "/" + cls + "/should-not-be-area"
		}
	}
	return "no-rule-key/should-not-be-area"
}

// size: rough number of bytes of the case (samples are kept small).
func (c Case) size() int {
	n := 8 * len(c.Refs)
	for _, t := range c.Tags {
		n += len(t[0]) + len(t[1])
	}
	return n
}

func (c Case) lookup(k string) (string, bool) {
	for _, t := range c.Tags {
		if t[0] == k {
			return t[1], true
		}
	}
	return "", false
}
func (c Case) tag(k string) string {
	v, ok := c.lookup(k)
	if !ok {
		return "absent"
	}
	return "value=" + abbrev(v)
}

func main() {
	kit.Main("C18", "exploration", func(r *kit.Run) {
		r.Rule("every case of nine finite families is evaluated (no sampling): F1 every rule key and look-alike key x every value (own list, every other key's list, '', no, yes, unlisted, neighbours of listed values) x area class x area position x way shape; F2 every ordered pair of rule keys x value classes x area x shape; F3 every permutation of every <=3-tag subset of a pool with an unrelated tag at every position; F4 relations: type values x position among other tags; F5 (thorough) every ordered triple of rule keys x value classes; F6 node refs at the widths where an id encoding changes (negative, 2^31, 2^32, 2^40, 2^53, 2^63-1, first/last equal only after a narrowing), ways of 1999-2001 and 65537 nodes, and every way shape x what else the way carries (own id 0/-1/2^40/max/min, metadata, updates, bounds, spare slice capacity, nil vs empty slices), each x 20 tag lists (every way the tag clause decides, plus string classes of F7 and a relation-only tag); F7 string classes (whitespace, control bytes, non-ASCII look-alikes of 'no', case-folding look-alikes, invalid UTF-8, 4 KiB / 70 KB strings) as the area value, as the value of every rule key, and around every rule key's name; F8 15-4096 tags (thorough 200000) with the deciding tags first/middle/last, and the same tag repeated; F9 one object asked again after its refs/tags changed; every case of every family asks the same object twice in a row. Non-trivial = way closed with >3 refs carrying at least one rule/area key (relations: at least one tag); distinct = distinct (refs, ordered tag list).")
		r.Assume("reference rule table = independent transcription from memory of the Overpass-turbo polygon-features wiki table (no network); compared key by key with /repo/polygon.go by the author: identical keys, rule kinds and values")
		r.Assume("a tag with an empty value: the property does not say whether it 'has a value'; cases where the two readings differ are skipped and counted")
		r.Assume("tag lists in which a key has two different values are outside the property's 'tag set' and are not generated; a tag repeated with the same value denotes the same set as one occurrence and is judged")
		r.Assume("the way's node refs are the ids of w.Nodes as given; w.Updates never change refs")
		if r.ReplayPath != "" {
			var c Case
			r.LoadReplay(&c)
			checkCase(r, c)
			return
		}
		selfCheckTable()
		if err := selfCheckCodec(codecSamples()); err != nil {
			kit.Fatalf("%v", err)
		}
		// the boundary families come first: their few large cases (65537 nodes,
		// 4096 tags) then overlap with the bulk instead of forming a tail
		cases := enumerateBoundary(!r.Quick())
		cases = enumerate(!r.Quick(), cases)
		r.Set("cases_generated", len(cases))
		r.Set("rule_keys", len(published))
		// samples: six non-trivial, judged cases spread evenly over the case list
		for k := 0; k < 6; k++ {
			for i := k*len(cases)/6 + len(cases)/12; i < len(cases); i++ {
				c := cases[i]
				if nonTrivial(c) && (c.Rel || refWay(c) != unspecified) && c.size() < 400 {
					r.Sample(c)
					break
				}
			}
		}
		r.Par(len(cases), func(i int) { checkCase(r, cases[i]) })
		// The classification is a function of the element alone: with every rule key (and
		// area, type, ...) declared uninteresting in the package-level osm.UninterestingTags -
		// the table an application edits to steer osmgeojson - every fifth case gives the same
		// answers. (The map is written before and after the parallel pass, never during it.)
		saved := map[string]bool{}
		for k, v := range osm.UninterestingTags {
			saved[k] = v
		}
		for _, rl := range published {
			osm.UninterestingTags[rl.key] = true
		}
		for _, k := range []string{"area", "type", "name", "k", "v"} {
			osm.UninterestingTags[k] = true
		}
		n := (len(cases) + 4) / 5
		r.Par(n, func(i int) { checkCase(r, cases[i*5]) })
		r.Set("cases_repeated_with_every_rule_key_uninteresting", n)
		for k := range osm.UninterestingTags {
			delete(osm.UninterestingTags, k)
		}
		for k, v := range saved {
			osm.UninterestingTags[k] = v
		}
	})
}
