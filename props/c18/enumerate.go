package main

import "strings"

type shape struct {
	name string
	refs []int64
	meta bool
}

var shapes = []shape{
	{"closed4", []int64{1, 2, 3, 1}, false},
	{"closed5", []int64{1, 2, 3, 4, 1}, false},
	{"closed4-one-ref", []int64{7, 7, 7, 7}, false},
	{"closed4-node-meta-differs", []int64{1, 2, 3, 1}, true},
	{"closed4-ref0", []int64{0, 2, 3, 0}, false},
	{"closed3", []int64{1, 2, 1}, false},
	{"closed2", []int64{1, 1}, false},
	{"open4", []int64{1, 2, 3, 4}, false},
	{"open4-first-repeats-inside", []int64{1, 2, 1, 3}, false},
	{"open5-closed-prefix", []int64{1, 2, 3, 1, 5}, false},
	{"open2", []int64{1, 2}, false},
	{"refs1", []int64{1}, false},
	{"refs0", nil, false},
}

var mainShapes = []int{0, 7} // closed4, open4

// area classes: absent is represented by a nil pointer
var areaValues = []string{"", "no", "yes", "maybe", "No", "no ", "0"}

func uniq(in []string) []string {
	var out []string
	for _, s := range in {
		dup := false
		for _, o := range out {
			if o == s {
				dup = true
				break
			}
		}
		if !dup {
			out = append(out, s)
		}
	}
	return out
}

// neighbours of a listed value: strings that sort next to it or differ in one
// edit, the ones a wrong binary search or an altered list entry would confuse.
func neighbours(v string) []string {
	out := []string{v + "x", v + "_", v + " ", " " + v, v + "\x00", strings.ToUpper(v), strings.ToUpper(v[:1]) + v[1:]}
	if len(v) > 1 {
		out = append(out, v[:len(v)-1], v[1:])
		out = append(out, v[:len(v)-1]+string(v[len(v)-1]+1), v[:len(v)-1]+string(v[len(v)-1]-1))
	}
	return out
}

func unionValues() []string {
	var u []string
	for _, rl := range published {
		u = append(u, rl.values...)
	}
	return uniq(u)
}

var genericValues = []string{"", "no", "yes", "zzz", "a", "No", "NO", "no ", " no", "n", "noo", "yes;no", "\x00", "~", "true", "1"}

func valuesFor(rl *rule, thorough bool) []string {
	vals := append([]string{}, genericValues...)
	u := unionValues()
	vals = append(vals, u...)
	if rl != nil {
		for _, v := range rl.values {
			vals = append(vals, neighbours(v)...)
		}
	}
	if thorough {
		for _, v := range u {
			vals = append(vals, neighbours(v)...)
		}
	}
	return uniq(vals)
}

var lookalikeKeys = []string{"name", "Building", "building ", "buildin", "building:par", "building:part:x",
	"area:highwa", "highwa", "highway:", "ar", "areas", "Area", "AREA", "man-made", "natural ", "", "type"}

func mk(family string, sh shape, tags ...[2]string) Case {
	return Case{Family: family, Shape: sh.name, Refs: sh.refs, Meta: sh.meta, Tags: append([][2]string{}, tags...)}
}

func enumerate(thorough bool, cases []Case) []Case {
	// about 537 k cases in the quick tier and 4.85 M in the thorough tier: one
	// allocation instead of regrowing (and copying) the list again and again
	capacity := 560000
	if thorough {
		capacity = 4900000
	}
	if cap(cases) < capacity {
		cases = append(make([]Case, 0, capacity), cases...)
	}

	// ---- F1: single key sweep
	var keys []string
	for _, rl := range published {
		if rl.key != "area" {
			keys = append(keys, rl.key)
		}
	}
	keys = append(keys, lookalikeKeys...)
	for _, k := range keys {
		vals := valuesFor(lookupRule(k), thorough)
		for _, v := range vals {
			for si, sh := range shapes {
				cases = append(cases, mk("F1-single-key", sh, [2]string{k, v}))
				for _, a := range areaValues {
					cases = append(cases, mk("F1-single-key", sh, [2]string{k, v}, [2]string{"area", a}))
					if si < 2 || thorough {
						cases = append(cases, mk("F1-single-key", sh, [2]string{"area", a}, [2]string{k, v}))
					}
				}
			}
		}
	}
	// area tag alone and no tags at all
	for _, sh := range shapes {
		cases = append(cases, mk("F1-single-key", sh))
		for _, a := range append(append([]string{}, areaValues...), valuesFor(nil, false)...) {
			cases = append(cases, mk("F1-single-key", sh, [2]string{"area", a}))
		}
	}

	// ---- F2: ordered pairs of rule keys x value classes
	classVals := func(rl *rule) []string {
		switch rl.mode {
		case modeAll:
			return []string{"yes", "zzz", "no"}
		default:
			return append(append([]string{}, rl.values...), "yes", "zzz", "no")
		}
	}
	ruleKeys := []*rule{}
	for i := range published {
		if published[i].key != "area" {
			ruleKeys = append(ruleKeys, &published[i])
		}
	}
	for _, a := range ruleKeys {
		for _, b := range ruleKeys {
			if a == b {
				continue
			}
			for _, va := range classVals(a) {
				for _, vb := range classVals(b) {
					for _, si := range mainShapes {
						sh := shapes[si]
						t1, t2 := [2]string{a.key, va}, [2]string{b.key, vb}
						cases = append(cases, mk("F2-key-pairs", sh, t1, t2))
						for _, ar := range []string{"no", "yes", ""} {
							cases = append(cases, mk("F2-key-pairs", sh, t1, t2, [2]string{"area", ar}))
							if thorough {
								cases = append(cases, mk("F2-key-pairs", sh, t1, [2]string{"area", ar}, t2))
								cases = append(cases, mk("F2-key-pairs", sh, [2]string{"area", ar}, t1, t2))
							}
						}
					}
				}
			}
		}
	}

	// ---- F3: tag order and unrelated tags
	pool := [][2]string{
		{"building", "yes"}, {"building", "no"}, {"highway", "services"}, {"highway", "primary"},
		{"highway", "elevator"}, {"natural", "coastline"}, {"natural", "wood"}, {"natural", "tree_row"},
		{"area", "yes"}, {"area", "no"}, {"area", ""}, {"waterway", "dam"}, {"waterway", "river"},
		{"barrier", "wall"}, {"barrier", "fence"}, {"man_made", "pipeline"}, {"man_made", "pier"},
		{"aeroway", "taxiway"}, {"aeroway", "apron"}, {"railway", "platform"}, {"railway", "rail"},
		{"power", "line"}, {"power", "plant"}, {"indoor", "room"}, {"area:highway", "no"}, {"building:part", "yes"},
	}
	if thorough {
		pool = append(pool, [][2]string{{"landuse", "no"}, {"landuse", "forest"}, {"highway", "escape"}, {"highway", "rest_area"},
			{"natural", "cliff"}, {"barrier", "spikes"}, {"barrier", "city_wall"}, {"golf", "green"}, {"area", "maybe"}}...)
	}
	unrelated := [][2]string{{"name", "no"}, {"areas", "no"}, {"note", "area=no;building=yes"}, {"Area", "yes"}, {"source", "services"}}
	var subsets [][][2]string
	n := len(pool)
	for i := 0; i < n; i++ {
		subsets = append(subsets, [][2]string{pool[i]})
		for j := i + 1; j < n; j++ {
			if pool[i][0] == pool[j][0] {
				continue
			}
			subsets = append(subsets, [][2]string{pool[i], pool[j]})
			for k := j + 1; k < n; k++ {
				if pool[k][0] == pool[i][0] || pool[k][0] == pool[j][0] {
					continue
				}
				subsets = append(subsets, [][2]string{pool[i], pool[j], pool[k]})
			}
		}
	}
	for _, sub := range subsets {
		for _, perm := range permutations(sub) {
			for _, si := range mainShapes {
				if si != 0 && len(perm) > 1 {
					continue // open ways: order cannot matter beyond the precondition; keep singletons only
				}
				sh := shapes[si]
				cases = append(cases, mk("F3-tag-order", sh, perm...))
				for ui, u := range unrelated {
					if !thorough && ui >= 2 && len(perm) == 3 {
						continue
					}
					for pos := 0; pos <= len(perm); pos++ {
						tags := append([][2]string{}, perm[:pos]...)
						tags = append(tags, u)
						tags = append(tags, perm[pos:]...)
						cases = append(cases, mk("F3-tag-order", sh, tags...))
					}
				}
			}
		}
	}

	// ---- F4: relations
	typeVals := []string{"multipolygon", "boundary", "route", "", "Multipolygon", "multipolygon ", " boundary", "boundary;multipolygon",
		"no", "yes", "multipolygo", "boundar", "multipolygonx", "restriction", "site", "MULTIPOLYGON"}
	others := [][2]string{{"area", "yes"}, {"area", "no"}, {"building", "yes"}, {"boundary", "administrative"}, {"Type", "multipolygon"},
		{"type:", "boundary"}, {"name", "multipolygon"}, {"natural", "coastline"}}
	var otherSets [][][2]string
	otherSets = append(otherSets, nil)
	for i := range others {
		otherSets = append(otherSets, [][2]string{others[i]})
		for j := range others {
			if i == j || others[i][0] == others[j][0] {
				continue
			}
			otherSets = append(otherSets, [][2]string{others[i], others[j]})
			if thorough {
				for k := range others {
					if k == i || k == j || others[k][0] == others[i][0] || others[k][0] == others[j][0] {
						continue
					}
					otherSets = append(otherSets, [][2]string{others[i], others[j], others[k]})
				}
			}
		}
	}
	memberSets := [][]int64{nil, {1}, {1, 2, 3, 1}}
	for _, os := range otherSets {
		for _, ms := range memberSets {
			c := Case{Family: "F4-relation", Rel: true, Refs: ms, Tags: append([][2]string{}, os...)}
			cases = append(cases, c) // type tag absent
			for _, tv := range typeVals {
				for pos := 0; pos <= len(os); pos++ {
					tags := append([][2]string{}, os[:pos]...)
					tags = append(tags, [2]string{"type", tv})
					tags = append(tags, os[pos:]...)
					cases = append(cases, Case{Family: "F4-relation", Rel: true, Refs: ms, Tags: tags})
				}
			}
		}
	}

	// ---- F5 (thorough): ordered triples of rule keys, one value per class
	if thorough {
		rep := func(rl *rule) []string {
			switch rl.mode {
			case modeAll:
				return []string{"yes", "no"}
			case modeWhitelist:
				return []string{rl.values[0], rl.values[len(rl.values)-1], "yes", "no"}
			default:
				return []string{"yes", rl.values[0], rl.values[len(rl.values)-1], "no"}
			}
		}
		sh := shapes[0]
		for _, a := range ruleKeys {
			for _, b := range ruleKeys {
				for _, c := range ruleKeys {
					if a == b || b == c || a == c {
						continue
					}
					for _, va := range rep(a) {
						for _, vb := range rep(b) {
							for _, vc := range rep(c) {
								cases = append(cases, mk("F5-key-triples", sh, [2]string{a.key, va}, [2]string{b.key, vb}, [2]string{c.key, vc}))
							}
						}
					}
				}
			}
		}
	}
	return cases
}

func permutations(in [][2]string) [][][2]string {
	if len(in) <= 1 {
		return [][][2]string{append([][2]string{}, in...)}
	}
	var out [][][2]string
	for i := range in {
		rest := append(append([][2]string{}, in[:i]...), in[i+1:]...)
		for _, p := range permutations(rest) {
			out = append(out, append([][2]string{in[i]}, p...))
		}
	}
	return out
}
