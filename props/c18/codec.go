package main

import (
	"bytes"
	"encoding/hex"
	"encoding/json"
	"fmt"
	"hash/fnv"
	"strconv"
	"strings"
	"unicode/utf8"
)

// tagList is the replay form of an ordered tag list. Ordinary strings are
// written as JSON strings (the format older replays use); strings that JSON
// cannot carry faithfully or economically are written as objects:
//
//	{"hex": "fffe"}                      bytes that are not valid UTF-8
//	{"runs": [["services",1],["z",70000]]}  long strings, run-length coded
type tagList [][2]string

type encodedString struct {
	Hex  *string         `json:"hex,omitempty"`
	Runs [][]interface{} `json:"runs,omitempty"`
}

func encodeString(s string) interface{} {
	if !utf8.ValidString(s) {
		h := hex.EncodeToString([]byte(s))
		return encodedString{Hex: &h}
	}
	if len(s) <= 200 {
		return s
	}
	// runs of one repeated rune; short runs are merged into literal chunks
	var runs [][]interface{}
	var lit strings.Builder
	flush := func() {
		if lit.Len() > 0 {
			runs = append(runs, []interface{}{lit.String(), 1})
			lit.Reset()
		}
	}
	rs := []rune(s)
	for i := 0; i < len(rs); {
		j := i
		for j < len(rs) && rs[j] == rs[i] {
			j++
		}
		if j-i >= 8 {
			flush()
			runs = append(runs, []interface{}{string(rs[i]), j - i})
		} else {
			lit.WriteString(string(rs[i:j]))
		}
		i = j
	}
	flush()
	return encodedString{Runs: runs}
}

func decodeString(raw json.RawMessage) (string, error) {
	raw = bytes.TrimSpace(raw)
	if len(raw) > 0 && raw[0] == '"' {
		var s string
		err := json.Unmarshal(raw, &s)
		return s, err
	}
	var e struct {
		Hex  *string           `json:"hex"`
		Runs []json.RawMessage `json:"runs"`
	}
	if err := json.Unmarshal(raw, &e); err != nil {
		return "", err
	}
	if e.Hex != nil {
		b, err := hex.DecodeString(*e.Hex)
		return string(b), err
	}
	var sb strings.Builder
	for _, r := range e.Runs {
		var pair []json.RawMessage
		if err := json.Unmarshal(r, &pair); err != nil || len(pair) != 2 {
			return "", fmt.Errorf("bad run %s", r)
		}
		var chunk string
		var n int
		if err := json.Unmarshal(pair[0], &chunk); err != nil {
			return "", err
		}
		if err := json.Unmarshal(pair[1], &n); err != nil {
			return "", err
		}
		sb.WriteString(strings.Repeat(chunk, n))
	}
	return sb.String(), nil
}

func (tl tagList) MarshalJSON() ([]byte, error) {
	out := make([][2]interface{}, len(tl))
	for i, t := range tl {
		out[i] = [2]interface{}{encodeString(t[0]), encodeString(t[1])}
	}
	return json.Marshal(out)
}

func (tl *tagList) UnmarshalJSON(data []byte) error {
	var raw [][2]json.RawMessage
	if err := json.Unmarshal(data, &raw); err != nil {
		return err
	}
	out := make(tagList, len(raw))
	for i, t := range raw {
		k, err := decodeString(t[0])
		if err != nil {
			return err
		}
		v, err := decodeString(t[1])
		if err != nil {
			return err
		}
		out[i] = [2]string{k, v}
	}
	*tl = out
	return nil
}

// selfCheckCodec: the replay coding must give back exactly the strings it was
// given (a replay that silently changes a byte would replay a different case).
func selfCheckCodec(samples []string) error {
	for _, s := range samples {
		in := tagList{{s, "v"}, {"k", s}}
		data, err := json.Marshal(in)
		if err != nil {
			return err
		}
		var out tagList
		if err := json.Unmarshal(data, &out); err != nil {
			return err
		}
		if len(out) != 2 || out[0][0] != s || out[1][1] != s || out[0][1] != "v" || out[1][0] != "k" {
			return fmt.Errorf("replay coding does not round-trip %q", abbrev(s))
		}
	}
	return nil
}

// abbrev keeps fingerprints and messages short: long strings are represented by
// a prefix, their length and a hash of all their bytes.
func abbrev(s string) string {
	if len(s) <= 96 {
		for i := 0; i < len(s); i++ {
			if s[i] < 0x20 || s[i] == 0x7f || s[i] >= 0x80 && !utf8.ValidString(s) {
				return strconv.QuoteToGraphic(s) // control bytes, invalid UTF-8: show them escaped
			}
		}
		return s
	}
	h := fnv.New64a()
	h.Write([]byte(s))
	return fmt.Sprintf("%s...(len=%d,fnv=%016x)", s[:48], len(s), h.Sum64())
}

func abbrevRefs(refs []int64) string {
	if len(refs) <= 16 {
		return fmt.Sprint(refs)
	}
	h := fnv.New64a()
	for _, r := range refs {
		var b [8]byte
		for i := 0; i < 8; i++ {
			b[i] = byte(uint64(r) >> (8 * uint(i)))
		}
		h.Write(b[:])
	}
	return fmt.Sprintf("[%d %d %d ... %d %d](len=%d,fnv=%016x)", refs[0], refs[1], refs[2], refs[len(refs)-2], refs[len(refs)-1], len(refs), h.Sum64())
}
