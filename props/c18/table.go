package main

import "verif/kit"

// Independent transcription of the table at
// https://wiki.openstreetmap.org/wiki/Overpass_turbo/Polygon_Features
// (the same data ships as polygon_features.json in tyrasd/osmtogeojson).
// Written from the author's knowledge of that page, not copied from
// /repo/polygon.go. Plain data, wiki order, linear search only.

const (
	modeAll = iota
	modeWhitelist
	modeBlacklist
)

type rule struct {
	key    string
	mode   int
	values []string
}

var published = []rule{
	{"building", modeAll, nil},
	{"highway", modeWhitelist, []string{"services", "rest_area", "escape", "elevator"}},
	{"natural", modeBlacklist, []string{"coastline", "cliff", "ridge", "arete", "tree_row"}},
	{"landuse", modeAll, nil},
	{"waterway", modeWhitelist, []string{"riverbank", "dock", "boatyard", "dam"}},
	{"amenity", modeAll, nil},
	{"leisure", modeAll, nil},
	{"barrier", modeWhitelist, []string{"city_wall", "ditch", "hedge", "retaining_wall", "wall", "spikes"}},
	{"railway", modeWhitelist, []string{"station", "turntable", "roundhouse", "platform"}},
	{"area", modeAll, nil},
	{"boundary", modeAll, nil},
	{"man_made", modeBlacklist, []string{"cutline", "embankment", "pipeline"}},
	{"power", modeWhitelist, []string{"plant", "substation", "generator", "transformer"}},
	{"place", modeAll, nil},
	{"shop", modeAll, nil},
	{"aeroway", modeBlacklist, []string{"taxiway"}},
	{"tourism", modeAll, nil},
	{"historic", modeAll, nil},
	{"public_transport", modeAll, nil},
	{"office", modeAll, nil},
	{"building:part", modeAll, nil},
	{"military", modeAll, nil},
	{"ruins", modeAll, nil},
	{"area:highway", modeAll, nil},
	{"craft", modeAll, nil},
	{"golf", modeAll, nil},
	{"indoor", modeAll, nil},
}

func lookupRule(key string) *rule {
	for i := range published {
		if published[i].key == key {
			return &published[i]
		}
	}
	return nil
}

func (rl *rule) listed(v string) bool {
	for _, x := range rl.values {
		if x == v {
			return true
		}
	}
	return false
}

// passes: the value (already known to be different from "no") satisfies the
// key's rule.
func (rl *rule) passes(v string) bool {
	switch rl.mode {
	case modeAll:
		return true
	case modeWhitelist:
		return rl.listed(v)
	default:
		return !rl.listed(v)
	}
}

func (rl *rule) modeName() string {
	return [...]string{"all", "whitelist", "blacklist"}[rl.mode]
}

// selfCheckTable guards the transcription against slips of the pen: 27 keys
// (the 26 keys of the library's table plus `area`, which the wiki lists with
// rule `all` and the library hard-codes), distinct keys, distinct values per
// key, 31 listed values in total.
func selfCheckTable() {
	if len(published) != 27 {
		kit.Fatalf("reference table has %d keys, want 27", len(published))
	}
	n := 0
	for i, a := range published {
		for j := i + 1; j < len(published); j++ {
			if a.key == published[j].key {
				kit.Fatalf("reference table repeats key %q", a.key)
			}
		}
		for x := range a.values {
			for y := x + 1; y < len(a.values); y++ {
				if a.values[x] == a.values[y] {
					kit.Fatalf("reference table repeats value %q of %q", a.values[x], a.key)
				}
			}
		}
		if (a.mode == modeAll) != (len(a.values) == 0) {
			kit.Fatalf("reference table: rule kind and value list of %q disagree", a.key)
		}
		n += len(a.values)
	}
	if n != 31 {
		kit.Fatalf("reference table lists %d values, want 31", n)
	}
}
