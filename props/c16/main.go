// Check C16: multipolygon assembly recovers the original rings for any
// split, piece direction and member order.
//
// Bounded-exhaustive: for every ground truth of polycut.Catalogue (validated
// to lie inside the property's domain by exact integer geometry), every cut
// set x piece direction within the tier's piece bound, and every member order
// (all permutations up to 5 / 6 pieces, otherwise rotations + reversal of two
// base orders), the relation is converted with osmgeojson.Convert from both
// coordinate sources, with and without orientation annotations produced by
// annotate.Relations, and the feature geometry is compared with the ground
// truth as a set of polygons of cyclic rings.
package main

import (
	"context"
	"fmt"
	"math"
	"sort"
	"strings"
	"sync"
	"time"

	"github.com/paulmach/orb"
	"github.com/paulmach/orb/geojson"
	"github.com/paulmach/osm"
	"github.com/paulmach/osm/annotate"
	"github.com/paulmach/osm/osmgeojson"

	"verif/gen/polycut"
	"verif/kit"
)

// plan entry: which configurations of one truth are enumerated.
type planEntry struct {
	truth     string
	minPieces int    // configurations with fewer pieces are left out
	maxPieces int    // 0 = no bound
	pinned    []bool // rings that stay one closed way from vertex 0 (nil = none)
}

func e(truth string, maxPieces int, pinned ...bool) planEntry {
	return planEntry{truth, 0, maxPieces, pinned}
}

// many: only configurations with minPieces..maxPieces pieces (used above the
// full-permutation bound, where orders are rotations + reversal).
func many(truth string, minPieces, maxPieces int, pinned ...bool) planEntry {
	return planEntry{truth, minPieces, maxPieces, pinned}
}

const (
	T = true
	F = false
)

// The finite space per tier. Several entries for one truth are united
// (configurations are de-duplicated).
func plan(quick bool) []planEntry {
	if quick {
		return []planEntry{
			e("G1-tri", 0), e("G1-quad-cw", 0), e("G1-pent", 0), e("G1-collinear", 3),
			e("G2-tri-tri", 4),
			e("G2-quad-tri", 3), e("G2-quad-tri", 4, F, T), e("G2-quad-tri", 4, T, F),
			e("G2-pent-tri", 3),
			e("G3-quad-tri-tri", 3), e("G3-quad-tri-quad", 3),
			e("G3-quad-tri-tri", 4, F, T, T), e("G3-quad-tri-quad", 4, T, F, T), e("G3-quad-tri-quad", 4, T, T, F),
			e("G4-dart-notch", 3), e("G4-quad-quad", 3),
			e("G4-dart-notch", 4, F, T), e("G4-dart-notch", 4, T, F),
			e("G5-tri-quad", 4, F, T, F, T),
			e("G5-quad-quad", 4, F, T, T, T), e("G5-quad-quad", 4, T, T, T, F),
			// concave rings whose bounding-box centre lies outside them
			e("G6-U-U", 3), e("G6-U-U-notch", 3), e("G6-U-U-notch", 4, T, F, T),
			// many pieces: rotations + reversal of the sequential and interleaved orders
			many("G2-tri-tri", 6, 6), many("G4-dart-notch", 7, 7), many("G5-tri-quad", 8, 8, F, F, T, T),
		}
	}
	return []planEntry{
		e("G1-tri", 0), e("G1-quad-cw", 0), e("G1-pent", 0), e("G1-collinear", 0),
		e("G2-tri-tri", 0), e("G2-quad-tri", 5), e("G2-quad-quad", 4), e("G2-pent-tri", 4),
		e("G2-pent-tri", 0, F, T), e("G2-quad-quad", 0, T, F),
		e("G3-quad-tri-tri", 4), e("G3-quad-tri-quad", 3),
		e("G3-quad-tri-quad", 5, T, F, T), e("G3-quad-tri-quad", 5, T, T, F), e("G3-quad-tri-quad", 5, F, T, T),
		e("G4-dart-notch", 5), e("G4-tri-quad", 5), e("G4-quad-quad", 4), e("G4-notch-dart", 4),
		e("G5-tri-quad", 4), e("G5-quad-quad", 4),
		e("G5-tri-quad", 5, F, T, T, T), e("G5-tri-quad", 6, T, F, T, T),
		e("G5-quad-quad", 5, T, T, F, T), e("G5-quad-quad", 5, T, T, T, F),
		e("G6-U-U", 4), e("G6-U-U-notch", 4), e("G6-U-U-notch", 5, T, F, T), e("G6-U-U-notch", 5, F, T, T),
		// many pieces: rotations + reversal of the sequential and interleaved orders
		many("G2-quad-quad", 7, 8), many("G4-quad-quad", 7, 8), many("G2-pent-tri", 8, 8),
		many("G3-quad-tri-tri", 11, 11), many("G5-tri-quad", 7, 8, F, F, T, T), many("G5-quad-quad", 9, 9, F, F, T, T),
	}
}

type unit struct {
	truth polycut.Truth
	cfg   polycut.Config
}

func cfgKey(name string, c polycut.Config) string {
	return polycut.Case{Truth: name, Config: c}.Fingerprint()
}

func units(quick bool) []unit {
	seen := map[string]bool{}
	var out []unit
	for _, pe := range plan(quick) {
		t, ok := polycut.Find(pe.truth)
		if !ok {
			kit.Fatalf("plan names unknown truth %q", pe.truth)
		}
		for _, c := range polycut.ConfigsPinned(t, pe.maxPieces, pe.pinned) {
			if c.Pieces() < pe.minPieces {
				continue
			}
			k := cfgKey(t.Name, c)
			if seen[k] {
				continue
			}
			seen[k] = true
			out = append(out, unit{t, c})
		}
	}
	return out
}

// ---------------------------------------------------------------------------

type variant struct {
	name      string
	annotated bool // coordinates on way nodes, no node objects
	desc      bool
	typ       string
	oriented  bool // members carry Orientation from annotate.Relations
	// partial: only some members keep their Orientation (1: those at even
	// positions, 2: those at odd positions); the others have none, as members
	// added after the last annotation would
	partial int
}

var variants = []variant{
	{name: "nodes", typ: "multipolygon"},
	{name: "waynodes+boundary", annotated: true, typ: "boundary"},
	{name: "oriented+nodes-desc", desc: true, typ: "multipolygon", oriented: true},
	{name: "oriented+waynodes+boundary", annotated: true, typ: "boundary", oriented: true},
	{name: "partly-oriented-even+nodes", typ: "multipolygon", oriented: true, partial: 1},
	{name: "partly-oriented-odd+waynodes", annotated: true, typ: "multipolygon", oriented: true, partial: 2},
}

type failure struct {
	key    string
	what   string
	c      polycut.Case
	pieces int
	fp     string
	count  int
}

type collector struct {
	mu sync.Mutex
	m  map[string]*failure
}

func (col *collector) add(key, what string, c polycut.Case) {
	fp := c.Fingerprint()
	p := c.Pieces()
	col.mu.Lock()
	defer col.mu.Unlock()
	f := col.m[key]
	if f == nil {
		col.m[key] = &failure{key: key, what: what, c: c, pieces: p, fp: fp, count: 1}
		return
	}
	f.count++
	if p < f.pieces || (p == f.pieces && fp < f.fp) {
		f.what, f.c, f.pieces, f.fp = what, c, p, fp
	}
}

// nonTrivial: at least one ring has to be joined from several pieces, or at
// least one stored way runs against the winding required of its ring (outer
// clockwise / inner counter-clockwise), so something has to be turned round.
func nonTrivial(b *polycut.Built) bool {
	rings := map[int]int{}
	for _, m := range b.Members {
		rings[m.Ring]++
		if (m.Role == "outer" && m.Winding == orb.CW) || (m.Role == "inner" && m.Winding == orb.CCW) {
			return true
		}
	}
	for _, n := range rings {
		if n > 1 {
			return true
		}
	}
	return false
}

// annotated returns the relation of b annotated by annotate.Relations against
// a history datasource built from the case's ways (with annotated way nodes).
func annotateRelation(t polycut.Truth, c polycut.Case, typ string) (*polycut.Built, error) {
	b := polycut.Build(t, c, polycut.Options{Annotated: true, RelationType: typ})
	ds := (&osm.OSM{Ways: b.OSM.Ways}).HistoryDatasource()
	err := annotate.Relations(context.Background(), osm.Relations{b.Relation}, ds, annotate.Threshold(time.Hour))
	return b, err
}

func oneFeature(fc *geojson.FeatureCollection) (orb.Geometry, string) {
	if fc == nil {
		return nil, "nil feature collection"
	}
	if len(fc.Features) != 1 {
		var ids []string
		for _, f := range fc.Features {
			g := "nil"
			if f.Geometry != nil {
				g = f.Geometry.GeoJSONType()
			}
			ids = append(ids, fmt.Sprintf("%v:%s", f.ID, g))
		}
		return nil, fmt.Sprintf("%d features %v", len(fc.Features), ids)
	}
	return fc.Features[0].Geometry, ""
}

type counts struct {
	conv, annot int64
}

func checkCase(r *kit.Run, col *collector, t polycut.Truth, c polycut.Case, n *counts, sample bool) {
	plain := polycut.Build(t, c, polycut.Options{})
	r.Case(c.Fingerprint(), nonTrivial(plain))
	if sample {
		r.Sample(map[string]interface{}{"case": c, "members": plain.Members, "relation": plain.Relation})
	}
	checkCaseNoKit(col, t, c, n)
}

func checkCaseNoKit(col *collector, t polycut.Truth, c polycut.Case, n *counts) {
	shape := t.Shape()

	// orientation annotation, once per relation type
	annotatedMembers := map[string]osm.Members{}
	for _, typ := range []string{"multipolygon", "boundary"} {
		b, err := annotateRelation(t, c, typ)
		n.annot++
		if err != nil {
			col.add("annotate.error/"+typ+"/"+shape, fmt.Sprintf("annotate.Relations failed: %v for %s", err, c.Fingerprint()), c)
			continue
		}
		annotatedMembers[typ] = b.Relation.Members
		for i, m := range b.Relation.Members {
			if m.Orientation != b.Members[i].Winding {
				col.add("orientation/"+typ+"/"+shape,
					fmt.Sprintf("member %d (way %d, %s, ring %d vertices %v) annotated %d, runs %d around its ring; case %s",
						i, m.Ref, m.Role, b.Members[i].Ring, b.Members[i].Vertices, m.Orientation, b.Members[i].Winding, c.Fingerprint()), c)
				break
			}
		}
	}

	for _, v := range variants {
		b := polycut.Build(t, c, polycut.Options{Annotated: v.annotated, NodesDescending: v.desc, RelationType: v.typ})
		if v.oriented {
			am, ok := annotatedMembers[v.typ]
			if !ok {
				continue // annotation failed, already reported
			}
			// convert the annotated relation itself (same refs and roles,
			// plus version, changeset and orientation)
			b.Relation.Members = append(osm.Members(nil), am...)
			if v.partial != 0 {
				for i := range b.Relation.Members {
					if i%2 == v.partial-1 {
						continue
					}
					b.Relation.Members[i].Orientation = 0
				}
			}
		}
		fc, err := osmgeojson.Convert(b.OSM)
		n.conv++
		if err != nil {
			col.add("convert.error/"+v.name+"/"+shape, fmt.Sprintf("Convert failed: %v for %s", err, c.Fingerprint()), c)
			continue
		}
		g, why := oneFeature(fc)
		if why != "" {
			col.add("one-feature/"+v.name+"/"+shape, fmt.Sprintf("want exactly one feature, got %s; case %s", why, c.Fingerprint()), c)
			continue
		}
		if m := polycut.Compare(t, g); m != nil {
			col.add("geometry."+m.Clause+"/"+v.name+"/"+shape,
				fmt.Sprintf("%s; case %s; got %s", m.Detail, c.Fingerprint(), describe(g)), c)
		}
	}
}

// describe prints a geometry in grid units (coordinate * 1e7, rounded).
func describe(g orb.Geometry) string {
	grid := func(r orb.Ring) string {
		var sb strings.Builder
		sb.WriteByte('[')
		for i, p := range r {
			if i > 0 {
				sb.WriteByte(' ')
			}
			fmt.Fprintf(&sb, "(%d,%d)", int64(math.Round(p[0]*1e7)), int64(math.Round(p[1]*1e7)))
		}
		sb.WriteByte(']')
		return sb.String()
	}
	poly := func(p orb.Polygon) string {
		var parts []string
		for _, r := range p {
			parts = append(parts, grid(r))
		}
		return "{" + strings.Join(parts, " ") + "}"
	}
	var s string
	switch v := g.(type) {
	case orb.Polygon:
		s = "Polygon " + poly(v)
	case orb.MultiPolygon:
		var parts []string
		for _, p := range v {
			parts = append(parts, poly(p))
		}
		s = "MultiPolygon " + strings.Join(parts, " ")
	default:
		s = fmt.Sprintf("%s %v", g.GeoJSONType(), g)
	}
	if len(s) > 700 {
		s = s[:700] + "..."
	}
	return s + " (grid units = 1e-7 degrees)"
}

func main() {
	kit.Main("C16", "exploration", func(r *kit.Run) {
		r.Rule("case = ground truth (polycut catalogue: G1 one outer, G2 +1 hole, G3 +2 holes, G4 two outers, G5 two outers with a hole each; rings of 3-5 vertices, both stored windings) x per ring every non-empty cut-vertex set x every piece direction (within the tier's piece bound; for the larger truths some rings pinned to one closed way from vertex 0, both directions) x member order (every permutation up to 5 pieces quick / 6 thorough, above that all rotations and the reversal of the sequential and the ring-interleaved order). Each case is converted 4 times (node objects ascending/descending or annotated way nodes; type multipolygon/boundary; members plain or carrying the orientation annotations of annotate.Relations) and annotated twice. Distinct = distinct (truth, cuts, directions, order); non-trivial = some ring must be joined from >= 2 pieces or some stored way runs against the required winding of its ring.")
		r.Assume("polycut's integer geometry (shoelace winding, crossing-number point location, segment intersection) is correct; it validates every ground truth (simple, disjoint, holes strictly inside) at start-up")
		r.Assume("float64(X)/1e7 identifies a grid vertex uniquely; the converter copies coordinates without arithmetic, so output points are matched to vertices by exact float equality")
		r.Assume("a single ground-truth polygon may be emitted as Polygon or as one-element MultiPolygon")

		col := &collector{m: map[string]*failure{}}
		if r.ReplayPath != "" {
			var c polycut.Case
			r.LoadReplay(&c)
			t, ok := polycut.Find(c.Truth)
			if !ok {
				kit.Fatalf("replay names unknown truth %q", c.Truth)
			}
			var n counts
			checkCase(r, col, t, c, &n, true)
			report(r, col)
			return
		}

		full := r.Pick(5, 6)
		us := units(r.Quick())
		var mu sync.Mutex
		perTruth := map[string]int64{}
		perPieces := map[string]int64{}
		var total counts
		capped := false
		r.Par(len(us), func(i int) {
			if r.TimeUp() {
				mu.Lock()
				capped = true
				mu.Unlock()
				return
			}
			u := us[i]
			var n counts
			orders := polycut.Orders(u.cfg, full)
			for k, o := range orders {
				// samples: the middle order of six configurations spread over the plan
				sample := k == len(orders)/2 && i%(len(us)/6+1) == len(us)/12
				checkCase(r, col, u.truth, polycut.Case{Truth: u.truth.Name, Config: u.cfg, Order: o}, &n, sample)
			}
			mu.Lock()
			perTruth[u.truth.Name] += int64(len(orders))
			perPieces[fmt.Sprintf("pieces=%02d", u.cfg.Pieces())] += int64(len(orders))
			total.conv += n.conv
			total.annot += n.annot
			mu.Unlock()
		})
		if capped {
			r.Capped("time budget reached before all configurations were run")
		}
		r.Set("configurations", len(us))
		r.Set("cases_per_truth", perTruth)
		r.Set("cases_per_piece_count", perPieces)
		r.Set("conversions", total.conv)
		r.Set("annotations", total.annot)
		r.Set("full_permutations_up_to_pieces", full)
		report(r, col)
	})
}

func report(r *kit.Run, col *collector) {
	keys := make([]string, 0, len(col.m))
	for k := range col.m {
		keys = append(keys, k)
	}
	sort.Strings(keys)
	byKey := map[string]int{}
	for _, k := range keys {
		f := col.m[k]
		byKey[k] = f.count
		r.Violation(f.key, fmt.Sprintf("%s [%d failing cases with this key; this one has the fewest pieces (%d)]", f.what, f.count, f.pieces), f.c)
	}
	if len(byKey) > 0 {
		r.Set("failing_cases_by_key", byKey)
	}
}
