// Check C16: multipolygon assembly recovers the original rings for any
// split, piece direction and member order.
//
// Bounded-exhaustive: for every ground truth of polycut.Catalogue (validated
// to lie inside the property's domain by exact integer geometry), every cut
// set x piece direction within the tier's piece bound, and every member order
// (all permutations up to 5 / 6 pieces, otherwise rotations + reversal of two
// base orders), the relation is converted with osmgeojson.Convert from both
// coordinate sources, with and without orientation annotations produced by
// annotate.Relations, and the feature geometry is compared with the ground
// truth as a set of polygons of cyclic rings.
//
// Boundary audit: the catalogue also holds three outers, three holes, rings
// one grid unit apart, hole vertices level with vertices / horizontal edges
// of other rings, collinear runs, slivers and shapes far from the origin,
// outers far apart and nine-decimal locations; the plan entries marked x run
// their cases through extended variants as well (id classes, way order,
// mixed coordinate sources, members that are no ways, converter options,
// geometry on the members, second calls of Convert and annotate.Relations).
// Not judged (the property text does not decide them): duplicate members,
// member ways with other roles, contradicting orientation annotations.
package main

import (
	"context"
	"fmt"
	"math"
	"sort"
	"strings"
	"sync"
	"time"

	"github.com/paulmach/orb"
	"github.com/paulmach/orb/geojson"
	"github.com/paulmach/osm"
	"github.com/paulmach/osm/annotate"
	"github.com/paulmach/osm/osmgeojson"

	"verif/gen/polycut"
	"verif/kit"
)

// plan entry: which configurations of one truth are enumerated.
type planEntry struct {
	truth     string
	minPieces int    // configurations with fewer pieces are left out
	maxPieces int    // 0 = no bound
	pinned    []bool // rings that stay one closed way from vertex 0 (nil = none)
	// ext: the configurations of this entry are also run through the extended
	// variants (id classes, way order, mixed coordinate sources, members that
	// are no ways, converter options, second calls)
	ext bool
	// rot: member orders are the rotations + reversal of the sequential and
	// the interleaved order even below the tier's full-permutation bound
	rot bool
}

func e(truth string, maxPieces int, pinned ...bool) planEntry {
	return planEntry{truth: truth, maxPieces: maxPieces, pinned: pinned}
}

// x: like e, and the configurations also get the extended variants.
func x(truth string, maxPieces int, pinned ...bool) planEntry {
	return planEntry{truth: truth, maxPieces: maxPieces, pinned: pinned, ext: true}
}

// many: only configurations with minPieces..maxPieces pieces (used above the
// full-permutation bound, where orders are rotations + reversal).
func many(truth string, minPieces, maxPieces int, pinned ...bool) planEntry {
	return planEntry{truth: truth, minPieces: minPieces, maxPieces: maxPieces, pinned: pinned}
}

// xmany: like many, with the extended variants.
func xmany(truth string, minPieces, maxPieces int, pinned ...bool) planEntry {
	return planEntry{truth: truth, minPieces: minPieces, maxPieces: maxPieces, pinned: pinned, ext: true}
}

// rot: configurations with minPieces..maxPieces pieces, rotations + reversal
// only whatever the number of pieces.
func rot(truth string, minPieces, maxPieces int, pinned ...bool) planEntry {
	return planEntry{truth: truth, minPieces: minPieces, maxPieces: maxPieces, pinned: pinned, rot: true}
}

const (
	T = true
	F = false
)

// The finite space per tier. Several entries for one truth are united
// (configurations are de-duplicated).
func plan(quick bool) []planEntry {
	if quick {
		return []planEntry{
			e("G1-tri", 0), e("G1-quad-cw", 0), e("G1-pent", 0), e("G1-collinear", 3),
			e("G2-tri-tri", 4),
			e("G2-quad-tri", 3), e("G2-quad-tri", 4, F, T), e("G2-quad-tri", 4, T, F),
			e("G2-pent-tri", 3),
			e("G3-quad-tri-tri", 3), e("G3-quad-tri-quad", 3),
			e("G3-quad-tri-tri", 4, F, T, T), e("G3-quad-tri-quad", 4, T, F, T), e("G3-quad-tri-quad", 4, T, T, F),
			e("G4-dart-notch", 3), e("G4-quad-quad", 3),
			e("G4-dart-notch", 4, F, T), e("G4-dart-notch", 4, T, F),
			e("G5-tri-quad", 4, F, T, F, T),
			e("G5-quad-quad", 4, F, T, T, T), e("G5-quad-quad", 4, T, T, T, F),
			// concave rings whose bounding-box centre lies outside them
			e("G6-U-U", 3), e("G6-U-U-notch", 3), e("G6-U-U-notch", 4, T, F, T),
			// many pieces: rotations + reversal of the sequential and interleaved orders
			many("G2-tri-tri", 6, 6), many("G4-dart-notch", 7, 7), many("G5-tri-quad", 8, 8, F, F, T, T),

			// ---- boundary audit ----
			// extended variants on a cross-section of the families above
			x("G1-tri", 0), x("G1-quad-cw", 3), x("G1-pent", 2), x("G2-quad-tri", 3), x("G2-pent-tri", 3), x("G3-quad-tri-quad", 3),
			x("G4-dart-notch", 3), x("G5-quad-quad", 4, T, T, T, T), x("G6-U-U-notch", 3, T, T, T),
			xmany("G2-tri-tri", 6, 6, F, T), xmany("G5-tri-quad", 8, 8, T, F, T, T),
			// three outers; three outers with a hole each
			x("G7-three", 4, F, T, T), e("G7-three", 4, T, F, T),
			xmany("G7-three-holes", 6, 6, T, T, T, T, T, T),
			// three holes: outer one closed way (old-style path) / in two pieces
			x("G8-quad-3holes", 4, T, T, T, T), e("G8-quad-3holes", 4, F, T, T, T), rot("G8-quad-3holes", 5, 5, F, T, T, T),
			rot("G8-quad-3holes", 5, 5, T, T, T, F),
			// one grid unit apart
			x("G9-snug", 4, T, T, T, T), rot("G9-snug", 5, 5, T, F, T, T), rot("G9-snug", 5, 5, F, T, T, T), rot("G9-snug", 5, 5, T, T, F, T),
			// level vertices (ray-casting corner cases)
			x("G10-level", 4, T, T, T, T), x("G10-level-mx", 4, T, T, T, T), x("G10-level-t", 4, T, T, T, T),
			rot("G10-level", 5, 5, T, F, T, T), rot("G10-level-mx", 5, 5, T, F, T, T), rot("G10-level-t", 5, 5, T, F, T, T),
			x("G10-own-level", 3, F, T), x("G10-own-level-t", 3, F, T),
			// collinear runs
			x("G11-runs", 2), e("G11-runs", 3),
			// far from the origin, slivers, outers far apart, nine decimals
			x("G12-far-sliver", 3), e("G12-far-sliver", 4, F, T, T), e("G12-far-sliver", 4, T, T, F),
			x("G12-far-nw", 4, T, T, T, T), x("G12-far-sw", 4, T, T, T, T), x("G12-far-ne", 4, T, T, T, T),
			rot("G12-far-sw", 5, 5, F, T, T, T), rot("G12-far-ne", 5, 5, T, T, F, T),
			x("G12-apart", 4, T, T, T, T), rot("G12-apart", 5, 5, F, T, T, T),
			x("G13-decimals", 4, T, T, T, T), rot("G13-decimals", 5, 5, F, T, T, T), rot("G13-decimals", 5, 5, T, F, T, T),
		}
	}
	return []planEntry{
		e("G1-tri", 0), e("G1-quad-cw", 0), e("G1-pent", 0), e("G1-collinear", 0),
		e("G2-tri-tri", 0), e("G2-quad-tri", 5), e("G2-quad-quad", 4), e("G2-pent-tri", 4),
		e("G2-pent-tri", 0, F, T), e("G2-quad-quad", 0, T, F),
		e("G3-quad-tri-tri", 4), e("G3-quad-tri-quad", 3),
		e("G3-quad-tri-quad", 5, T, F, T), e("G3-quad-tri-quad", 5, T, T, F), e("G3-quad-tri-quad", 5, F, T, T),
		e("G4-dart-notch", 5), e("G4-tri-quad", 5), e("G4-quad-quad", 4), e("G4-notch-dart", 4),
		e("G5-tri-quad", 4), e("G5-quad-quad", 4),
		e("G5-tri-quad", 5, F, T, T, T), e("G5-tri-quad", 6, T, F, T, T),
		e("G5-quad-quad", 5, T, T, F, T), e("G5-quad-quad", 5, T, T, T, F),
		e("G6-U-U", 4), e("G6-U-U-notch", 4), e("G6-U-U-notch", 5, T, F, T), e("G6-U-U-notch", 5, F, T, T),
		// many pieces: rotations + reversal of the sequential and interleaved orders
		many("G2-quad-quad", 7, 8), many("G4-quad-quad", 7, 8), many("G2-pent-tri", 8, 8),
		many("G3-quad-tri-tri", 11, 11), many("G5-tri-quad", 7, 8, F, F, T, T), many("G5-quad-quad", 9, 9, F, F, T, T),

		// ---- boundary audit ----
		// extended variants on a cross-section of the families above
		x("G1-tri", 0), x("G1-quad-cw", 0), x("G1-pent", 3), x("G1-collinear", 3),
		x("G2-tri-tri", 3), x("G2-quad-tri", 3), x("G2-pent-tri", 3), x("G3-quad-tri-quad", 3), x("G3-quad-tri-tri", 4, F, T, T),
		x("G4-dart-notch", 3), x("G4-notch-dart", 3), x("G5-quad-quad", 4, T, T, T, T), x("G5-tri-quad", 4, F, T, T, T),
		x("G6-U-U", 3), x("G6-U-U-notch", 3),
		xmany("G2-quad-quad", 7, 7), xmany("G5-tri-quad", 8, 8, F, F, T, T), xmany("G3-quad-tri-tri", 11, 11),
		// three outers; three outers with a hole each (six pieces: every order)
		x("G7-three", 3), e("G7-three", 4), e("G7-three", 5, F, T, T), e("G7-three", 5, T, F, T), e("G7-three", 5, T, T, F),
		x("G7-three-holes", 6, T, T, T, T, T, T),
		many("G7-three-holes", 7, 7, F, T, T, T, T, T), many("G7-three-holes", 7, 7, T, F, T, T, T, T), many("G7-three-holes", 7, 8, T, T, T, T, F, F),
		// three holes
		x("G8-quad-3holes", 4), e("G8-quad-3holes", 5, F, T, T, T), e("G8-quad-3holes", 5, T, F, T, T),
		e("G8-quad-3holes", 5, T, T, F, T), e("G8-quad-3holes", 5, T, T, T, F), rot("G8-quad-3holes", 6, 6, F, T, T, T),
		many("G8-quad-3holes", 7, 9, F, F, T, T),
		// one grid unit apart
		x("G9-snug", 4, T, T, T, T), e("G9-snug", 4), e("G9-snug", 5, F, T, T, T), e("G9-snug", 5, T, F, T, T), e("G9-snug", 5, T, T, F, T), e("G9-snug", 5, T, T, T, F),
		many("G9-snug", 7, 8, T, F, F, T),
		// level vertices
		x("G10-level", 4, T, T, T, T), e("G10-level", 4), x("G10-level-mx", 4, T, T, T, T), x("G10-level-t", 4, T, T, T, T), e("G10-level-mx", 4), e("G10-level-t", 4),
		e("G10-level", 5, T, F, T, T), e("G10-level", 5, T, T, F, T), e("G10-level-mx", 5, T, F, T, T), e("G10-level-t", 5, T, F, T, T),
		e("G10-level-mx", 5, F, T, T, T), e("G10-level-t", 5, T, T, T, F),
		x("G10-own-level", 3), x("G10-own-level-t", 3), e("G10-own-level", 4, F, T), e("G10-own-level-t", 4, F, T),
		// collinear runs
		x("G11-runs", 3), e("G11-runs", 4), many("G11-runs", 7, 7, F, T), many("G11-runs", 11, 11),
		// far from the origin, slivers, outers far apart, nine decimals
		x("G12-far-sliver", 3), e("G12-far-sliver", 4), e("G12-far-sliver", 5, F, T, T), e("G12-far-sliver", 5, T, T, F),
		x("G12-far-nw", 4, T, T, T, T), e("G12-far-nw", 4), x("G12-far-sw", 4, T, T, T, T), x("G12-far-ne", 4, T, T, T, T),
		e("G12-far-nw", 5, T, F, T, T), e("G12-far-sw", 5, F, T, T, T), e("G12-far-ne", 5, T, T, F, T),
		x("G12-apart", 4, T, T, T, T), e("G12-apart", 4), e("G12-apart", 5, F, T, T, T), e("G12-apart", 5, T, T, T, F),
		x("G13-decimals", 4), e("G13-decimals", 5, F, T, T, T), e("G13-decimals", 5, T, F, T, T),
		e("G13-decimals", 5, T, T, F, T), e("G13-decimals", 5, T, T, T, F), many("G13-decimals", 7, 8, F, F, T, T),
	}
}

type unit struct {
	truth polycut.Truth
	cfg   polycut.Config
	ext   bool
	rot   bool // rotations + reversal only (no plan entry asks for every order)
}

func cfgKey(name string, c polycut.Config) string {
	return polycut.Case{Truth: name, Config: c}.Fingerprint()
}

func units(quick bool) []unit {
	seen := map[string]int{}
	var out []unit
	cat := map[string]polycut.Truth{}
	for _, t := range polycut.Catalogue() {
		cat[t.Name] = t
	}
	for _, pe := range plan(quick) {
		t, ok := cat[pe.truth]
		if !ok {
			kit.Fatalf("plan names unknown truth %q", pe.truth)
		}
		for _, c := range polycut.ConfigsPinned(t, pe.maxPieces, pe.pinned) {
			if c.Pieces() < pe.minPieces {
				continue
			}
			k := cfgKey(t.Name, c)
			if at, dup := seen[k]; dup {
				out[at].ext = out[at].ext || pe.ext
				out[at].rot = out[at].rot && pe.rot
				continue
			}
			seen[k] = len(out)
			out = append(out, unit{t, c, pe.ext, pe.rot})
		}
	}
	return out
}

// ---------------------------------------------------------------------------

type variant struct {
	name      string
	annotated bool // coordinates on way nodes, no node objects
	desc      bool
	typ       string
	oriented  bool // members carry Orientation from annotate.Relations
	// partial: only some members keep their Orientation (1: those at even
	// positions, 2: those at odd positions); the others have none, as members
	// added after the last annotation would
	partial int

	tags     bool // the relation carries two more tags in front of its type tag
	waysDesc bool // way objects listed by descending piece number
	wideIDs  bool // way and node ids small / beyond 40 bits (equal in the low 40 bits) / negative
	mixed    bool // node objects AND coordinates on every other way node
	extras   bool // a node, a relation and another node member mixed in (roles "outer", "inner", "")
	// memberNodes: no way objects; the members carry their way's node list
	// with locations only (osm.Member.Nodes, as Overpass returns geometry)
	memberNodes bool
	// twoRelations: the data set holds a second relation (id 2, type
	// boundary) over the same ways, members in reverse order; each relation
	// has to produce its own feature with the ground-truth geometry
	twoRelations bool
	// dupMembers: every way member is listed a second time (in reverse member order). Such a
	// relation is no valid multipolygon and the model says nothing about its geometry; judged
	// is only that the result equals the result for the twin data set in which the second
	// listings reference equal copies of the ways under other ids (whatever is kept per way
	// inside one conversion must not make a way's second listing differ from an equal way)
	dupMembers bool
	// secondFirst: the second relation is listed (and converted) before the first
	secondFirst bool
	// opts: 0 = Convert(o); 1 = NoID, NoMeta, NoRelationMembership and
	// IncludeInvalidPolygons all on; 2 = IncludeInvalidPolygons alone. None of
	// them is documented to alter the geometry of a valid multipolygon.
	opts int
}

var variants = []variant{
	{name: "nodes", typ: "multipolygon"},
	{name: "waynodes+boundary", annotated: true, typ: "boundary", tags: true},
	{name: "oriented+nodes-desc", desc: true, typ: "multipolygon", oriented: true},
	{name: "oriented+waynodes+boundary", annotated: true, typ: "boundary", oriented: true, tags: true},
	{name: "partly-oriented-even+nodes", typ: "multipolygon", oriented: true, partial: 1},
	{name: "partly-oriented-odd+waynodes", annotated: true, typ: "multipolygon", oriented: true, partial: 2},
}

// extended variants, run for the configurations of the plan entries marked x
// (and for every replayed case)
var extVariants = []variant{
	{name: "wide-ids+ways-desc+nodes", typ: "multipolygon", wideIDs: true, waysDesc: true},
	{name: "wide-ids+oriented+waynodes+all-options", annotated: true, typ: "boundary", oriented: true, wideIDs: true, opts: 1},
	{name: "mixed-sources+include-invalid", typ: "multipolygon", mixed: true, opts: 2},
	{name: "extras+nodes-desc", typ: "multipolygon", extras: true, desc: true},
	{name: "extras+oriented+waynodes", annotated: true, typ: "boundary", oriented: true, extras: true, tags: true},
	{name: "member-nodes", annotated: true, typ: "multipolygon", memberNodes: true},
	{name: "two-relations+nodes", typ: "multipolygon", twoRelations: true},
	// relations sharing ways AND carrying orientation annotations: converting one must not
	// leave the shared ways turned round for the other
	{name: "two-relations+oriented+waynodes", annotated: true, typ: "multipolygon", oriented: true, twoRelations: true},
	{name: "two-relations-second-first+oriented+nodes", typ: "boundary", oriented: true, twoRelations: true, secondFirst: true},
	{name: "ways-listed-twice+oriented+waynodes", annotated: true, typ: "multipolygon", oriented: true, dupMembers: true},
	{name: "ways-listed-twice+partly-oriented+nodes", typ: "boundary", oriented: true, partial: 1, dupMembers: true},
}

var moreTags = osm.Tags{{Key: "boundary", Value: "administrative"}, {Key: "name", Value: "X"}}

func (v variant) options() polycut.Options {
	o := polycut.Options{Annotated: v.annotated, NodesDescending: v.desc, RelationType: v.typ,
		WaysDescending: v.waysDesc, WideIDs: v.wideIDs, Mixed: v.mixed, Extras: v.extras, MemberNodes: v.memberNodes}
	if v.tags {
		o.RelationTags = moreTags
	}
	return o
}

func (v variant) convertOptions() []osmgeojson.Option {
	switch v.opts {
	case 1:
		return []osmgeojson.Option{osmgeojson.NoID(true), osmgeojson.NoMeta(true),
			osmgeojson.NoRelationMembership(true), osmgeojson.IncludeInvalidPolygons(true)}
	case 2:
		return []osmgeojson.Option{osmgeojson.IncludeInvalidPolygons(true)}
	}
	return nil
}

type failure struct {
	key    string
	what   string
	c      polycut.Case
	pieces int
	fp     string
	count  int
}

type collector struct {
	mu sync.Mutex
	m  map[string]*failure
}

func (col *collector) add(key, what string, c polycut.Case) {
	fp := c.Fingerprint()
	p := c.Pieces()
	col.mu.Lock()
	defer col.mu.Unlock()
	f := col.m[key]
	if f == nil {
		col.m[key] = &failure{key: key, what: what, c: c, pieces: p, fp: fp, count: 1}
		return
	}
	f.count++
	if p < f.pieces || (p == f.pieces && fp < f.fp) {
		f.what, f.c, f.pieces, f.fp = what, c, p, fp
	}
}

// nonTrivial: at least one ring has to be joined from several pieces, or at
// least one stored way runs against the winding required of its ring (outer
// clockwise / inner counter-clockwise), so something has to be turned round.
func nonTrivial(b *polycut.Built) bool {
	rings := map[int]int{}
	for _, m := range b.Members {
		rings[m.Ring]++
		if (m.Role == "outer" && m.Winding == orb.CW) || (m.Role == "inner" && m.Winding == orb.CCW) {
			return true
		}
	}
	for _, n := range rings {
		if n > 1 {
			return true
		}
	}
	return false
}

// datasource is the history datasource annotate.Relations works against: the
// case's ways (with annotated way nodes) and the elements that the members
// that are no ways refer to.
func datasource(b *polycut.Built) *osm.HistoryDatasource {
	return (&osm.OSM{Ways: b.OSM.Ways, Nodes: b.ExtraNodes, Relations: b.ExtraRelations}).HistoryDatasource()
}

// annotateRelation returns the relation of the case annotated by
// annotate.Relations.
func annotateRelation(t polycut.Truth, c polycut.Case, typ string, extras bool) (*polycut.Built, error) {
	b := polycut.Build(t, c, polycut.Options{Annotated: true, RelationType: typ, Extras: extras})
	err := annotate.Relations(context.Background(), osm.Relations{b.Relation}, datasource(b), annotate.Threshold(time.Hour))
	return b, err
}

// checkOrientations compares the Orientation of every member with the
// direction in which the stored way runs around its ground-truth ring (0 for
// a member that is no way). It reports the first difference.
func checkOrientations(col *collector, key string, b *polycut.Built, c polycut.Case) {
	for i, m := range b.Relation.Members {
		if m.Orientation != b.Members[i].Winding {
			col.add(key,
				fmt.Sprintf("member %d (%s %d, role %q, ring %d vertices %v) annotated %d, runs %d around its ring; case %s",
					i, m.Type, m.Ref, m.Role, b.Members[i].Ring, b.Members[i].Vertices, m.Orientation, b.Members[i].Winding, c.Fingerprint()), c)
			return
		}
	}
}

// features returns the geometries of the collection when it holds exactly
// want features, else a description of what it holds.
func features(fc *geojson.FeatureCollection, want int) ([]orb.Geometry, string) {
	if fc == nil {
		return nil, "nil feature collection"
	}
	if len(fc.Features) != want {
		var ids []string
		for _, f := range fc.Features {
			g := "nil"
			if f.Geometry != nil {
				g = f.Geometry.GeoJSONType()
			}
			ids = append(ids, fmt.Sprintf("%v:%s", f.ID, g))
		}
		return nil, fmt.Sprintf("%d features %v", len(fc.Features), ids)
	}
	gs := make([]orb.Geometry, len(fc.Features))
	for i, f := range fc.Features {
		gs[i] = f.Geometry
	}
	return gs, ""
}

type counts struct {
	conv, annot int64
}

func checkCase(r *kit.Run, col *collector, t polycut.Truth, c polycut.Case, ext bool, n *counts, sample bool) {
	plain := polycut.Build(t, c, variants[0].options())
	r.Case(c.Fingerprint(), nonTrivial(plain))
	if sample {
		r.Sample(map[string]interface{}{"case": c, "members": plain.Members, "relation": plain.Relation})
	}
	checkCaseNoKit(col, t, c, ext, n, plain)
}

// comparers holds one prepared polycut.Comparer per truth.
var comparers sync.Map

func comparer(t polycut.Truth) *polycut.Comparer {
	if v, ok := comparers.Load(t.Name); ok {
		return v.(*polycut.Comparer)
	}
	v, _ := comparers.LoadOrStore(t.Name, polycut.NewComparer(t))
	return v.(*polycut.Comparer)
}

// plain is the data set of variants[0] when the caller has built it already
// (nothing has been done to it), else nil.
func checkCaseNoKit(col *collector, t polycut.Truth, c polycut.Case, ext bool, n *counts, plain *polycut.Built) {
	shape := t.Shape()
	cmp := comparer(t)

	// orientation annotation, once per relation type (and once more with
	// members that are no ways mixed in)
	type akey struct {
		typ    string
		extras bool
	}
	annotatedMembers := map[akey]osm.Members{}
	runAnnotate := func(typ string, extras bool) *polycut.Built {
		what := typ
		if extras {
			what += "+extras"
		}
		b, err := annotateRelation(t, c, typ, extras)
		n.annot++
		if err != nil {
			col.add("annotate.error/"+what+"/"+shape, fmt.Sprintf("annotate.Relations failed: %v for %s", err, c.Fingerprint()), c)
			return nil
		}
		// a copy: the relation itself is annotated a second time below
		annotatedMembers[akey{typ, extras}] = append(osm.Members(nil), b.Relation.Members...)
		checkOrientations(col, "orientation/"+what+"/"+shape, b, c)
		return b
	}
	first := runAnnotate("multipolygon", false)
	runAnnotate("boundary", false)
	if ext {
		runAnnotate("boundary", true)

		// second call on the same relation: it now carries versions,
		// changesets and orientations; those at odd positions are taken away
		// again (members added since), the others have to be confirmed
		if first != nil {
			for i := range first.Relation.Members {
				if i%2 == 1 {
					first.Relation.Members[i].Orientation = 0
				}
			}
			err := annotate.Relations(context.Background(), osm.Relations{first.Relation}, datasource(first), annotate.Threshold(time.Hour))
			n.annot++
			if err != nil {
				col.add("annotate.error/again/"+shape, fmt.Sprintf("annotate.Relations on the annotated relation failed: %v for %s", err, c.Fingerprint()), c)
			} else {
				checkOrientations(col, "orientation/again/"+shape, first, c)
			}
		}
	}

	if ext {
		// two versions of the relation annotated in ONE call; every member way got a second
		// version in between that lists its nodes the other way round: version 1 is annotated
		// with the directions of the ways as they were, version 2 with the opposite ones
		b := polycut.Build(t, c, polycut.Options{Annotated: true, RelationType: "multipolygon"})
		ds := &osm.HistoryDatasource{Ways: map[osm.WayID]osm.Ways{}}
		for _, w := range b.OSM.Ways {
			w1 := kit.DeepCopy(w).(*osm.Way)
			w2 := kit.DeepCopy(w).(*osm.Way)
			w2.Version, w2.ChangesetID, w2.Timestamp = 2, 17, polycut.RelationTime.Add(24*time.Hour)
			for i, j := 0, len(w2.Nodes)-1; i < j; i, j = i+1, j-1 {
				w2.Nodes[i], w2.Nodes[j] = w2.Nodes[j], w2.Nodes[i]
			}
			ds.Ways[w.ID] = osm.Ways{w1, w2}
		}
		r1 := b.Relation
		r2 := kit.DeepCopy(r1).(*osm.Relation)
		r2.Version, r2.ChangesetID, r2.Timestamp = 2, 18, polycut.RelationTime.Add(48*time.Hour)
		err := annotate.Relations(context.Background(), osm.Relations{r1, r2}, ds, annotate.Threshold(time.Hour))
		n.annot++
		if err != nil {
			col.add("annotate.error/two-versions/"+shape, fmt.Sprintf("annotate.Relations on two versions failed: %v for %s", err, c.Fingerprint()), c)
		} else {
			checkOrientations(col, "orientation/two-versions-first/"+shape, b, c)
			for i, m := range r2.Members {
				if want := -b.Members[i].Winding; m.Orientation != want {
					col.add("orientation/two-versions-second/"+shape, fmt.Sprintf("member %d (%s %d, role %q) of the second relation version annotated %d, its way (second version, nodes the other way round) runs %d around its ring; case %s",
						i, m.Type, m.Ref, m.Role, m.Orientation, want, c.Fingerprint()), c)
					break
				}
			}
		}
	}

	vs := variants
	if ext {
		vs = append(append([]variant(nil), variants...), extVariants...)
	}
	for vi, v := range vs {
		var b *polycut.Built
		if vi == 0 && plain != nil {
			b = plain
		} else {
			b = polycut.Build(t, c, v.options())
		}
		if v.oriented {
			am, ok := annotatedMembers[akey{v.typ, v.extras}]
			if !ok {
				continue // annotation failed, already reported
			}
			// convert the annotated relation itself (same roles, plus
			// version, changeset and orientation; the refs differ only in the
			// wide-id variants, where the annotations are taken over member
			// by member: a direction does not depend on an id)
			for i := range b.Relation.Members {
				m := am[i]
				m.Ref = b.Relation.Members[i].Ref
				b.Relation.Members[i] = m
			}
			if v.partial != 0 {
				for i := range b.Relation.Members {
					if i%2 == v.partial-1 {
						continue
					}
					b.Relation.Members[i].Orientation = 0
				}
			}
		}
		if v.dupMembers {
			twin := kit.DeepCopy(b.OSM).(*osm.OSM)
			var trel *osm.Relation
			for _, r := range twin.Relations {
				if r.ID == b.Relation.ID {
					trel = r
				}
			}
			ms := b.Relation.Members
			for i := len(ms) - 1; i >= 0; i-- {
				if ms[i].Type != osm.TypeWay {
					continue
				}
				b.Relation.Members = append(b.Relation.Members, ms[i])
				m2 := trel.Members[i]
				for _, w := range twin.Ways {
					if int64(w.ID) == ms[i].Ref {
						cp := kit.DeepCopy(w).(*osm.Way)
						cp.ID += 1 << 20
						twin.Ways = append(twin.Ways, cp)
						m2.Ref = int64(cp.ID)
						break
					}
				}
				trel.Members = append(trel.Members, m2)
			}
			relGeoms := func(o *osm.OSM) ([]orb.Geometry, error) {
				fc, err := osmgeojson.Convert(o, v.convertOptions()...)
				n.conv++
				if err != nil {
					return nil, err
				}
				var gs []orb.Geometry
				for _, f := range fc.Features {
					if f.Properties["type"] == "relation" {
						gs = append(gs, f.Geometry)
					}
				}
				return gs, nil
			}
			ga, ea := relGeoms(b.OSM)
			gb, eb := relGeoms(twin)
			same := (ea == nil) == (eb == nil) && len(ga) == len(gb)
			for i := 0; same && i < len(ga); i++ {
				same = (ga[i] == nil && gb[i] == nil) || (ga[i] != nil && gb[i] != nil && orb.Equal(ga[i], gb[i]))
			}
			if !same {
				col.add("duplicate-listing/"+v.name+"/"+shape, fmt.Sprintf("every way member listed twice: the relation features differ from those of the twin data set whose second listings reference equal copies of the ways (err %v / %v, %d / %d relation features); case %s", ea, eb, len(ga), len(gb), c.Fingerprint()), c)
			}
			continue
		}
		want := 1
		if v.twoRelations {
			ms := b.Relation.Members
			rev := make(osm.Members, len(ms))
			for i := range ms {
				rev[len(ms)-1-i] = ms[i]
			}
			b.OSM.Relations = append(b.OSM.Relations, &osm.Relation{
				ID: polycut.RelationID + 1, Version: 1, Visible: true, Timestamp: polycut.RelationTime, ChangesetID: 8,
				Tags: osm.Tags{{Key: "type", Value: "boundary"}}, Members: rev})
			if v.secondFirst {
				n := len(b.OSM.Relations)
				b.OSM.Relations[n-2], b.OSM.Relations[n-1] = b.OSM.Relations[n-1], b.OSM.Relations[n-2]
			}
			want = 2
		}
		calls := 1
		if ext && vi == 0 {
			calls = 2 // second call on the same data set
		}
		for call := 1; call <= calls; call++ {
			name := v.name
			if call == 2 {
				name += "+second-call"
			}
			fc, err := osmgeojson.Convert(b.OSM, v.convertOptions()...)
			n.conv++
			if err != nil {
				col.add("convert.error/"+name+"/"+shape, fmt.Sprintf("Convert failed: %v for %s", err, c.Fingerprint()), c)
				continue
			}
			gs, why := features(fc, want)
			if why != "" {
				col.add("one-feature/"+name+"/"+shape, fmt.Sprintf("want exactly one feature per relation (%d), got %s; case %s", want, why, c.Fingerprint()), c)
				continue
			}
			for _, g := range gs {
				if m := cmp.Compare(g); m != nil {
					col.add("geometry."+m.Clause+"/"+name+"/"+shape,
						fmt.Sprintf("%s; case %s; got %s", m.Detail, c.Fingerprint(), describe(t, g)), c)
					break
				}
			}
		}
	}
}

// describe prints a geometry in grid units (coordinate * units per degree, rounded).
func describe(t polycut.Truth, g orb.Geometry) string {
	div := t.Div
	if div == 0 {
		div = 1e7
	}
	grid := func(r orb.Ring) string {
		var sb strings.Builder
		sb.WriteByte('[')
		for i, p := range r {
			if i > 0 {
				sb.WriteByte(' ')
			}
			fmt.Fprintf(&sb, "(%d,%d)", int64(math.Round(p[0]*div)), int64(math.Round(p[1]*div)))
		}
		sb.WriteByte(']')
		return sb.String()
	}
	poly := func(p orb.Polygon) string {
		var parts []string
		for _, r := range p {
			parts = append(parts, grid(r))
		}
		return "{" + strings.Join(parts, " ") + "}"
	}
	var s string
	switch v := g.(type) {
	case orb.Polygon:
		s = "Polygon " + poly(v)
	case orb.MultiPolygon:
		var parts []string
		for _, p := range v {
			parts = append(parts, poly(p))
		}
		s = "MultiPolygon " + strings.Join(parts, " ")
	default:
		s = fmt.Sprintf("%s %v", g.GeoJSONType(), g)
	}
	if len(s) > 700 {
		s = s[:700] + "..."
	}
	return s + fmt.Sprintf(" (%g grid units = 1 degree)", div)
}

func main() {
	kit.Main("C16", "exploration", func(r *kit.Run) {
		r.Rule("case = ground truth (polycut catalogue: G1 one outer, G2 +1 hole, G3 +2 holes, G4 two outers, G5 two outers with a hole each, G6 U shapes, G7 three outers (with and without a hole each), G8 one outer with three holes, G9 rings one grid unit apart, G10 hole vertices level with - sharing a lat or a lon with - local minima, local maxima, pass-through vertices and horizontal edges of the other outers / of their own outer, G11 runs of collinear vertices, G12 slivers and ordinary shapes near lon +-180 / lat +-90 in all four sign quadrants and outers 100 degrees apart, G13 locations with nine decimals; rings of 3-8 vertices, both stored windings) x per ring every non-empty cut-vertex set x every piece direction (within the tier's piece bound; for the larger truths some rings pinned to one closed way from vertex 0, both directions) x member order (every permutation up to 5 pieces quick / 6 thorough, above that - and for the entries marked rot - all rotations and the reversal of the sequential and the ring-interleaved order). Each case is converted 6 times (node objects ascending/descending or annotated way nodes; type multipolygon / boundary with further tags; members plain, all or every other one carrying the orientation annotations of annotate.Relations) and annotated twice. The cases of the plan entries marked x (cases_with_extended_variants) are also converted with way and node ids spread over small / beyond 2^40 and equal to another id in the low 40 bits / negative, with the way objects listed in descending order, with both coordinate sources mixed inside every way, with a node member (role outer, ref = a way's id), a relation member (role inner) and a node member (empty role) mixed into the member list, with the converter options on (all four; IncludeInvalidPolygons alone), with the geometry on the members (osm.Member.Nodes) instead of way objects, a second time on the same data set; they are annotated with the non-way members present (those must stay without orientation) and a second time after every other orientation was taken away. Distinct = distinct (truth, cuts, directions, order); non-trivial = some ring must be joined from >= 2 pieces or some stored way runs against the required winding of its ring.")
		r.Assume("polycut's integer geometry (shoelace winding, crossing-number point location, segment intersection) is correct; it validates every ground truth (simple, disjoint, holes strictly inside) at start-up")
		r.Assume("float64(X)/1e7 (G13: /1e9) identifies a grid vertex uniquely (checked for every ground truth at start-up); the converter copies coordinates without arithmetic, so output points are matched to vertices by exact float equality")
		r.Assume("not judged, because the property text does not decide them: a way listed twice as a member, member ways with a role other than outer/inner, orientation annotations that contradict the geometry, a vertex at exactly (0,0)")
		r.Assume("a single ground-truth polygon may be emitted as Polygon or as one-element MultiPolygon")

		col := &collector{m: map[string]*failure{}}
		if r.ReplayPath != "" {
			var c polycut.Case
			r.LoadReplay(&c)
			t, ok := polycut.Find(c.Truth)
			if !ok {
				kit.Fatalf("replay names unknown truth %q", c.Truth)
			}
			var n counts
			checkCase(r, col, t, c, true, &n, true)
			report(r, col)
			return
		}

		full := r.Pick(5, 6)
		us := units(r.Quick())
		var mu sync.Mutex
		perTruth := map[string]int64{}
		perPieces := map[string]int64{}
		var total counts
		var extCases int64
		capped := false
		r.Par(len(us), func(i int) {
			if r.TimeUp() {
				mu.Lock()
				capped = true
				mu.Unlock()
				return
			}
			u := us[i]
			var n counts
			upTo := full
			if u.rot {
				upTo = 0
			}
			orders := polycut.Orders(u.cfg, upTo)
			for k, o := range orders {
				// samples: the middle order of six configurations spread over the plan
				sample := k == len(orders)/2 && i%(len(us)/6+1) == len(us)/12
				checkCase(r, col, u.truth, polycut.Case{Truth: u.truth.Name, Config: u.cfg, Order: o}, u.ext, &n, sample)
			}
			mu.Lock()
			if u.ext {
				extCases += int64(len(orders))
			}
			perTruth[u.truth.Name] += int64(len(orders))
			perPieces[fmt.Sprintf("pieces=%02d", u.cfg.Pieces())] += int64(len(orders))
			total.conv += n.conv
			total.annot += n.annot
			mu.Unlock()
		})
		if capped {
			r.Capped("time budget reached before all configurations were run")
		}
		r.Set("configurations", len(us))
		r.Set("cases_per_truth", perTruth)
		r.Set("cases_per_piece_count", perPieces)
		r.Set("cases_with_extended_variants", extCases)
		r.Set("conversions", total.conv)
		r.Set("annotations", total.annot)
		r.Set("full_permutations_up_to_pieces", full)
		report(r, col)
	})
}

func report(r *kit.Run, col *collector) {
	keys := make([]string, 0, len(col.m))
	for k := range col.m {
		keys = append(keys, k)
	}
	sort.Strings(keys)
	byKey := map[string]int{}
	for _, k := range keys {
		f := col.m[k]
		byKey[k] = f.count
		r.Violation(f.key, fmt.Sprintf("%s [%d failing cases with this key; this one has the fewest pieces (%d)]", f.what, f.count, f.pieces), f.c)
	}
	if len(byKey) > 0 {
		r.Set("failing_cases_by_key", byKey)
	}
}
