package main

// Response bodies the fake server answers with, and the elements the caller
// must therefore receive. Both are produced from the same list of element
// specs by code written here; the library's XML decoding of single elements is
// trusted (it is the subject of C03).

import (
	"fmt"
	"strings"
)

type elem struct {
	Kind    string
	ID      int64
	Version int
}

var elementKinds = []string{"node", "way", "relation", "changeset", "note", "user"}

// bodyShapes: "k" is the kind the call returns, "f1"/"f2" are two other kinds.
var bodyShapes = []struct {
	Name  string
	Elems []string
	IDs   []int64 // ids of the elements by position; nil = the default ids
}{
	{"empty", nil, nil},
	{"one", []string{"k"}, nil},
	{"two", []string{"k", "k"}, nil},
	{"one+foreign", []string{"f1", "k", "f2"}, nil},
	{"foreign-only", []string{"f1", "f2"}, nil},
	// thorough only
	{"three-unsorted+foreign", []string{"k", "f2", "k", "k", "f1"}, nil},
	// boundary bodies: edge pass in quick; the first three also in the full product
	// of the thorough tier.
	// three versions of ONE id, as every history call answers (and what a
	// single-element call must reject although only one id is present)
	{"three-same-id", []string{"k", "k", "k"}, []int64{101, 101, 101}},
	// an element id beyond the 40 ref bits of the packed feature ids
	{"one-id-2^40+7", []string{"k"}, []int64{1<<40 + 7}},
	// the largest id and id 0 next to each other
	{"two-ids-max-and-0", []string{"k", "k"}, []int64{1<<63 - 1, 0}},
	// many elements: see manyBody
	{"many-250+foreign", manyBody, nil},
}

// bodyThreeSameID .. bodyMany are the indexes of the boundary bodies.
const (
	bodyThreeSameID = 6
	bodyOneBigID    = 7
	bodyTwoExtreme  = 8
	bodyMany        = 9
)

// manyBody: a foreign element, 250 elements of the returned kind, a foreign element.
var manyBody = func() []string {
	out := []string{"f1"}
	for i := 0; i < 250; i++ {
		out = append(out, "k")
	}
	return append(out, "f2")
}()

func bodyElems(e *endpoint, shape int) []elem {
	k := e.Kind
	if k == "" {
		k = "node" // OSM / Change results: every kind is returned
	}
	var foreign []string
	for _, c := range []string{"node", "way", "relation"} {
		if c != k {
			foreign = append(foreign, c)
		}
	}
	ids := []int64{103, 101, 102, 104, 105} // not ascending on purpose
	var out []elem
	for i, s := range bodyShapes[shape].Elems {
		kind := k
		switch s {
		case "f1":
			kind = foreign[0]
		case "f2":
			kind = foreign[1]
		}
		id := int64(1000 + i)
		if sh := bodyShapes[shape]; sh.IDs != nil {
			id = sh.IDs[i]
		} else if i < len(ids) {
			id = ids[i]
		}
		out = append(out, elem{Kind: kind, ID: id, Version: i + 1})
	}
	return out
}

func countKind(es []elem, kind string) int {
	n := 0
	for _, e := range es {
		if e.Kind == kind {
			n++
		}
	}
	return n
}

var actions = []string{"create", "modify", "delete"}

func elemXML(e elem) string {
	switch e.Kind {
	case "node":
		return fmt.Sprintf(`<node id="%d" version="%d" lat="1.5" lon="2.5" visible="true" timestamp="2012-01-01T00:00:00Z" changeset="7" uid="3" user="u"><tag k="a" v="b"/></node>`, e.ID, e.Version)
	case "way":
		return fmt.Sprintf(`<way id="%d" version="%d" visible="true" timestamp="2012-01-01T00:00:00Z" changeset="7" uid="3" user="u"><nd ref="1"/><nd ref="2"/><tag k="a" v="b"/></way>`, e.ID, e.Version)
	case "relation":
		return fmt.Sprintf(`<relation id="%d" version="%d" visible="true" timestamp="2012-01-01T00:00:00Z" changeset="7" uid="3" user="u"><member type="node" ref="1" role="r"/><tag k="a" v="b"/></relation>`, e.ID, e.Version)
	case "changeset":
		return fmt.Sprintf(`<changeset id="%d" user="u" uid="3" created_at="2012-01-01T00:00:00Z" closed_at="2012-01-01T01:00:00Z" open="false" min_lat="1" min_lon="1" max_lat="2" max_lon="2" comments_count="2"><tag k="comment" v="x"/><discussion><comment date="2012-01-01T02:00:00Z" uid="3" user="u"><text>hi</text></comment><comment date="2012-01-01T03:00:00Z" uid="3" user="u"><text>ho</text></comment></discussion></changeset>`, e.ID)
	case "note":
		return fmt.Sprintf(`<note lon="1.5" lat="2.5"><id>%d</id><url>http://x/notes/1</url><date_created>2012-01-01 00:00:00 UTC</date_created><status>open</status><comments><comment><date>2012-01-01 00:00:00 UTC</date><uid>3</uid><user>u</user><action>opened</action><text>t</text><html>h</html></comment></comments></note>`, e.ID)
	case "user":
		return fmt.Sprintf(`<user id="%d" display_name="user%d" account_created="2012-01-01T00:00:00Z"><description>d</description></user>`, e.ID, e.ID)
	}
	panic("kind " + e.Kind)
}

// elemFP is the identity by which returned elements are compared.
func elemFP(e elem) string {
	switch e.Kind {
	case "changeset":
		return fmt.Sprintf("changeset/%d/c2", e.ID)
	case "note":
		return fmt.Sprintf("note/%d/c1", e.ID)
	case "user":
		return fmt.Sprintf("user/%d/user%d", e.ID, e.ID)
	}
	return fmt.Sprintf("%s/%d/v%d", e.Kind, e.ID, e.Version)
}

// bodyXML renders the response document for the endpoint.
func bodyXML(e *endpoint, es []elem) string {
	var b strings.Builder
	b.WriteString(`<?xml version="1.0" encoding="UTF-8"?>` + "\n")
	if e.Res == resChange {
		// the real API writes one action block per element
		b.WriteString(`<osmChange version="0.6" generator="c20 fake">`)
		for i, el := range es {
			a := actions[i%3]
			b.WriteString("<" + a + ">" + elemXML(el) + "</" + a + ">")
		}
		b.WriteString(`</osmChange>`)
		return b.String()
	}
	b.WriteString(`<osm version="0.6" generator="c20 fake" copyright="c" attribution="a" license="l">`)
	if e.Call == "Map" {
		b.WriteString(`<bounds minlat="2" minlon="1" maxlat="4" maxlon="3"/>`)
	}
	for _, el := range es {
		b.WriteString(elemXML(el))
	}
	b.WriteString(`</osm>`)
	return b.String()
}

// expectElems lists what a successful call must return for the body, in the
// canonical order used by outcome (grouped by action, then kind, body order).
func expectElems(e *endpoint, es []elem) []string {
	var out []string
	switch e.Res {
	case resOne, resMany:
		for _, el := range es {
			if el.Kind == e.Kind {
				out = append(out, elemFP(el))
			}
		}
	case resOSM:
		for _, k := range elementKinds {
			for _, el := range es {
				if el.Kind == k {
					out = append(out, elemFP(el))
				}
			}
		}
	case resChange:
		for ai, a := range actions {
			for _, k := range elementKinds {
				for i, el := range es {
					if i%3 == ai && el.Kind == k {
						out = append(out, a+":"+elemFP(el))
					}
				}
			}
		}
	}
	return out
}
