// Check C20: osmapi calls hit the documented endpoint and map statuses to
// typed errors.
//
// Bounded-exhaustive: every exported osmapi call x argument shape x option set
// x base URL x limiter x HTTP status x response body of a fixed finite alphabet
// is executed against an in-process http.RoundTripper (no sockets) and compared
// with an endpoint table written from the API v0.6 documentation (table.go).
package main

import (
	"context"
	"encoding/hex"
	"errors"
	"fmt"
	"io"
	"net"
	"net/http"
	"os"
	"reflect"
	"sort"
	"strings"
	"sync"
	"syscall"
	"sync/atomic"
	"unicode/utf8"

	"github.com/paulmach/osm"
	"github.com/paulmach/osm/osmapi"

	"verif/kit"
)

// ---- case ----

type Opt struct {
	Kind string `json:"kind"` // "at" (N indexes atAlphabet), "limit", "closed"
	N    int    `json:"n"`
}

type Case struct {
	Call string `json:"call"`
	// Via: 0 = method on a Datasource with its own Client; 1 = package level
	// function (osmapi.DefaultDatasource); 2 = method on NewDatasource(nil),
	// which borrows DefaultDatasource.Client; 3 = method on
	// NewDatasource(client) with the case's own client.
	Via     int     `json:"via"`
	ID      int64   `json:"id"`
	IDs     []int64 `json:"ids"`
	Version int     `json:"version"`
	Bounds  int     `json:"bounds"` // index into boundsAlphabet
	Query   string  `json:"query"`
	// QueryHex, if set, is the search text as hex bytes (a text that is not
	// valid UTF-8 does not survive the JSON of a replay file); Query is then unused.
	QueryHex string `json:"query_hex,omitempty"`
	Opts     []Opt  `json:"opts"`
	Base     int    `json:"base"`    // index into bases
	Limiter  int    `json:"limiter"` // 0 none, 1 recording, 2 failing
	Status   int    `json:"status"`
	Body     int    `json:"body"` // index into bodyShapes
	Hdr      int    `json:"hdr,omitempty"` // index into headerSets
	// Prev, if set (Via 0 only), is a call made first on the SAME Datasource and
	// http.Client (its own status, body, options and limiter: Prev.Limiter 2 makes
	// the first call fail in the limiter, an invalid Prev.Opts makes it fail before
	// that); the judged call must behave exactly as on a fresh Datasource: nothing
	// of an earlier call, failed or not, may stick.
	Prev *Case `json:"prev,omitempty"`
}

// query is the search text of the case.
func (c *Case) query() string {
	if c.QueryHex != "" {
		b, err := hex.DecodeString(c.QueryHex)
		if err != nil {
			kit.Fatalf("bad query_hex %q", c.QueryHex)
		}
		return string(b)
	}
	return c.Query
}

// withQuery stores q so that it survives a replay file.
func withQuery(c Case, q string) Case {
	if utf8.ValidString(q) {
		c.Query, c.QueryHex = q, ""
	} else {
		c.Query, c.QueryHex = "", hex.EncodeToString([]byte(q))
	}
	return c
}

func (c *Case) argString() string {
	ids := fmt.Sprint(c.IDs)
	if c.IDs == nil {
		ids = "nil"
	} else if len(c.IDs) > 12 {
		ids = fmt.Sprintf("[%d ids %d..%d]", len(c.IDs), c.IDs[0], c.IDs[len(c.IDs)-1])
	}
	q := c.query()
	if len(q) > 64 {
		q = fmt.Sprintf("%s...(%d bytes)", q[:32], len(q))
	}
	s := fmt.Sprintf("%s via%d id=%d ids=%s v=%d b=%d q=%q opts=%v base=%d lim=%d", c.Call, c.Via, c.ID, ids, c.Version, c.Bounds, q, c.Opts, c.Base, c.Limiter)
	if c.Prev != nil {
		s += " after[" + c.Prev.String() + "]"
	}
	return s
}

// switchRT lets two calls share one http.Client while each talks to its own exchange.
type switchRT struct{ cur http.RoundTripper }

func (s *switchRT) RoundTrip(req *http.Request) (*http.Response, error) { return s.cur.RoundTrip(req) }

func buildArgs(e *endpoint, c *Case) callArgs {
	a := callArgs{ctx: context.Background(), c: c}
	for _, o := range c.Opts {
		switch o.Kind {
		case "at":
			a.fo = append(a.fo, osmapi.At(atAlphabet[o.N].T))
		case "limit":
			a.no = append(a.no, osmapi.Limit(o.N))
		case "closed":
			a.no = append(a.no, osmapi.MaxDaysClosed(o.N))
		}
	}
	if e.Args == argBounds {
		b := boundsAlphabet[c.Bounds]
		a.bounds = &osm.Bounds{MinLon: b.MinLon, MinLat: b.MinLat, MaxLon: b.MaxLon, MaxLat: b.MaxLat}
	}
	return a
}

func (c *Case) String() string {
	s := fmt.Sprintf("%s status=%d body=%s", c.argString(), c.Status, bodyShapes[c.Body].Name)
	if c.Hdr != 0 {
		s += fmt.Sprintf(" response-headers=%d", c.Hdr)
	}
	return s
}

// ---- fake transport and limiters ----

type request struct {
	Method  string
	URL     string
	HasBody bool
}

type exchange struct {
	mu     sync.Mutex
	events []string
	reqs   []request
	status int
	body   string
	hdr    int
	chunk  int // the body arrives in pieces of at most this many bytes (0 = one piece)
}

// Response header sets (Case.Hdr): what a server may send next to the status. None of them
// changes what the status and the body mean.
var headerSets = []http.Header{
	{"Content-Type": {"application/xml; charset=utf-8"}},
	// the OSM API explains a failure in an Error header (and rails sends it along with any status)
	{"Content-Type": {"text/plain; charset=utf-8"}, "Error": {"The object with the given id has been deleted or could not be found"}},
	{"Content-Type": {"application/xml"}, "Retry-After": {"120"}, "Cache-Control": {"no-cache"}, "X-Error-Format": {"xml"}, "Content-Encoding": {"identity"}, "Warning": {"199 - deprecated"}},
	{}, // no headers at all
}

// Transport faults, encoded as negative Case.Status values: the exchange fails
// below HTTP. A second request (there must be none) would be answered with a
// complete 200 response, as a server that is back would.
var transportFaults = []struct {
	Name string
	Err  error
	Cut  bool // 200 response whose body breaks off in the middle with Err
}{
	{"connection closed before any response byte (io.EOF)", io.EOF, false},
	{"unexpected EOF", io.ErrUnexpectedEOF, false},
	{"connection reset by peer", &net.OpError{Op: "read", Net: "tcp", Err: os.NewSyscallError("read", syscall.ECONNRESET)}, false},
	{"connection refused", &net.OpError{Op: "dial", Net: "tcp", Err: os.NewSyscallError("connect", syscall.ECONNREFUSED)}, false},
	{"timeout", context.DeadlineExceeded, false},
	{"some other transport error", errors.New("c20: transport broke"), false},
	{"body cut in the middle (unexpected EOF)", io.ErrUnexpectedEOF, true},
	{"body cut in the middle (connection reset)", &net.OpError{Op: "read", Net: "tcp", Err: os.NewSyscallError("read", syscall.ECONNRESET)}, true},
}

// pieces hands the body over in pieces of at most max bytes (0 = in one piece).
type pieces struct {
	data string
	max  int
}

func (c *pieces) Read(p []byte) (int, error) {
	if c.data == "" {
		return 0, io.EOF
	}
	n := len(p)
	if c.max > 0 && n > c.max {
		n = c.max
	}
	n = copy(p[:n], c.data)
	c.data = c.data[n:]
	return n, nil
}

type cutReader struct {
	data string
	err  error
}

func (c *cutReader) Read(p []byte) (int, error) {
	if c.data == "" {
		return 0, c.err
	}
	n := copy(p, c.data)
	c.data = c.data[n:]
	return n, nil
}

func (x *exchange) RoundTrip(req *http.Request) (*http.Response, error) {
	x.mu.Lock()
	x.events = append(x.events, "request")
	x.reqs = append(x.reqs, request{Method: req.Method, URL: req.URL.String(), HasBody: req.Body != nil && req.Body != http.NoBody})
	first := len(x.reqs) == 1
	x.mu.Unlock()
	if x.status < 0 {
		f := transportFaults[-x.status-1]
		if first && !f.Cut {
			return nil, f.Err
		}
		body := io.Reader(strings.NewReader(x.body))
		if first {
			body = &cutReader{data: x.body[:len(x.body)*2/3], err: f.Err}
		}
		return &http.Response{Status: "200 OK", StatusCode: 200, Proto: "HTTP/1.1", ProtoMajor: 1, ProtoMinor: 1,
			Header: http.Header{"Content-Type": []string{"application/xml; charset=utf-8"}}, Body: io.NopCloser(body), ContentLength: -1, Request: req}, nil
	}
	return &http.Response{
		Status:        fmt.Sprintf("%d %s", x.status, http.StatusText(x.status)),
		StatusCode:    x.status,
		Proto:         "HTTP/1.1",
		ProtoMajor:    1,
		ProtoMinor:    1,
		Header:        headerSets[x.hdr].Clone(),
		Body:          io.NopCloser(&pieces{data: x.body, max: x.chunk}),
		ContentLength: int64(len(x.body)),
		Request:       req,
	}, nil
}

var errLimiter = errors.New("c20: limiter refuses")

type limiter struct {
	x   *exchange
	err error
}

func (l *limiter) Wait(ctx context.Context) error {
	l.x.mu.Lock()
	l.x.events = append(l.x.events, "wait")
	l.x.mu.Unlock()
	return l.err
}

// escaped counts requests that left through http.DefaultTransport, i.e. not
// through the client the case configured.
var escaped int64

type trap struct{}

func (trap) RoundTrip(req *http.Request) (*http.Response, error) {
	atomic.AddInt64(&escaped, 1)
	return nil, errors.New("c20: request escaped to http.DefaultTransport: " + req.URL.String())
}

// guarded turns a panic of the code under test into an outcome.
func guarded(f func() outcome) (o outcome) {
	defer func() {
		if p := recover(); p != nil {
			o = outcome{Panic: fmt.Sprint(p)}
		}
	}()
	return f()
}

// globalMu serialises the cases that have to replace osmapi.DefaultDatasource.
var globalMu sync.Mutex

// ---- the check of one case ----

func statusKey(code int) string {
	switch code {
	case 403, 404, 410, 414:
		return fmt.Sprintf("status/%d", code)
	}
	return fmt.Sprintf("status/%dxx", code/100)
}

func errTypeName(err error) string {
	if err == nil {
		return "nil"
	}
	return fmt.Sprintf("%T(%v)", err, err)
}

// classify returns which of the typed errors err is (via errors.As).
func classify(err error) (name string, code int) {
	var nf *osmapi.NotFoundError
	var fb *osmapi.ForbiddenError
	var gone *osmapi.GoneError
	var long *osmapi.RequestURITooLongError
	var un *osmapi.UnexpectedStatusCodeError
	switch {
	case errors.As(err, &nf):
		return "NotFoundError", 0
	case errors.As(err, &fb):
		return "ForbiddenError", 0
	case errors.As(err, &gone):
		return "GoneError", 0
	case errors.As(err, &long):
		return "RequestURITooLongError", 0
	case errors.As(err, &un):
		return "UnexpectedStatusCodeError", un.Code
	}
	return "", 0
}

func wantErrName(status int) string {
	switch status {
	case 404:
		return "NotFoundError"
	case 403:
		return "ForbiddenError"
	case 410:
		return "GoneError"
	case 414:
		return "RequestURITooLongError"
	}
	return "UnexpectedStatusCodeError"
}

func checkCase(r *kit.Run, c *Case) {
	e := endpointByCall(c.Call)
	if e == nil {
		kit.Fatalf("unknown call %q", c.Call)
	}
	invalid := optionsInvalid(c)
	wantReq := !invalid && c.Limiter != 2

	// fingerprint: only the dimensions that can influence the expectation
	fp := c.argString()
	if wantReq {
		fp = c.String()
	}
	nontrivial := c.Status != 200 || c.Body != 1 || len(c.Opts) > 0 || c.Limiter != 0 || c.Base != 0 || c.Via != 0 ||
		c.ID > 1<<31-1 || (e.Args == argIDList && len(c.IDs) != 1) || c.Bounds != 0 || (e.Args == argQuery && c.query() != "asdf") ||
		((e.Args == argID || e.Args == argIDVersion) && c.ID < 1) || (e.Args == argIDVersion && (c.Version < 1 || c.Version > 1000))
	r.Case(fp, nontrivial)

	es := bodyElems(e, c.Body)
	// (how the body is cut into pieces follows from the case: one piece, single bytes, 7, 64)
	x := &exchange{status: c.Status, body: bodyXML(e, es), hdr: c.Hdr, chunk: []int{0, 1, 7, 64}[(c.Body+len(c.Opts)+int(c.ID&3)+c.Limiter)%4]}
	client := &http.Client{Transport: x}
	var lim osmapi.RateLimiter
	switch c.Limiter {
	case 1:
		lim = &limiter{x: x}
	case 2:
		lim = &limiter{x: x, err: errLimiter}
	}

	a := buildArgs(e, c)

	var got outcome
	var ds *osmapi.Datasource
	switch c.Via {
	case 0:
		if c.Prev != nil {
			pe := endpointByCall(c.Prev.Call)
			px := &exchange{status: c.Prev.Status, body: bodyXML(pe, bodyElems(pe, c.Prev.Body))}
			rt := &switchRT{cur: px}
			ds = &osmapi.Datasource{BaseURL: bases[c.Base], Client: &http.Client{Transport: rt}}
			switch c.Prev.Limiter {
			case 1:
				ds.Limiter = &limiter{x: px}
			case 2:
				ds.Limiter = &limiter{x: px, err: errLimiter}
			}
			pa := buildArgs(pe, c.Prev)
			guarded(func() outcome { return impls[c.Prev.Call].method(ds, pa) })
			rt.cur = x
			ds.Limiter = lim
		} else {
			ds = &osmapi.Datasource{BaseURL: bases[c.Base], Client: client, Limiter: lim}
		}
		got = guarded(func() outcome { return impls[c.Call].method(ds, a) })
	case 1:
		globalMu.Lock()
		saved := osmapi.DefaultDatasource
		base := bases[c.Base]
		if base == "" {
			base = osmapi.BaseURL // the state the package starts in
		}
		ds = &osmapi.Datasource{BaseURL: base, Client: client, Limiter: lim}
		osmapi.DefaultDatasource = ds
		got = guarded(func() outcome { return impls[c.Call].pkg(a) })
		osmapi.DefaultDatasource = saved
		globalMu.Unlock()
	case 2:
		globalMu.Lock()
		saved := osmapi.DefaultDatasource
		osmapi.DefaultDatasource = &osmapi.Datasource{BaseURL: "http://wrong.default.test/api/0.6", Client: client}
		ds = osmapi.NewDatasource(nil)
		ds.BaseURL = bases[c.Base]
		ds.Limiter = lim
		got = guarded(func() outcome { return impls[c.Call].method(ds, a) })
		osmapi.DefaultDatasource = saved
		globalMu.Unlock()
	case 3:
		// the constructor with a client of the caller's; DefaultDatasource is not
		// replaced (a request that reaches its client ends in the trap)
		ds = osmapi.NewDatasource(client)
		ds.BaseURL = bases[c.Base]
		ds.Limiter = lim
		got = guarded(func() outcome { return impls[c.Call].method(ds, a) })
	default:
		kit.Fatalf("bad via %d", c.Via)
	}

	fam := e.Family
	viol := func(key, msg string) {
		r.Violation(key, fmt.Sprintf("%s\n case: %s\n requests: %v events: %v\n returned: elems=%v err=%s", msg, c.String(), x.reqs, x.events, got.Elems, errTypeName(got.Err)), c)
	}

	if got.Panic != "" {
		viol("panic/"+fam, "the call panicked: "+got.Panic)
		return
	}

	// --- requests ---
	waits := 0
	for _, ev := range x.events {
		if ev == "wait" {
			waits++
		}
	}
	switch {
	case invalid:
		if len(x.reqs) != 0 || got.Err == nil {
			viol("options/invalid-"+fam, fmt.Sprintf("invalid option set %v must fail before any request", c.Opts))
			return
		}
	case c.Limiter == 2:
		if len(x.reqs) != 0 {
			viol("limiter/fail-request-sent", "the limiter refused, yet a request was sent")
			return
		}
		if got.Err == nil {
			viol("limiter/fail-error", "the limiter refused, yet the call returned no error")
		}
		if waits == 0 && len(x.reqs) == 0 && len(c.Opts) > 0 && got.Err != nil {
			viol("options/valid-rejected-"+fam, fmt.Sprintf("valid option set %v rejected", c.Opts))
		} else if waits != 1 {
			viol("limiter/count", fmt.Sprintf("%d calls of Limiter.Wait, want 1", waits))
		}
	default:
		if len(x.reqs) != 1 {
			// nothing else can be judged without the one exchange
			if n := atomic.SwapInt64(&escaped, 0); n != 0 || (got.Err != nil && strings.Contains(got.Err.Error(), "c20: request escaped")) {
				// (the counter is shared by the parallel workers; the trap's own error names the case)
				viol("requests/escaped", "a request bypassed the configured client")
			} else if len(x.reqs) == 0 && len(c.Opts) > 0 && got.Err != nil && waits == 0 {
				viol("options/valid-rejected-"+fam, fmt.Sprintf("valid option set %v rejected", c.Opts))
			} else {
				viol("requests/"+fam, fmt.Sprintf("%d requests, want exactly 1", len(x.reqs)))
			}
			return
		}
		if c.Limiter == 1 {
			if waits != 1 {
				viol("limiter/count", fmt.Sprintf("%d calls of Limiter.Wait, want 1", waits))
			} else if len(x.events) > 0 && x.events[0] != "wait" {
				viol("limiter/order", "request issued before Limiter.Wait")
			}
		}
	}
	for _, rq := range x.reqs {
		if rq.Method != "GET" || rq.HasBody {
			viol("method/"+fam, fmt.Sprintf("request %s (body %v), want a GET without body", rq.Method, rq.HasBody))
		}
	}
	if wantReq && len(x.reqs) >= 1 {
		for _, d := range compareURL(x.reqs[0].URL, expectURL(e, c)) {
			if d.clause == "url-precision" {
				// Not judged: the library formats bbox with %f (6 decimals) and its own
				// tests pin that spelling ("1.000000"); a bound with a 7th decimal is
				// therefore sent to within 5e-7 degrees. The property fixes the path and
				// parameters, not the number of decimals, so this is counted, not reported.
				r.Add("bbox_within_format_precision_not_judged", 1)
				continue
			}
			viol(d.clause+"/"+fam, d.msg)
		}
	}

	// --- outcome ---
	cause := "ok"
	wantNotFound := false
	switch {
	case invalid:
		cause = "invalid-options"
		if len(got.Elems) > 0 || got.HasPtr {
			viol("partial-data/"+fam, "data returned together with an option error")
		}
	case c.Limiter == 2:
		cause = "limiter-error"
		if len(got.Elems) > 0 || got.HasPtr {
			viol("partial-data/"+fam, "data returned although the limiter refused")
		}
	case c.Status < 0:
		cause = "transport-fault"
		if got.Err == nil {
			viol("transport-fault/no-error/"+fam, "the exchange failed below HTTP ("+transportFaults[-c.Status-1].Name+"), yet the call returned no error")
		}
		if len(got.Elems) > 0 || got.HasPtr {
			viol("partial-data/"+fam, "data returned although the exchange failed: "+transportFaults[-c.Status-1].Name)
		}
	case c.Status != 200:
		cause = fmt.Sprint(c.Status)
		wantNotFound = c.Status == 404
		name, code := classify(got.Err)
		if name != wantErrName(c.Status) || (name == "UnexpectedStatusCodeError" && code != c.Status) {
			viol(statusKey(c.Status), fmt.Sprintf("status %d must map to *%s (with the code, if unexpected); got %s", c.Status, wantErrName(c.Status), errTypeName(got.Err)))
		}
		if len(got.Elems) > 0 || got.HasPtr {
			viol("partial-data/"+fam, fmt.Sprintf("data returned for status %d", c.Status))
		}
	default:
		n := countKind(es, e.Kind)
		if e.Res == resOne && n != 1 {
			cause = fmt.Sprintf("count-%d", n)
			if got.Err == nil || len(got.Elems) > 0 || got.HasPtr {
				viol(fmt.Sprintf("single-element/%s-%d", e.Kind, n), fmt.Sprintf("response holds %d %ss; a single-element call must reject it", n, e.Kind))
			}
		} else {
			want := expectElems(e, es)
			if got.Err != nil {
				viol("error/"+fam, "error for a 200 response with a well-formed body")
			} else if !sameStrings(got.Elems, want) {
				viol("elements/"+fam, fmt.Sprintf("returned %v, the response contains %v", got.Elems, want))
			}
		}
	}
	if nf := ds.NotFound(got.Err); nf != wantNotFound {
		viol("notfound-test/"+cause, fmt.Sprintf("NotFound(err)=%v, want %v (err=%s)", nf, wantNotFound, errTypeName(got.Err)))
	}
	if wantSample(c) && r.WantSample() {
		r.Sample(map[string]interface{}{"case": c, "described": c.String(), "requests": x.reqs, "events": x.events,
			"returned": got.Elems, "error": errTypeName(got.Err)})
	}
	if n := atomic.SwapInt64(&escaped, 0); n != 0 {
		viol("requests/escaped", fmt.Sprintf("%d requests bypassed the configured client", n))
	}
}

// wantSample picks one representative case of six different families.
func wantSample(c *Case) bool {
	if c.Via != 0 || c.Base != 1 {
		return false
	}
	switch c.Call {
	case "Node":
		return c.Status == 410 && c.Limiter == 1 && c.Body == 1 && len(c.Opts) == 1 && c.Opts[0].N == 1 && c.ID == 1<<31
	case "Nodes":
		return c.Status == 414 && c.Limiter == 0 && c.Body == 2 && len(c.IDs) == 3 && len(c.Opts) == 0
	case "Map":
		return c.Status == 200 && c.Limiter == 1 && c.Body == 3 && c.Bounds == 1 && len(c.Opts) == 1 && c.Opts[0].N == 0
	case "ChangesetDownload":
		return c.Status == 200 && c.Limiter == 0 && c.Body == 3 && c.ID == 1<<40-1
	case "Notes":
		return c.Status == 200 && c.Limiter == 2 && c.Body == 2 && c.Bounds == 1 && len(c.Opts) == 2 && c.Opts[0].Kind == "closed" && c.Opts[1].N == 10
	case "NotesSearch":
		return c.Status == 503 && c.Limiter == 1 && c.Body == 1 && c.Query != "" && c.Query != "asdf" && c.QueryHex == "" && len(c.Opts) == 1 && c.Opts[0].Kind == "limit" && c.Opts[0].N == 10000
	}
	return false
}

// ---- enumeration ----

type shape struct {
	e    *endpoint
	base Case // everything except Status and Body
}

func argShapes(e *endpoint, quick bool) []Case {
	// 2^40 and above do not fit the ref bits of osm.FeatureID / ElementID: an endpoint
	// must format the id it was given, not a packed id
	ids := []int64{1, 1 << 31, 1<<40 - 1, 1<<40 + 5}
	if !quick {
		ids = append(ids, 1<<31-1, 1<<63-1)
	}
	var out []Case
	switch e.Args {
	case argID:
		for _, id := range ids {
			out = append(out, Case{ID: id})
		}
	case argIDVersion:
		if quick {
			out = append(out, Case{ID: 1, Version: 1}, Case{ID: 1 << 31, Version: 2}, Case{ID: 1<<40 - 1, Version: 1000}, Case{ID: 1<<45 + 3, Version: 3})
		} else {
			for _, id := range ids {
				for _, v := range []int{1, 2, 1000, 1<<31 - 1} {
					out = append(out, Case{ID: id, Version: v})
				}
			}
		}
	case argIDList:
		out = append(out, Case{IDs: []int64{}}, Case{IDs: []int64{1}}, Case{IDs: []int64{1, 1 << 31, 1<<40 - 1}}, Case{IDs: []int64{1 << 40, 2}})
		// lists that name the ids the fake server answers with (103, 101, 102, ...), an id twice,
		// in another order than the response, fewer and more than the response holds: what comes
		// back is the server's answer, not something rebuilt from the request
		out = append(out, Case{IDs: []int64{103, 103, 101}}, Case{IDs: []int64{101, 101}}, Case{IDs: []int64{102, 101, 103}}, Case{IDs: []int64{103, 101, 102, 104, 105}})
		if !quick {
			out = append(out, Case{IDs: []int64{7, 7}}, Case{IDs: []int64{1<<63 - 1, 1}},
				Case{IDs: []int64{10, 9, 8, 7, 6, 5, 4, 3, 2, 1}})
		}
	case argBounds:
		n := 3
		if !quick {
			n = len(boundsAlphabet)
		}
		for i := 0; i < n; i++ {
			out = append(out, Case{Bounds: i})
		}
	case argQuery:
		n := nFullQueries
		if !quick {
			n = len(queryAlphabet)
		}
		for _, q := range queryAlphabet[:n] {
			out = append(out, withQuery(Case{}, q))
		}
	}
	return out
}

// ---- boundary values: one dimension at a time (edge pass) ----

// edgeIDs: 0 and -1 (the documented path template takes whatever id the caller
// passes), the widths at which an encoding could change, the extremes of int64.
var edgeIDs = []int64{0, -1, 127, 128, 1 << 32, 1<<53 + 1, 1<<63 - 1, -1 << 63}

// manyIDs is an id list far longer than any other: still ONE request.
var manyIDs = func() []int64 {
	out := make([]int64, 1000)
	for i := range out {
		out[i] = int64(1000-i) * 7919 // descending
	}
	return out
}()

func edgeArgShapes(e *endpoint) []Case {
	var out []Case
	switch e.Args {
	case argID:
		for _, id := range edgeIDs {
			out = append(out, Case{ID: id})
		}
	case argIDVersion:
		out = append(out, Case{ID: 1, Version: 0}, Case{ID: 1, Version: -1}, Case{ID: 0, Version: 1}, Case{ID: -1, Version: 1},
			Case{ID: 128, Version: 10}, Case{ID: 1 << 32, Version: 1 << 31}, Case{ID: 1<<53 + 1, Version: 1<<63 - 1},
			Case{ID: 1<<63 - 1, Version: 1<<31 - 1}, Case{ID: -1 << 63, Version: -1 << 63})
	case argIDList:
		out = append(out, Case{IDs: nil}, Case{IDs: []int64{0}}, Case{IDs: []int64{-1, 1<<63 - 1}}, Case{IDs: []int64{7, 7}},
			Case{IDs: []int64{-1 << 63, 1<<53 + 1, 128}}, Case{IDs: manyIDs})
	case argBounds:
		for _, i := range edgeBounds {
			out = append(out, Case{Bounds: i})
		}
	case argQuery:
		for _, q := range queryAlphabet[nFullQueries:] {
			out = append(out, withQuery(Case{}, q))
		}
	}
	return out
}

// edgeOptShapes: boundary values of every option, each option given twice with
// the same value (two different values of one option are not enumerated: the
// documentation does not say which one wins), an invalid Limit after a valid one.
func edgeOptShapes(e *endpoint) [][]Opt {
	switch e.Opts {
	case optFeature:
		var out [][]Opt
		for i := nFullAts; i < len(atAlphabet); i++ {
			out = append(out, []Opt{{"at", i}})
		}
		return append(out, []Opt{{"at", 1}, {"at", 1}}, []Opt{{"at", 3}, {"at", 3}})
	case optNotes:
		return [][]Opt{
			{{"limit", 2}}, {{"limit", 9999}}, {{"limit", -1}}, {{"limit", 1 << 31}}, {{"limit", 1<<32 + 5}},
			{{"limit", 1<<63 - 1}}, {{"limit", -1 << 63}}, {{"limit", -1<<32 + 5}},
			{{"closed", 1}}, {{"closed", 36500}}, {{"closed", 1 << 31}}, {{"closed", 1<<32 + 7}},
			{{"limit", 5}, {"limit", 5}}, {{"closed", 7}, {"closed", 7}}, {{"closed", 0}, {"limit", 1}, {"closed", 0}},
			{{"limit", 5}, {"limit", 0}}, {{"limit", 10001}, {"limit", 5}},
		}
	}
	return nil
}

// statuses outside 200-299 / 400-599 that net/http hands to its caller like any
// other (no redirect is followed for 300, 304, 305, 306; 6xx-9xx are three-digit
// codes no class is defined for). 1xx and the redirecting 3xx stay excluded.
var edgeStatuses = []int{300, 304, 600, 999}

// repCase is the representative argument shape of an endpoint (the last one of
// the quick alphabet: the id / ids beyond 2^40, the 7-decimal box, the query
// with reserved characters).
func repCase(e *endpoint, withOpts bool) Case {
	args := argShapes(e, true)
	c := args[len(args)-1]
	c.Call = e.Call
	if withOpts {
		switch e.Opts {
		case optFeature:
			c.Opts = []Opt{{"at", 1}}
		case optNotes:
			c.Opts = []Opt{{"limit", 10}, {"closed", 7}}
		}
	}
	return c
}

// edgeCases builds the edge pass: every boundary value of ONE dimension against
// a reduced product of the others (quick: 2 bases incl. the percent-escaped one,
// limiter none / recording, statuses 200 / 404 / 500, bodies one / two; thorough:
// every base and limiter, the 17 quick statuses + the edge statuses, 9 bodies).
func edgeCases(quick bool) (cases []Case, perDim map[string]int) {
	perDim = map[string]int{}
	dBases, dLims, dSts, dBodies := []int{0, 3}, []int{0, 1}, []int{200, 404, 500}, []int{1, 2}
	if !quick {
		dBases = nil
		for i := range bases {
			dBases = append(dBases, i)
		}
		dLims = []int{0, 1, 2}
		dSts = append(append([]int{}, quickStatuses...), edgeStatuses...)
		dBodies = []int{0, 1, 2, 3, 4, 5, bodyThreeSameID, bodyOneBigID, bodyTwoExtreme}
	}
	allLims := []int{0, 1, 2}
	add := func(dim string, c Case, call string, via int, opts []Opt, bs, ls, sts, bodies []int) {
		for _, b := range bs {
			for _, l := range ls {
				for _, st := range sts {
					for _, body := range bodies {
						k := c
						k.Call, k.Via, k.Opts, k.Base, k.Limiter, k.Status, k.Body = call, via, opts, b, l, st, body
						cases = append(cases, k)
						perDim[dim]++
					}
				}
			}
		}
	}
	for i := range endpoints {
		e := &endpoints[i]
		rep := repCase(e, false)
		repOpts := [][]Opt{nil}
		if o := repCase(e, true).Opts; o != nil {
			repOpts = append(repOpts, o)
		}
		// A: arguments
		for _, a := range edgeArgShapes(e) {
			for _, o := range repOpts {
				add("args", a, e.Call, 0, o, dBases, dLims, dSts, dBodies)
			}
		}
		// B: options (with the failing limiter too: an invalid option fails first)
		for _, o := range edgeOptShapes(e) {
			add("options", rep, e.Call, 0, o, dBases, allLims, dSts, dBodies)
		}
		// C: base URLs that are not part of the full product
		var eb []int
		for b := nFullBases; b < len(bases); b++ {
			eb = append(eb, b)
		}
		small := argShapes(e, true)[0]
		for _, o := range repOpts {
			add("bases", rep, e.Call, 0, o, eb, allLims, dSts, dBodies)
			add("bases", small, e.Call, 0, o, eb, []int{0}, []int{200}, []int{1})
		}
		// D: statuses
		for _, o := range repOpts {
			add("statuses", rep, e.Call, 0, o, dBases, dLims, edgeStatuses, []int{0, 1, 2, 3})
		}
		// E: bodies
		add("bodies", rep, e.Call, 0, nil, []int{0}, []int{0, 1}, []int{200, 201, 304, 404, 500},
			[]int{bodyThreeSameID, bodyOneBigID, bodyTwoExtreme, bodyMany})
		// F: the constructor with a client
		for _, o := range repOpts {
			add("via_new_datasource_with_client", rep, e.Call, 3, o, []int{0, 1}, allLims, []int{200, 403, 404, 410, 414, 500}, []int{0, 1, 2})
		}
	}
	return cases, perDim
}

func optShapes(e *endpoint, quick bool) [][]Opt {
	switch e.Opts {
	case optFeature:
		// the positive-offset zone matters in the quick tier too: an unescaped '+'
		// in the query is a space on the wire
		return [][]Opt{nil, {{"at", 0}}, {{"at", 1}}, {{"at", 2}}}
	case optNotes:
		out := [][]Opt{
			nil,
			{{"limit", 1}}, {{"limit", 10000}}, {{"limit", 0}}, {{"limit", 10001}},
			{{"closed", -1}}, {{"closed", 0}}, {{"closed", 7}},
			{{"limit", 10}, {"closed", 7}}, {{"closed", 7}, {"limit", 10}},
			{{"closed", 0}, {"limit", 0}}, {{"limit", 10001}, {"closed", -1}},
		}
		if !quick {
			out = append(out, []Opt{{"limit", 5000}}, []Opt{{"closed", 365}}, []Opt{{"limit", -1}},
				[]Opt{{"closed", -1}, {"limit", 10000}})
		}
		return out
	}
	return [][]Opt{nil}
}

var quickStatuses = []int{200, 201, 204, 400, 401, 403, 404, 405, 409, 410, 412, 414, 429, 500, 502, 503, 509}

func statuses(quick bool) []int {
	if quick {
		return quickStatuses
	}
	var out []int
	for s := 200; s <= 299; s++ {
		out = append(out, s)
	}
	for s := 400; s <= 599; s++ {
		out = append(out, s)
	}
	return append(out, 300, 304, 305, 306, 600, 700, 999) // see edgeStatuses
}

func main() {
	kit.Main("C20", "exploration", func(r *kit.Run) {
		http.DefaultTransport = trap{}
		r.Rule("full product: every exported osmapi read call (26, as Datasource method; plus a serial pass as package-level function and via NewDatasource(nil)) " +
			"x argument shapes (ids 1, 2^31, 2^40-1; id lists of 0/1/3; 3 bounding boxes incl. 7-decimal; 3 search strings incl. reserved characters) " +
			"x option sets (none, At utc / At zoned; Limit 1,10000,0,10001, MaxDaysClosed -1,0,7, both orders, invalid after valid) " +
			"x base URL (unset, custom with port and path prefix, https) x limiter (none, recording, failing) " +
			"x status (17 in quick; all of 200-299 and 400-599 in thorough) x body (0, 1, 2 elements of the returned kind, 1 + foreign kinds, foreign only; thorough: 3 unsorted + foreign). " +
			"Sequence pass: every ordered pair of calls (with and without options, first call answered 200 / 404) on ONE Datasource and http.Client, the second call judged like a first call. " +
			"The sequence pass also runs every pair whose FIRST call failed before any request (limiter refused; invalid option). " +
			"Edge pass (boundary values of one dimension at a time against a reduced product of the others - quick: default and percent-escaped base, limiter none/recording, status 200/404/500, bodies one/two; thorough: all bases and limiters, 21 statuses, 9 bodies): " +
			"ids 0, -1, 127, 128, 2^32, 2^53+1, 2^63-1, -2^63; versions 0, -1, 10, 2^31, 2^63-1, -2^63; id lists nil, [0], negative + 2^63-1, a repeated id, 1000 ids; " +
			"boxes all-zero, zero as upper / lower bounds, across the antimeridian (MinLon > MaxLon), whole world, the limits and one 6th-decimal step below; " +
			"search texts of whitespace, control characters + NUL + ';', a broken percent-escape, text that looks like the options, 3/4-byte UTF-8, invalid UTF-8, 5.5 kB; " +
			"At(zero time), unix 0, 1969 with half a second, 2300, 9999-12-31T23:59:59.999999999, a zone offset with seconds; each option twice with the same value; " +
			"Limit 2, 9999, -1, 2^31, 2^32+5, -2^32+5, 2^63-1, -2^63; MaxDaysClosed 1, 36500, 2^31, 2^32+7; an invalid Limit after / before a valid Limit; " +
			"base URL with an IPv6 literal, a port and no path; statuses 300, 304, 600, 999 (net/http follows no redirect for them); " +
			"bodies with three versions of one id, an element id of 2^40+7, ids 2^63-1 and 0, 250 elements + foreign kinds; NewDatasource(client) with a client of the caller's. " +
			"Every argument shape (quick alphabet + boundary values) also once per package-level function and nil-Client method. " +
			"A case is non-trivial unless it is the plain happy path (status 200, one element, no options, no limiter, default base, small id); " +
			"fingerprints drop status and body when no request may be sent (failing limiter, invalid options).")
		r.Assume("the endpoint table in props/c20/table.go transcribes the API v0.6 documentation correctly (written from memory of the wiki page, no network)")
		r.Assume("net/http.Client hands the request unchanged to its RoundTripper and the response unchanged back (no redirects: 1xx/3xx are excluded)")
		r.Assume("decoding of a single well-formed element is correct (C03); elements are compared by kind, id, version / comment count / display name")
		r.Assume("the at= parameter is the library's documented extension (osm.fyi), not part of API v0.6; accepted as any RFC 3339 spelling of the instant cut to seconds")

		if r.ReplayPath != "" {
			var c Case
			r.LoadReplay(&c)
			checkCase(r, &c)
			return
		}

		// every exported context-taking method of Datasource must be in the table
		var uncovered []string
		t := reflect.TypeOf(&osmapi.Datasource{})
		for i := 0; i < t.NumMethod(); i++ {
			m := t.Method(i)
			if m.Name == "NotFound" {
				continue
			}
			if endpointByCall(m.Name) == nil {
				uncovered = append(uncovered, m.Name)
			}
		}
		for i := range endpoints {
			if _, ok := impls[endpoints[i].Call]; !ok {
				kit.Fatalf("no caller for table entry %s", endpoints[i].Call)
			}
			if _, ok := t.MethodByName(endpoints[i].Call); !ok {
				kit.Fatalf("table entry %s is not a method of osmapi.Datasource", endpoints[i].Call)
			}
		}
		r.Set("datasource_methods_not_in_table", uncovered)
		// inputs the property text does not decide: never run, listed so that nobody
		// takes their absence for coverage
		r.Set("classes_not_enumerated_because_the_property_does_not_decide_them", []string{
			"one option passed twice with two different values (which one wins / whether both are sent is not documented)",
			"At() of an instant whose UTC year is outside 0001..9999 (no RFC 3339 spelling)",
			"MaxDaysClosed below -1 (only -1 and >= 0 are documented)",
			"a base URL with a trailing slash, a query string or userinfo",
			"NaN / infinite bounds, a nil *osm.Bounds, a nil option, a nil or cancelled context",
			"1xx and redirecting 3xx statuses (301, 302, 303, 307, 308: decided by net/http)",
			"200 responses whose body is empty or not well-formed XML",
			"Client == nil while DefaultDatasource.Client == nil (falls to http.DefaultClient: real network)",
		})
		if len(uncovered) > 0 {
			r.Note(fmt.Sprintf("exported Datasource methods without a table entry (not checked): %v", uncovered))
		}

		quick := r.Quick()
		sts := statuses(quick)
		nbodies := 5
		if !quick {
			nbodies = bodyThreeSameID + 1 // + three-unsorted+foreign, three-same-id
		}

		// serial pass: package level functions and the nil-Client fallback
		perFamily := map[string]int64{}
		serial := 0
		for via := 1; via <= 2; via++ {
			for i := range endpoints {
				e := &endpoints[i]
				args := argShapes(e, true)
				opts := optShapes(e, true)
				if e.Opts == optNotes {
					opts = [][]Opt{nil, {{"limit", 10}, {"closed", 7}}, {{"limit", 0}}}
				} else if len(opts) > 2 {
					opts = opts[:2]
				}
				for _, o := range opts {
					for base := 0; base <= 1; base++ {
						for lim := 0; lim <= 2; lim++ {
							for _, st := range []int{200, 403, 404, 410, 414, 500} {
								for body := 0; body <= 2; body++ {
									c := args[len(args)-1]
									c.Call, c.Via, c.Opts, c.Base, c.Limiter, c.Status, c.Body = e.Call, via, o, base, lim, st, body
									checkCase(r, &c)
									serial++
									perFamily[e.Family]++
								}
							}
						}
					}
				}
			}
		}
		// ... and every argument shape (quick alphabet + boundary values) once per
		// package level function / nil-Client method: plain happy path
		for via := 1; via <= 2; via++ {
			for i := range endpoints {
				e := &endpoints[i]
				for _, c := range append(argShapes(e, true), edgeArgShapes(e)...) {
					c.Call, c.Via, c.Status, c.Body = e.Call, via, 200, 1
					checkCase(r, &c)
					serial++
					perFamily[e.Family]++
				}
			}
		}
		r.Set("cases_package_level_and_nil_client", serial)

		// transport faults: the one exchange fails below HTTP (or its body breaks off);
		// exactly one request, an error, no data - a request sent again is a second GET
		nfault := 0
		for i := range endpoints {
			e := &endpoints[i]
			for _, withOpts := range []bool{false, true} {
				for f := range transportFaults {
					for lim := 0; lim < 2; lim++ {
						for body := 1; body <= 3; body++ {
							c := repCase(e, withOpts)
							c.Call, c.Status, c.Body, c.Limiter = e.Call, -(f + 1), body, lim
							checkCase(r, &c)
							nfault++
							perFamily[e.Family]++
						}
					}
				}
			}
		}
		r.Set("cases_transport_faults", nfault)

		// response headers next to the status: they change nothing
		nhdr := 0
		for i := range endpoints {
			e := &endpoints[i]
			for hdr := 1; hdr < len(headerSets); hdr++ {
				for _, st := range []int{200, 403, 404, 410, 414, 500, 509} {
					for body := 1; body <= 2; body++ {
						c := repCase(e, hdr == 2)
						c.Call, c.Status, c.Body, c.Hdr = e.Call, st, body, hdr
						checkCase(r, &c)
						nhdr++
						perFamily[e.Family]++
					}
				}
			}
		}
		r.Set("cases_response_headers", nhdr)

		// sequence pass: every ordered pair of calls on one Datasource and one
		// http.Client; the second call is judged exactly like a first call
		pairs := 0
		var seq []Case // run on all cores below: these cases touch no package state
		rep := repCase
		for i := range endpoints {
			for j := range endpoints {
				for _, po := range []bool{false, true} {
					if po && endpoints[i].Opts != optFeature && endpoints[i].Opts != optNotes {
						continue
					}
					for _, pst := range []int{200, 404} {
						for _, bo := range []bool{false, true} {
							if bo && endpoints[j].Opts != optFeature && endpoints[j].Opts != optNotes {
								continue
							}
							for _, st := range []int{200, 410} {
								for lim := 0; lim <= 1; lim++ {
									prev := rep(&endpoints[i], po)
									prev.Status, prev.Body = pst, 2
									c := rep(&endpoints[j], bo)
									c.Status, c.Body, c.Limiter, c.Base, c.Prev = st, 1, lim, 1, &prev
									seq = append(seq, c)
									pairs++
								}
							}
						}
					}
				}
			}
		}
		// ... and after a first call that FAILED before any request: in the limiter
		// (which is then replaced), or on an invalid option (notes calls only)
		for i := range endpoints {
			for j := range endpoints {
				for pfail := 1; pfail <= 2; pfail++ {
					if pfail == 2 && endpoints[i].Opts != optNotes {
						continue
					}
					for _, bo := range []bool{false, true} {
						if bo && endpoints[j].Opts != optFeature && endpoints[j].Opts != optNotes {
							continue
						}
						for _, st := range []int{200, 410} {
							for lim := 0; lim <= 1; lim++ {
								prev := rep(&endpoints[i], false)
								prev.Status, prev.Body = 200, 1
								if pfail == 1 {
									prev.Limiter = 2
								} else {
									prev.Opts = []Opt{{"closed", 7}, {"limit", 0}}
								}
								c := rep(&endpoints[j], bo)
								c.Status, c.Body, c.Limiter, c.Base, c.Prev = st, 1, lim, 1, &prev
								seq = append(seq, c)
								pairs++
							}
						}
					}
				}
			}
		}
		r.Set("cases_second_call_on_same_datasource", pairs)
		r.Par(len(seq), func(i int) {
			c := seq[i]
			checkCase(r, &c)
		})

		// edge pass: boundary values, one dimension at a time
		edge, perDim := edgeCases(quick)
		for dim, n := range perDim {
			r.Set("cases_edge_"+dim, n)
		}
		r.Par(len(edge), func(i int) {
			c := edge[i]
			checkCase(r, &c)
		})

		// parallel pass: methods on private Datasources, the full product
		var shapes []shape
		for i := range endpoints {
			e := &endpoints[i]
			for _, a := range argShapes(e, quick) {
				for _, o := range optShapes(e, quick) {
					for base := 0; base < nFullBases; base++ {
						for lim := 0; lim <= 2; lim++ {
							c := a
							c.Call, c.Opts, c.Base, c.Limiter = e.Call, o, base, lim
							shapes = append(shapes, shape{e, c})
						}
					}
				}
			}
		}
		r.Set("shapes_call_args_options_base_limiter", len(shapes))
		r.Set("statuses", len(sts))
		r.Set("bodies", nbodies)
		var capped int32
		r.Par(len(shapes), func(i int) {
			if r.TimeUp() {
				atomic.StoreInt32(&capped, 1)
				return
			}
			s := shapes[i]
			for _, st := range sts {
				for body := 0; body < nbodies; body++ {
					c := s.base
					c.Status, c.Body = st, body
					checkCase(r, &c)
				}
			}
			r.Add("cases_"+s.e.Family, int64(len(sts)*nbodies))
		})
		if capped != 0 {
			r.Capped("time budget reached before all shapes were run")
		}
		fams := make([]string, 0, len(perFamily))
		for f := range perFamily {
			fams = append(fams, f)
		}
		sort.Strings(fams)
		for _, f := range fams {
			r.Add("cases_"+f, perFamily[f])
		}
	})
}
