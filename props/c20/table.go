package main

// The oracle's endpoint table. It is written from the OSM API v0.6
// documentation (https://wiki.openstreetmap.org/wiki/API_v0.6, sections
// "Elements", "Map", "Changesets", "Map Notes API", "Methods for user data")
// and NOT from the library source:
//
//	GET /api/0.6/[node|way|relation]/#id
//	GET /api/0.6/[node|way|relation]/#id/#version
//	GET /api/0.6/[node|way|relation]/#id/history
//	GET /api/0.6/[nodes|ways|relations]?[nodes|ways|relations]=#id,#id,...
//	GET /api/0.6/node/#id/ways
//	GET /api/0.6/[node|way|relation]/#id/relations
//	GET /api/0.6/[way|relation]/#id/full
//	GET /api/0.6/map?bbox=left,bottom,right,top
//	GET /api/0.6/changeset/#id?include_discussion=true
//	GET /api/0.6/changeset/#id/download
//	GET /api/0.6/notes/#id
//	GET /api/0.6/notes?bbox=left,bottom,right,top   (+ limit=1..10000, closed=days)
//	GET /api/0.6/notes/search?q=term                (+ limit, closed)
//	GET /api/0.6/user/#id
//
// The "at" parameter is not part of API v0.6; it is the extension of osm.fyi
// that the library documents for its At option ("adds an
// at=2006-01-02T15:04:05Z parameter"). The table accepts any RFC 3339 value
// that denotes the instant passed to At, cut to whole seconds.

import (
	"fmt"
	"math"
	"net/url"
	"sort"
	"strconv"
	"strings"
	"time"
)

type argKind int

const (
	argID argKind = iota
	argIDVersion
	argIDList
	argBounds
	argQuery
)

type optKind int

const (
	optNone optKind = iota
	optFeature
	optNotes
)

type resKind int

const (
	resOne resKind = iota
	resMany
	resOSM
	resChange
)

type endpoint struct {
	Call   string // exported name in package osmapi
	Family string // used in violation keys
	Path   string // documented path template under the API root
	Query  string // documented fixed query template ("" = none)
	Args   argKind
	Opts   optKind
	Res    resKind
	Kind   string // element kind returned (resOne/resMany)
}

var endpoints = []endpoint{
	{"Node", "node", "/node/{id}", "", argID, optFeature, resOne, "node"},
	{"NodeVersion", "node-version", "/node/{id}/{version}", "", argIDVersion, optNone, resOne, "node"},
	{"NodeHistory", "node-history", "/node/{id}/history", "", argID, optNone, resMany, "node"},
	{"Nodes", "nodes", "/nodes", "nodes={ids}", argIDList, optFeature, resMany, "node"},
	{"NodeWays", "node-ways", "/node/{id}/ways", "", argID, optFeature, resMany, "way"},
	{"NodeRelations", "node-relations", "/node/{id}/relations", "", argID, optFeature, resMany, "relation"},

	{"Way", "way", "/way/{id}", "", argID, optFeature, resOne, "way"},
	{"WayVersion", "way-version", "/way/{id}/{version}", "", argIDVersion, optNone, resOne, "way"},
	{"WayHistory", "way-history", "/way/{id}/history", "", argID, optNone, resMany, "way"},
	{"Ways", "ways", "/ways", "ways={ids}", argIDList, optFeature, resMany, "way"},
	{"WayRelations", "way-relations", "/way/{id}/relations", "", argID, optFeature, resMany, "relation"},
	{"WayFull", "way-full", "/way/{id}/full", "", argID, optFeature, resOSM, ""},

	{"Relation", "relation", "/relation/{id}", "", argID, optFeature, resOne, "relation"},
	{"RelationVersion", "relation-version", "/relation/{id}/{version}", "", argIDVersion, optNone, resOne, "relation"},
	{"RelationHistory", "relation-history", "/relation/{id}/history", "", argID, optNone, resMany, "relation"},
	{"Relations", "relations", "/relations", "relations={ids}", argIDList, optFeature, resMany, "relation"},
	{"RelationRelations", "relation-relations", "/relation/{id}/relations", "", argID, optFeature, resMany, "relation"},
	{"RelationFull", "relation-full", "/relation/{id}/full", "", argID, optFeature, resOSM, ""},

	{"Map", "map", "/map", "bbox={bbox}", argBounds, optFeature, resOSM, ""},

	{"Changeset", "changeset", "/changeset/{id}", "", argID, optNone, resOne, "changeset"},
	{"ChangesetWithDiscussion", "changeset-discussion", "/changeset/{id}", "include_discussion=true", argID, optNone, resOne, "changeset"},
	{"ChangesetDownload", "changeset-download", "/changeset/{id}/download", "", argID, optNone, resChange, ""},

	{"Note", "note", "/notes/{id}", "", argID, optNone, resOne, "note"},
	{"Notes", "notes", "/notes", "bbox={bbox}", argBounds, optNotes, resMany, "note"},
	{"NotesSearch", "notes-search", "/notes/search", "q={q}", argQuery, optNotes, resMany, "note"},

	{"User", "user", "/user/{id}", "", argID, optNone, resOne, "user"},
}

func endpointByCall(name string) *endpoint {
	for i := range endpoints {
		if endpoints[i].Call == name {
			return &endpoints[i]
		}
	}
	return nil
}

// ---- alphabets with hard-coded expectations ----

// defaultBase is the API root the library documents for a Datasource whose
// BaseURL is not set.
const defaultBase = "http://api.openstreetmap.org/api/0.6"

// bases[i] = value put into Datasource.BaseURL ("" = not configured).
var bases = []string{
	"",
	"http://osm.example.test:8080/mirror/v1/api/0.6",
	"https://dev.example.test/api/0.6",
	// percent-escapes in the configured base: it must reach the wire as given
	// (and must never be used as a format string)
	"http://osm.example.test/osm%20mirror/a%2Fb/api/0.6",
	// edge pass only (index >= nFullBases): an IPv6 literal with a port and no
	// path at all (the documented paths then start at the root)
	"http://[2001:db8::1]:3000",
}

// nFullBases: bases[:nFullBases] go through the full product, the rest through
// the edge pass (reduced product) in the quick tier.
const nFullBases = 4

type boundsVal struct{ MinLon, MinLat, MaxLon, MaxLat float64 }

var boundsAlphabet = []boundsVal{
	{1, 2, 3, 4},
	{-0.65094, 51.312159, 0.374908, 51.669148},
	// 7 decimals: the resolution at which OSM itself stores coordinates.
	{-122.4316406, 37.7749295, -122.4194155, 37.8044812},
	// thorough only
	{-180, -90, 180, 90},
	{-122.431640625, 37.78808138412046, -122.4261474609375, 37.792422407988305}, // a z16 tile
	// boundary boxes (edge pass in quick, full product in thorough). The box is
	// the caller's: every bound goes to its documented position as given.
	{0, 0, 0, 0},                     // every coordinate zero
	{-0.5, -0.25, 0, 0},              // zero as the upper bounds only
	{0, 0, 0.000001, 0.000001},       // zero as the lower bounds, one step of the 6th decimal
	{170, -10, -170, 10},             // across the antimeridian: MinLon > MaxLon
	{179.999999, 89.999999, 180, 90}, // the documented limits and one step below
}

// edgeBounds are the indexes of boundsAlphabet the quick tier runs in the edge
// pass (the whole-world box was thorough-only before).
var edgeBounds = []int{3, 5, 6, 7, 8, 9}

type atVal struct {
	T    time.Time
	UTC  string // the instant, whole seconds, as the documentation writes it
	Note string
}

var atAlphabet = []atVal{
	{time.Date(2016, 1, 1, 0, 0, 0, 0, time.UTC), "2016-01-01T00:00:00Z", "utc"},
	{time.Date(2012, 6, 15, 23, 30, 45, 987654321, time.FixedZone("", -7*3600)), "2012-06-16T06:30:45Z", "zone -07:00 with nanoseconds"},
	{time.Date(2020, 2, 29, 0, 0, 0, 0, time.FixedZone("", 5*3600+1800)), "2020-02-28T18:30:00Z", "zone +05:30"},
	// boundary instants (index >= nFullAts: edge pass in quick, full product in
	// thorough). Years outside 0001..9999 have no RFC 3339 spelling: not enumerated.
	{time.Time{}, "0001-01-01T00:00:00Z", "the zero time.Time"},
	{time.Unix(0, 0), "1970-01-01T00:00:00Z", "unix 0, local zone of the process"},
	{time.Date(1969, 12, 31, 23, 59, 59, 500000000, time.UTC), "1969-12-31T23:59:59Z", "before 1970 with half a second (cut, not rounded towards 1970)"},
	{time.Date(2300, 1, 1, 12, 0, 0, 0, time.UTC), "2300-01-01T12:00:00Z", "after 2262: outside the int64 nanosecond range"},
	{time.Date(9999, 12, 31, 23, 59, 59, 999999999, time.UTC), "9999-12-31T23:59:59Z", "last second of the last 4-digit year"},
	{time.Date(1883, 11, 18, 12, 0, 0, 0, time.FixedZone("LMT", -(4*3600+56*60+2))), "1883-11-18T16:56:02Z", "zone offset with seconds (-04:56:02)"},
}

const nFullAts = 3

// queryAlphabet[:nFullQueries] go through the full product in both tiers, the
// rest through the edge pass in quick and the full product in thorough.
var queryAlphabet = []string{"asdf", "", "a b&c=d/\u00e9?#+%25",
	" ",                             // whitespace only
	"\t\r\n\x00;",                   // control characters, NUL, the old parameter separator
	"%zz",                           // looks like a broken percent-escape
	"x&limit=5&closed=0",            // looks like the documented options
	"\u65e5\u672c\u8a9e \U0001F600", // 3- and 4-byte UTF-8
	"\xff\xfe\x80",                  // not UTF-8 at all: a Go string is bytes
	strings.Repeat("long query ", 500),
}

const nFullQueries = 3

// ---- expectation for one case ----

type wantURL struct {
	Scheme, Host, Path string
	Params             map[string][]string // exact string parameters
	BBox               *boundsVal          // numeric comparison
	IDs                *[]int64            // multiset comparison
	IDsParam           string
	At                 *atVal
	// Repeat[k] = n > 1: the same option with the same value was passed n times.
	// The documentation does not say whether the parameter is then sent once or
	// n times; both are accepted (1..n occurrences, every one the given value).
	Repeat map[string]int
}

// optionsInvalid: the documentation of Limit says valid values are [1,10000].
func optionsInvalid(c *Case) bool {
	for _, o := range c.Opts {
		if o.Kind == "limit" && (o.N < 1 || o.N > 10000) {
			return true
		}
	}
	return false
}

func expectURL(e *endpoint, c *Case) wantURL {
	base := bases[c.Base]
	if base == "" {
		base = defaultBase
	}
	bu, err := url.Parse(base)
	if err != nil {
		panic(err)
	}
	p := strings.ReplaceAll(e.Path, "{id}", strconv.FormatInt(c.ID, 10))
	p = strings.ReplaceAll(p, "{version}", strconv.Itoa(c.Version))
	w := wantURL{Scheme: bu.Scheme, Host: bu.Host, Path: bu.EscapedPath() + p, Params: map[string][]string{}}
	if e.Query != "" {
		kv := strings.SplitN(e.Query, "=", 2)
		switch kv[1] {
		case "{ids}":
			ids := append([]int64{}, c.IDs...)
			w.IDs = &ids
			w.IDsParam = kv[0]
		case "{bbox}":
			b := boundsAlphabet[c.Bounds]
			w.BBox = &b
		case "{q}":
			w.Params[kv[0]] = []string{c.query()}
		default:
			w.Params[kv[0]] = []string{kv[1]}
		}
	}
	seen := map[Opt]int{}
	for _, o := range c.Opts {
		seen[o]++
		if seen[o] > 1 {
			// enumerated only with identical values (see optShapes / edgeOptShapes)
			if w.Repeat == nil {
				w.Repeat = map[string]int{}
			}
			k := o.Kind
			w.Repeat[k] = seen[o]
			continue
		}
		switch o.Kind {
		case "at":
			a := atAlphabet[o.N]
			w.At = &a
		case "limit":
			w.Params["limit"] = append(w.Params["limit"], strconv.Itoa(o.N))
		case "closed":
			w.Params["closed"] = append(w.Params["closed"], strconv.Itoa(o.N))
		}
	}
	return w
}

// dedupRepeat reduces got to one value when it is 2..n copies of one value and
// the option was passed n times with that value.
func dedupRepeat(got []string, n int) []string {
	if n < 2 || len(got) < 2 || len(got) > n {
		return got
	}
	for _, g := range got[1:] {
		if g != got[0] {
			return got
		}
	}
	return got[:1]
}

type diff struct{ clause, msg string }

// compareURL parses the URL the library sent and compares it with the table.
func compareURL(raw string, w wantURL) []diff {
	var ds []diff
	u, err := url.Parse(raw)
	if err != nil {
		return []diff{{"url", fmt.Sprintf("unparsable url %q: %v", raw, err)}}
	}
	if u.Scheme != w.Scheme || u.Host != w.Host {
		ds = append(ds, diff{"url", fmt.Sprintf("sent to %s://%s, configured base is %s://%s", u.Scheme, u.Host, w.Scheme, w.Host)})
	}
	if u.EscapedPath() != w.Path {
		ds = append(ds, diff{"url", fmt.Sprintf("path %q, documented %q", u.EscapedPath(), w.Path)})
	}
	if u.Fragment != "" || u.User != nil {
		ds = append(ds, diff{"url", fmt.Sprintf("url %q has fragment/userinfo", raw)})
	}
	q, err := url.ParseQuery(u.RawQuery)
	if err != nil {
		return append(ds, diff{"url", fmt.Sprintf("unparsable query %q: %v", u.RawQuery, err)})
	}
	seen := map[string]bool{}
	for k, want := range w.Params {
		seen[k] = true
		got := dedupRepeat(q[k], w.Repeat[k])
		if !sameStrings(got, want) {
			ds = append(ds, diff{"url", fmt.Sprintf("parameter %s=%q, documented %q", k, got, want)})
		}
	}
	if w.IDs != nil {
		seen[w.IDsParam] = true
		got, ok := q[w.IDsParam]
		if !ok || len(got) != 1 {
			ds = append(ds, diff{"url", fmt.Sprintf("parameter %s=%q, want one comma separated id list", w.IDsParam, got)})
		} else {
			var ids []int64
			bad := false
			if got[0] != "" {
				for _, s := range strings.Split(got[0], ",") {
					v, err := strconv.ParseInt(s, 10, 64)
					if err != nil {
						bad = true
						break
					}
					ids = append(ids, v)
				}
			}
			want := append([]int64{}, (*w.IDs)...)
			sort.Slice(ids, func(i, j int) bool { return ids[i] < ids[j] })
			sort.Slice(want, func(i, j int) bool { return want[i] < want[j] })
			if bad || fmt.Sprint(ids) != fmt.Sprint(want) {
				ds = append(ds, diff{"url", fmt.Sprintf("parameter %s=%q, want the ids %v", w.IDsParam, got[0], *w.IDs)})
			}
		}
	}
	if w.BBox != nil {
		seen["bbox"] = true
		got, ok := q["bbox"]
		want := []float64{w.BBox.MinLon, w.BBox.MinLat, w.BBox.MaxLon, w.BBox.MaxLat}
		parts := []string{}
		if ok && len(got) == 1 {
			parts = strings.Split(got[0], ",")
		}
		if len(parts) != 4 {
			ds = append(ds, diff{"url", fmt.Sprintf("parameter bbox=%q, want left,bottom,right,top = %v", got, want)})
		} else {
			worst := 0.0
			for i, s := range parts {
				v, err := strconv.ParseFloat(s, 64)
				if err != nil || math.IsNaN(v) {
					worst = math.Inf(1)
					break
				}
				worst = math.Max(worst, math.Abs(v-want[i]))
			}
			switch {
			case worst == 0:
			case worst <= 5.0000001e-7:
				// the value is the argument rounded to 6 decimals (0.1 m);
				// OSM coordinates have 7
				ds = append(ds, diff{"url-precision", fmt.Sprintf("bbox=%q is not the argument %v (off by %.1e degrees: rounded to 6 decimals)", got[0], want, worst)})
			default:
				ds = append(ds, diff{"url", fmt.Sprintf("parameter bbox=%q, want left,bottom,right,top = %v", got[0], want)})
			}
		}
	}
	if w.At != nil {
		seen["at"] = true
		got := dedupRepeat(q["at"], w.Repeat["at"])
		ok := false
		if len(got) == 1 {
			if t, err := time.Parse(time.RFC3339, got[0]); err == nil {
				wt, _ := time.Parse(time.RFC3339, w.At.UTC)
				ok = t.Equal(wt)
			}
		}
		if !ok {
			ds = append(ds, diff{"url", fmt.Sprintf("parameter at=%q, want the instant %s (At(%s))", got, w.At.UTC, w.At.T.Format(time.RFC3339Nano))})
		}
	}
	extra := []string{}
	for k := range q {
		if !seen[k] {
			extra = append(extra, k)
		}
	}
	sort.Strings(extra)
	if len(extra) > 0 {
		ds = append(ds, diff{"url", fmt.Sprintf("undocumented parameters %v in %q", extra, raw)})
	}
	return ds
}

func sameStrings(a, b []string) bool {
	if len(a) != len(b) {
		return false
	}
	for i := range a {
		if a[i] != b[i] {
			return false
		}
	}
	return true
}
