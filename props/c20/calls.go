package main

// Calling the real code (public API of github.com/paulmach/osm/osmapi) and
// reducing its results to comparable outcomes.

import (
	"context"
	"fmt"

	"github.com/paulmach/osm"
	"github.com/paulmach/osm/osmapi"
)

type outcome struct {
	Elems  []string // canonical element identities
	HasPtr bool     // a non-nil single element / document was returned
	Err    error
	Panic  string // non-empty when the call panicked
}

func nodeFP(n *osm.Node) string         { return fmt.Sprintf("node/%d/v%d", n.ID, n.Version) }
func wayFP(w *osm.Way) string           { return fmt.Sprintf("way/%d/v%d", w.ID, w.Version) }
func relationFP(r *osm.Relation) string { return fmt.Sprintf("relation/%d/v%d", r.ID, r.Version) }
func changesetFP(c *osm.Changeset) string {
	n := 0
	if c.Discussion != nil {
		n = len(c.Discussion.Comments)
	}
	return fmt.Sprintf("changeset/%d/c%d", c.ID, n)
}
func noteFP(n *osm.Note) string { return fmt.Sprintf("note/%d/c%d", n.ID, len(n.Comments)) }
func userFP(u *osm.User) string { return fmt.Sprintf("user/%d/%s", u.ID, u.Name) }

func osmFPs(prefix string, o *osm.OSM) []string {
	var out []string
	if o == nil {
		return nil
	}
	for _, n := range o.Nodes {
		out = append(out, prefix+nodeFP(n))
	}
	for _, w := range o.Ways {
		out = append(out, prefix+wayFP(w))
	}
	for _, r := range o.Relations {
		out = append(out, prefix+relationFP(r))
	}
	for _, c := range o.Changesets {
		out = append(out, prefix+changesetFP(c))
	}
	for _, n := range o.Notes {
		out = append(out, prefix+noteFP(n))
	}
	for _, u := range o.Users {
		out = append(out, prefix+userFP(u))
	}
	return out
}

func oneNode(n *osm.Node, err error) outcome {
	if n == nil {
		return outcome{Err: err}
	}
	return outcome{Elems: []string{nodeFP(n)}, HasPtr: true, Err: err}
}
func oneWay(w *osm.Way, err error) outcome {
	if w == nil {
		return outcome{Err: err}
	}
	return outcome{Elems: []string{wayFP(w)}, HasPtr: true, Err: err}
}
func oneRelation(r *osm.Relation, err error) outcome {
	if r == nil {
		return outcome{Err: err}
	}
	return outcome{Elems: []string{relationFP(r)}, HasPtr: true, Err: err}
}
func oneChangeset(c *osm.Changeset, err error) outcome {
	if c == nil {
		return outcome{Err: err}
	}
	return outcome{Elems: []string{changesetFP(c)}, HasPtr: true, Err: err}
}
func oneNote(n *osm.Note, err error) outcome {
	if n == nil {
		return outcome{Err: err}
	}
	return outcome{Elems: []string{noteFP(n)}, HasPtr: true, Err: err}
}
func oneUser(u *osm.User, err error) outcome {
	if u == nil {
		return outcome{Err: err}
	}
	return outcome{Elems: []string{userFP(u)}, HasPtr: true, Err: err}
}
func manyNodes(ns osm.Nodes, err error) outcome {
	o := outcome{Err: err}
	for _, n := range ns {
		o.Elems = append(o.Elems, nodeFP(n))
	}
	return o
}
func manyWays(ws osm.Ways, err error) outcome {
	o := outcome{Err: err}
	for _, w := range ws {
		o.Elems = append(o.Elems, wayFP(w))
	}
	return o
}
func manyRelations(rs osm.Relations, err error) outcome {
	o := outcome{Err: err}
	for _, r := range rs {
		o.Elems = append(o.Elems, relationFP(r))
	}
	return o
}
func manyNotes(ns osm.Notes, err error) outcome {
	o := outcome{Err: err}
	for _, n := range ns {
		o.Elems = append(o.Elems, noteFP(n))
	}
	return o
}
func wholeOSM(o *osm.OSM, err error) outcome {
	return outcome{Elems: osmFPs("", o), HasPtr: o != nil, Err: err}
}
func wholeChange(c *osm.Change, err error) outcome {
	out := outcome{HasPtr: c != nil, Err: err}
	if c != nil {
		out.Elems = append(out.Elems, osmFPs("create:", c.Create)...)
		out.Elems = append(out.Elems, osmFPs("modify:", c.Modify)...)
		out.Elems = append(out.Elems, osmFPs("delete:", c.Delete)...)
	}
	return out
}

type callArgs struct {
	ctx    context.Context
	c      *Case
	fo     []osmapi.FeatureOption
	no     []osmapi.NotesOption
	bounds *osm.Bounds
}

func nodeIDs(v []int64) []osm.NodeID {
	if v == nil {
		return nil // a nil id list reaches the library as nil
	}
	out := make([]osm.NodeID, len(v))
	for i, x := range v {
		out[i] = osm.NodeID(x)
	}
	return out
}
func wayIDs(v []int64) []osm.WayID {
	if v == nil {
		return nil // a nil id list reaches the library as nil
	}
	out := make([]osm.WayID, len(v))
	for i, x := range v {
		out[i] = osm.WayID(x)
	}
	return out
}
func relationIDs(v []int64) []osm.RelationID {
	if v == nil {
		return nil // a nil id list reaches the library as nil
	}
	out := make([]osm.RelationID, len(v))
	for i, x := range v {
		out[i] = osm.RelationID(x)
	}
	return out
}

type impl struct {
	method func(ds *osmapi.Datasource, a callArgs) outcome
	pkg    func(a callArgs) outcome
}

var impls = map[string]impl{
	"Node": {
		func(ds *osmapi.Datasource, a callArgs) outcome {
			return oneNode(ds.Node(a.ctx, osm.NodeID(a.c.ID), a.fo...))
		},
		func(a callArgs) outcome { return oneNode(osmapi.Node(a.ctx, osm.NodeID(a.c.ID), a.fo...)) },
	},
	"NodeVersion": {
		func(ds *osmapi.Datasource, a callArgs) outcome {
			return oneNode(ds.NodeVersion(a.ctx, osm.NodeID(a.c.ID), a.c.Version))
		},
		func(a callArgs) outcome { return oneNode(osmapi.NodeVersion(a.ctx, osm.NodeID(a.c.ID), a.c.Version)) },
	},
	"NodeHistory": {
		func(ds *osmapi.Datasource, a callArgs) outcome {
			return manyNodes(ds.NodeHistory(a.ctx, osm.NodeID(a.c.ID)))
		},
		func(a callArgs) outcome { return manyNodes(osmapi.NodeHistory(a.ctx, osm.NodeID(a.c.ID))) },
	},
	"Nodes": {
		func(ds *osmapi.Datasource, a callArgs) outcome {
			return manyNodes(ds.Nodes(a.ctx, nodeIDs(a.c.IDs), a.fo...))
		},
		func(a callArgs) outcome { return manyNodes(osmapi.Nodes(a.ctx, nodeIDs(a.c.IDs), a.fo...)) },
	},
	"NodeWays": {
		func(ds *osmapi.Datasource, a callArgs) outcome {
			return manyWays(ds.NodeWays(a.ctx, osm.NodeID(a.c.ID), a.fo...))
		},
		func(a callArgs) outcome { return manyWays(osmapi.NodeWays(a.ctx, osm.NodeID(a.c.ID), a.fo...)) },
	},
	"NodeRelations": {
		func(ds *osmapi.Datasource, a callArgs) outcome {
			return manyRelations(ds.NodeRelations(a.ctx, osm.NodeID(a.c.ID), a.fo...))
		},
		func(a callArgs) outcome {
			return manyRelations(osmapi.NodeRelations(a.ctx, osm.NodeID(a.c.ID), a.fo...))
		},
	},

	"Way": {
		func(ds *osmapi.Datasource, a callArgs) outcome {
			return oneWay(ds.Way(a.ctx, osm.WayID(a.c.ID), a.fo...))
		},
		func(a callArgs) outcome { return oneWay(osmapi.Way(a.ctx, osm.WayID(a.c.ID), a.fo...)) },
	},
	"WayVersion": {
		func(ds *osmapi.Datasource, a callArgs) outcome {
			return oneWay(ds.WayVersion(a.ctx, osm.WayID(a.c.ID), a.c.Version))
		},
		func(a callArgs) outcome { return oneWay(osmapi.WayVersion(a.ctx, osm.WayID(a.c.ID), a.c.Version)) },
	},
	"WayHistory": {
		func(ds *osmapi.Datasource, a callArgs) outcome {
			return manyWays(ds.WayHistory(a.ctx, osm.WayID(a.c.ID)))
		},
		func(a callArgs) outcome { return manyWays(osmapi.WayHistory(a.ctx, osm.WayID(a.c.ID))) },
	},
	"Ways": {
		func(ds *osmapi.Datasource, a callArgs) outcome {
			return manyWays(ds.Ways(a.ctx, wayIDs(a.c.IDs), a.fo...))
		},
		func(a callArgs) outcome { return manyWays(osmapi.Ways(a.ctx, wayIDs(a.c.IDs), a.fo...)) },
	},
	"WayRelations": {
		func(ds *osmapi.Datasource, a callArgs) outcome {
			return manyRelations(ds.WayRelations(a.ctx, osm.WayID(a.c.ID), a.fo...))
		},
		func(a callArgs) outcome {
			return manyRelations(osmapi.WayRelations(a.ctx, osm.WayID(a.c.ID), a.fo...))
		},
	},
	"WayFull": {
		func(ds *osmapi.Datasource, a callArgs) outcome {
			return wholeOSM(ds.WayFull(a.ctx, osm.WayID(a.c.ID), a.fo...))
		},
		func(a callArgs) outcome { return wholeOSM(osmapi.WayFull(a.ctx, osm.WayID(a.c.ID), a.fo...)) },
	},

	"Relation": {
		func(ds *osmapi.Datasource, a callArgs) outcome {
			return oneRelation(ds.Relation(a.ctx, osm.RelationID(a.c.ID), a.fo...))
		},
		func(a callArgs) outcome { return oneRelation(osmapi.Relation(a.ctx, osm.RelationID(a.c.ID), a.fo...)) },
	},
	"RelationVersion": {
		func(ds *osmapi.Datasource, a callArgs) outcome {
			return oneRelation(ds.RelationVersion(a.ctx, osm.RelationID(a.c.ID), a.c.Version))
		},
		func(a callArgs) outcome {
			return oneRelation(osmapi.RelationVersion(a.ctx, osm.RelationID(a.c.ID), a.c.Version))
		},
	},
	"RelationHistory": {
		func(ds *osmapi.Datasource, a callArgs) outcome {
			return manyRelations(ds.RelationHistory(a.ctx, osm.RelationID(a.c.ID)))
		},
		func(a callArgs) outcome { return manyRelations(osmapi.RelationHistory(a.ctx, osm.RelationID(a.c.ID))) },
	},
	"Relations": {
		func(ds *osmapi.Datasource, a callArgs) outcome {
			return manyRelations(ds.Relations(a.ctx, relationIDs(a.c.IDs), a.fo...))
		},
		func(a callArgs) outcome { return manyRelations(osmapi.Relations(a.ctx, relationIDs(a.c.IDs), a.fo...)) },
	},
	"RelationRelations": {
		func(ds *osmapi.Datasource, a callArgs) outcome {
			return manyRelations(ds.RelationRelations(a.ctx, osm.RelationID(a.c.ID), a.fo...))
		},
		func(a callArgs) outcome {
			return manyRelations(osmapi.RelationRelations(a.ctx, osm.RelationID(a.c.ID), a.fo...))
		},
	},
	"RelationFull": {
		func(ds *osmapi.Datasource, a callArgs) outcome {
			return wholeOSM(ds.RelationFull(a.ctx, osm.RelationID(a.c.ID), a.fo...))
		},
		func(a callArgs) outcome { return wholeOSM(osmapi.RelationFull(a.ctx, osm.RelationID(a.c.ID), a.fo...)) },
	},

	"Map": {
		func(ds *osmapi.Datasource, a callArgs) outcome { return wholeOSM(ds.Map(a.ctx, a.bounds, a.fo...)) },
		func(a callArgs) outcome { return wholeOSM(osmapi.Map(a.ctx, a.bounds, a.fo...)) },
	},

	"Changeset": {
		func(ds *osmapi.Datasource, a callArgs) outcome {
			return oneChangeset(ds.Changeset(a.ctx, osm.ChangesetID(a.c.ID)))
		},
		func(a callArgs) outcome { return oneChangeset(osmapi.Changeset(a.ctx, osm.ChangesetID(a.c.ID))) },
	},
	"ChangesetWithDiscussion": {
		func(ds *osmapi.Datasource, a callArgs) outcome {
			return oneChangeset(ds.ChangesetWithDiscussion(a.ctx, osm.ChangesetID(a.c.ID)))
		},
		func(a callArgs) outcome {
			return oneChangeset(osmapi.ChangesetWithDiscussion(a.ctx, osm.ChangesetID(a.c.ID)))
		},
	},
	"ChangesetDownload": {
		func(ds *osmapi.Datasource, a callArgs) outcome {
			return wholeChange(ds.ChangesetDownload(a.ctx, osm.ChangesetID(a.c.ID)))
		},
		func(a callArgs) outcome { return wholeChange(osmapi.ChangesetDownload(a.ctx, osm.ChangesetID(a.c.ID))) },
	},

	"Note": {
		func(ds *osmapi.Datasource, a callArgs) outcome { return oneNote(ds.Note(a.ctx, osm.NoteID(a.c.ID))) },
		func(a callArgs) outcome { return oneNote(osmapi.Note(a.ctx, osm.NoteID(a.c.ID))) },
	},
	"Notes": {
		func(ds *osmapi.Datasource, a callArgs) outcome { return manyNotes(ds.Notes(a.ctx, a.bounds, a.no...)) },
		func(a callArgs) outcome { return manyNotes(osmapi.Notes(a.ctx, a.bounds, a.no...)) },
	},
	"NotesSearch": {
		func(ds *osmapi.Datasource, a callArgs) outcome {
			return manyNotes(ds.NotesSearch(a.ctx, a.c.query(), a.no...))
		},
		func(a callArgs) outcome { return manyNotes(osmapi.NotesSearch(a.ctx, a.c.query(), a.no...)) },
	},

	"User": {
		func(ds *osmapi.Datasource, a callArgs) outcome { return oneUser(ds.User(a.ctx, osm.UserID(a.c.ID))) },
		func(a callArgs) outcome { return oneUser(osmapi.User(a.ctx, osm.UserID(a.c.ID))) },
	},
}
