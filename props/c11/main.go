// Check C11: annotation reconstructs, for any time, the child versions that
// were current.
//
// Explicit-state search over edit histories. A state is an edit history
// (sequence of uploads) reached from an initial world; a transition is one
// more upload from a fixed alphabet (model.go). The search is exhaustive to
// the tier's depth and the oracle (oracle.go) is evaluated at EVERY state:
// annotate.Ways / annotate.Relations run on fresh copies of all parent
// versions with an osm.HistoryDatasource of the children, under every call
// variant (thresholds, ignore options, withheld child histories, child
// filters), and the result is compared with the ground truth kept by the
// edit-history simulator verif/gen/histsim, which is written from first
// principles and never calls the library.
package main

import (
	"context"
	"errors"
	"flag"
	"fmt"
	"math"
	"os"
	"runtime/debug"
	"runtime/pprof"
	"strings"
	"sync"
	"sync/atomic"
	"sort"
	"time"

	"github.com/paulmach/osm"
	"github.com/paulmach/osm/annotate"

	"verif/gen/histsim"
	"verif/kit"
)

const defaultThreshold = 30 * time.Minute // documented default of annotate.Threshold

// Case is what a replay file stores: a state and the call variant that failed.
type Case struct {
	Space   histsim.SpaceID `json:"space"`
	Ops     []Op            `json:"ops"`
	Trace   []string        `json:"trace"` // human-readable ops (informational)
	Variant Variant         `json:"variant"`
}

var (
	cpuProfile = flag.String("cpuprofile", "", "development: write a CPU profile")
	onlySpace  = flag.String("only", "", "development: only search spaces whose label contains this")
	countOnly  = flag.Bool("count", false, "development: count the states of each space without evaluating them")
)

func main() {
	debug.SetGCPercent(800) // allocation-heavy, small live heap
	kit.Main("C11", "model_checking", func(r *kit.Run) {
		r.Rule("explicit-state search: state = edit history (sequence of uploads) reached from the initial world {children v1, parent v1}; " +
			"transition = one upload from {touch X, touch X twice in one commit, delete X (fault if still referenced), parent edit to a menu list " +
			"(fault if it references a deleted child; undeletes a deleted parent), touch X + parent edit and delete X + parent edit in one upload " +
			"(pre-commit regime: child stamped threshold-before / same second / threshold-after the parent), parent delete, and in the spaces that say so " +
			"a foreign-changeset version of the same child stamped inside the grouping window just before a touch+edit upload (interloper) or a foreign " +
			"child-only touch stamped inside the skew of the previous upload (small gap)} x gap alphabet; " +
			"every sequence up to the tier depth is visited once (DFS, a tree: different sequences are different histories) and the oracle is " +
			"evaluated at every state: with default options and with the Threshold option (histories handed over newest-first) at every state, with " +
			"IgnoreInconsistency at every state that holds an inconsistency, and with a withheld child history (with and without IgnoreMissingChildren), " +
			"ChildFilter on pre-annotated parents and IgnoreInconsistency on consistent histories at every state of depth < tier depth. A state is non-trivial when annotation must discriminate: some child has a " +
			"later version between parent versions, two parent versions see different versions of one child, or an inconsistency is present; " +
			"fingerprint = (space, op sequence). Family window (props/c11/window.go): way versions stamped inside the skew of another upload - 5 slots 5 min apart, " +
			"each empty or holding a version of node 1 / node 2 / the way in the way's or a foreign changeset, <= 4 events, 1-3 way versions, default threshold / 1 min / IgnoreInconsistency / 0 / 24 h / 1 min + IgnoreInconsistency, way [1 2], [1 2 1], [1 1 1 2] and [2 1 2 1 2]; " +
			"judged by an interval oracle (success, carried version between the version current at the way's timestamp and the one current a threshold later, updates newer / ascending / not beyond the next way version, end state of ApplyUpdatesUpTo). " +
			"Boundary classes (exact oracle unless stated): families way2x (a child at 3 positions, children at 3 + 2 positions, a parent version without children; node versions at 0/0, on the equator and on the prime meridian), " +
			"rel3eq (node 7, way 7 and relation 7 as members of one relation, a member at 3 positions, no members; the child way's node list changes direction between versions - the Reverse flag of an update is not judged) and " +
			"rel3big (ids 2^32+7 for a node and a way, 2^40-1 for a relation, changesets from 2^32+100, versions from 65534); a pre-commit space without any skew, where Threshold(0) is inside the domain; commit-time spaces with whole-second, " +
			"well separated uploads in which some elements come without a commit time (all parent versions / all child versions / even / odd positions of every history) and spaces that start two uploads before osm.CommitInfoStart " +
			"(additionally: no commit time on the versions before that date); at every interior state (depth < tier depth) additionally: histories handed over unsorted, the parent versions handed over from the first deleted " +
			"version (else the second) on, the same call twice, a failing call followed by the judged one on the same parents, a call on all but the last parent version followed by the judged one on all of them (same objects), the documented defaults passed explicitly, Threshold(1 ns) and Threshold(max) in the commit-time regime, " +
			"child histories handed over without their first one / two versions (parents before that reference a child that is not there yet: NoVisibleChildError, or unannotated with the later versions as updates under IgnoreInconsistency), " +
			"Threshold combined with IgnoreInconsistency / IgnoreMissingChildren + a withheld history / ChildFilter, a ChildFilter that accepts everything, relation parents tagged type=multipolygon with outer / inner roles, " +
			"query times 1 ns before every upload instant and in the year 2500 (default options); and the empty list of parent versions (no error)")
		r.Assume("the ground truth is the simulator verif/gen/histsim (last version written by an upload committed at or before t), independent of /repo")
		r.Assume("pre-commit regime domain restriction (ground truth must be observable from timestamps): uploads are 2 h (> 2 x threshold) apart, or, in the " +
			"spaces that say so, 10 min apart with a same-upload skew of 1 min (timestamps still ascend with versions); same-second uploads write one element " +
			"each and never follow an upload that wrote a parent version; a new parent version does not reference a child deleted at most 30 min before; " +
			"same-upload skew <= threshold; one version per child per upload; one changeset per upload")
		r.Assume("pre-commit regime only: child versions stamped inside [next parent - threshold, next parent) may or may not be listed as updates (grouping window): " +
			"the oracle accepts any version-ordered prefix of them, and a deleted child version inside that window may or may not raise the 'deleted between' error; " +
			"in the commit-time regime the update lists are required to be exact for every threshold")
		r.Assume("osm.Way/Relation.ApplyUpdatesUpTo is part of the property (time-travel clause), not of the trusted base")
		r.Assume("elements without a commit time after 2012 are under the timestamp rule: the grouping window of the pre-commit regime is granted to every update list of those variants (their spaces keep uploads " +
			"more than a threshold apart, so the window only ever holds versions of the next parent's own upload); Threshold(max) is not applied where versions before osm.CommitInfoStart exist; " +
			"not judged: the Reverse flag of updates, Member.Orientation)")

		if r.ReplayPath != "" {
			var probe struct {
				Slots     []int `json:"slots"`
				NoParents bool  `json:"no_parents"`
				EmptyHist bool  `json:"empty_history"`
			}
			r.LoadReplay(&probe)
			if probe.EmptyHist {
				emptyHistories(r)
				return
			}
			if probe.NoParents {
				noParents(r)
				emptyHistories(r)
				return
			}
			if len(probe.Slots) > 0 {
				var wc windowCase
				r.LoadReplay(&wc)
				checkWindow(r, wc)
				return
			}
			var c Case
			r.LoadReplay(&c)
			replay(r, c)
			return
		}
		if *cpuProfile != "" {
			pf, err := os.Create(*cpuProfile)
			if err != nil {
				kit.Fatalf("%v", err)
			}
			pprof.StartCPUProfile(pf)
			defer pprof.StopCPUProfile()
		}
		var total, transitions int64
		for _, sp := range spaces(r.Quick()) {
			if *countOnly {
				r.Capped("development flag -count: nothing evaluated")
			}
			if *onlySpace != "" && !strings.Contains(sp.label(), *onlySpace) {
				r.Capped("development flag -only: space " + sp.label() + " skipped")
				continue
			}
			st, tr := search(r, sp)
			r.Set("states/"+sp.label(), st)
			total += st
			transitions += tr
		}
		if (*onlySpace == "" || *onlySpace == "window") && !*countOnly {
			windowFamily(r)
			noParents(r)
			emptyHistories(r)
		}
		r.Set("states", total)
		r.Set("transitions", transitions)
		r.Set("traces_validated_against_impl", total)
	})
}

// spaces lists the searched spaces of a tier.
func spaces(quick bool) []*Space {
	const h, m, ms = time.Hour, time.Minute, time.Millisecond
	// commit-time regime: gaps are "well separated" (1 h) and 100 ms (same
	// timestamp second, distinct commit instants).
	commit := func(fam string, depth int, touch2 bool, gaps ...time.Duration) *Space {
		return &Space{Space: histsim.Space{Fam: histsim.FamilyByName(fam), Regime: histsim.CommitTime, Gaps: gaps, Skews: []int{0}, Depth: depth, Touch2: touch2}, ExtraDepth: depth - 1}
	}
	// pre-commit regime: gaps are 2 h (> 2 x the largest threshold) and 0 (same
	// second, restricted by Space.next); same-upload children are stamped
	// skew x delta from their parent.
	pre := func(fam string, depth int, delta time.Duration, skews []int, gaps ...time.Duration) *Space {
		return &Space{Space: histsim.Space{Fam: histsim.FamilyByName(fam), Regime: histsim.PreCommit, Gaps: gaps, Delta: delta, Skews: skews, Depth: depth}, ExtraDepth: depth - 1}
	}
	odd := func(s *Space) *Space { s.FirstVersion, s.VersionStep = 2, 3; return s }
	// foreign edits inside the grouping window: the interloper transitions and a
	// small gap of delta/2 (a foreign child-only touch right after an upload)
	inter := func(s *Space) *Space { s.Interlopers = true; s.Gaps = append(s.Gaps, s.Delta/2); return s }
	all, outer := []int{-1, 0, 1}, []int{-1, 1}
	// boundary classes (audit): see the rule text
	zeros := func(s *Space) *Space { s.LocMode = histsim.LocZeros; return s }
	revways := func(s *Space) *Space { s.ReverseWays = true; return s }
	big := func(s *Space) *Space { s.FirstChangeset, s.FirstVersion, s.VersionStep = 1<<32+100, 65534, 1; return s }
	strip := func(s *Space) *Space { s.Strip = true; return s }
	// two uploads before osm.CommitInfoStart (2012-09-12 09:30:03), the third exactly at that instant, the others after it
	crossing := func(s *Space) *Space { s.Start = osm.CommitInfoStart.Add(-2 * time.Hour); return strip(s) }
	// timestamp-only histories written after osm.CommitInfoStart (data that carries no commit
	// times, e.g. fetched from the API): the regime follows from the absence of Committed, not
	// from the calendar
	late := func(s *Space) *Space { s.Start = time.Date(2014, 3, 1, 12, 0, 0, 0, time.UTC); return s }
	// a child deleted and created again inside one upload (one changeset)
	blink := func(s *Space) *Space { s.Blink = true; return s }
	if quick {
		return []*Space{
			// --- boundary classes
			late(pre("way2", 3, m, all, 2*h, 0)),
			late(inter(odd(pre("rel3", 2, 30*m, all, 2*h, 0)))),
			blink(commit("way2", 3, false, h)),
			blink(odd(commit("rel3", 2, false, h, 100*ms))),
			zeros(commit("way2x", 3, true, h, 100*ms)),
			zeros(pre("way2x", 3, m, all, 2*h, 0)),
			pre("way2", 3, 0, []int{0}, 2*h, 0), // no skew at all: Threshold(0) is inside the domain
			revways(odd(commit("rel3eq", 3, true, h, 100*ms))),
			revways(pre("rel3eq", 3, 30*m, outer, 2*h, 0)),
			big(commit("rel3big", 3, false, h)),
			big(pre("rel3big", 2, m, all, 2*h, 0)),
			strip(commit("way2", 3, true, h)),
			crossing(odd(commit("rel3", 3, true, h))),
			// --- the searched spaces proper
			commit("way2", 4, true, h, 100*ms),
			commit("way2r", 5, true, 100*ms),
			pre("way2", 4, m, all, 2*h, 0),
			odd(commit("rel3", 3, true, h, 100*ms)),
			inter(odd(pre("rel3", 3, 30*m, all, 2*h, 0))),
			// close uploads: 10 min is inside the default threshold and well outside the 1 min one
			inter(odd(pre("way2", 3, m, all, 2*h, 10*m, 0))),
		}
	}
	return []*Space{
		// --- boundary classes
		late(pre("way2", 4, m, all, 2*h, 0)),
		blink(commit("way2", 4, true, h, 100*ms)),
		blink(odd(commit("rel3", 3, false, h, 100*ms))),
		late(inter(pre("way2", 3, m, all, 2*h, 10*m, 0))),
		late(inter(odd(pre("rel3", 3, 30*m, all, 2*h, 0)))),
		zeros(commit("way2x", 4, true, h, 100*ms)),
		zeros(pre("way2x", 4, m, all, 2*h, 0)),
		inter(zeros(pre("way2x", 3, m, all, 2*h, 10*m, 0))),
		pre("way2", 4, 0, []int{0}, 2*h, 0),
		revways(odd(commit("rel3eq", 3, true, h, 100*ms, 10*m))),
		revways(commit("rel3eq", 4, false, 100*ms)),
		inter(revways(odd(pre("rel3eq", 3, 30*m, all, 2*h, 0)))),
		big(commit("rel3big", 3, true, h, 100*ms)),
		big(pre("rel3big", 3, m, all, 2*h, 0)),
		strip(commit("way2", 4, true, h)),
		strip(commit("way2x", 3, true, h)),
		crossing(commit("way2", 4, true, h)),
		crossing(odd(commit("rel3", 3, true, h))),
		crossing(revways(commit("rel3eq", 3, true, h))),
		// --- the searched spaces proper
		commit("way2", 5, true, 100*ms),
		commit("way2", 6, false, 100*ms),
		commit("way2r", 6, true, 100*ms),
		pre("way2", 5, m, outer, 2*h, 0),
		pre("way2", 4, m, all, 2*h, 10*m, 0),
		inter(pre("way2", 4, m, outer, 2*h, 0)),
		inter(pre("way2", 3, m, all, 2*h, 10*m, 0)),
		pre("way2", 5, 30*m, outer, 2*h),
		odd(commit("way3", 4, true, h, 100*ms)),
		odd(pre("way3", 4, m, all, 2*h, 0)),
		inter(odd(pre("way3", 3, m, all, 2*h, 0))),
		commit("rel3", 4, false, 100*ms),
		pre("rel3", 4, m, outer, 2*h, 0),
		odd(commit("rel4", 3, true, h, 100*ms, 10*m)),
		inter(odd(pre("rel4", 3, 30*m, all, 2*h, 0))),
	}
}

// When a variant is evaluated.
const (
	whenAlways       = iota // at every state
	whenInconsistent        // at every state whose ground truth holds an inconsistency, and at every interior state
	whenInterior            // at every state of depth <= Space.ExtraDepth in which the variant's child is referenced
)

// variants lists the call variants of a space.
func (s *Space) variants() []Variant {
	none := func(v Variant) Variant { v.Withhold, v.Filter = -1, -1; return v }
	vs := []Variant{none(Variant{Name: "default", Thr: defaultThreshold, KeepRefs: true})}
	midGap := false // a gap that separates the 1 min threshold from the default one
	for _, g := range s.Gaps {
		midGap = midGap || (g > time.Minute && g <= defaultThreshold)
	}
	if s.Regime == histsim.PreCommit || midGap {
		vs = append(vs, none(Variant{Name: "threshold-1m", Thr: time.Minute, SetThr: true, Reversed: true}))
	}
	if s.Regime == histsim.CommitTime {
		vs = append(vs, none(Variant{Name: "threshold-0", Thr: 0, SetThr: true, Reversed: true}))
		vs = append(vs, none(Variant{Name: "threshold-0+ignore-inconsistency", Thr: 0, SetThr: true, IgnInc: true, KeepRefs: true, When: whenInconsistent}))
	}
	vs = append(vs, none(Variant{Name: "ignore-inconsistency", Thr: defaultThreshold, IgnInc: true, When: whenInconsistent}))
	for x := range s.Fam.Children {
		n := s.Fam.Names[x]
		vs = append(vs,
			Variant{Name: "withhold-" + n, Thr: defaultThreshold, Withhold: x, Filter: -1, When: whenInterior},
			Variant{Name: "withhold-" + n + "+ignore-missing", Thr: defaultThreshold, Withhold: x, Filter: -1, IgnMiss: true, When: whenInterior},
			// the other ignore option does not cover a missing history
			Variant{Name: "withhold-" + n + "+ignore-inconsistency", Thr: defaultThreshold, Withhold: x, Filter: -1, IgnInc: true, When: whenInterior},
			Variant{Name: "filter-" + n, Thr: defaultThreshold, Withhold: -1, Filter: x, When: whenInterior},
			Variant{Name: "filter-" + n + "+location-only-refs", Thr: defaultThreshold, Withhold: -1, Filter: x, LocOnly: true, When: whenInterior},
		)
	}
	for x := range s.Fam.Children {
		vs = append(vs, Variant{Name: "then-filter-" + s.Fam.Names[x], Thr: defaultThreshold, Withhold: -1, Filter: -1, Refilter: x + 1, KeepRefs: true, When: whenInterior})
		vs = append(vs, Variant{Name: "then-one-filter-value-first-rejecting-then-accepting-" + s.Fam.Names[x], Thr: defaultThreshold, Withhold: -1, Filter: -1, Refilter: x + 1, Reuse: true, KeepRefs: true, When: whenInterior})
		vs = append(vs, Variant{Name: "then-changeset-and-location-spoiled-then-filter-" + s.Fam.Names[x], Thr: defaultThreshold, Withhold: -1, Filter: -1, Refilter: x + 1, Reuse: true, KeepVer: true, KeepRefs: true, When: whenInterior})
		vs = append(vs, Variant{Name: "then-sort-by-time-then-filter-" + s.Fam.Names[x], Thr: defaultThreshold, Withhold: -1, Filter: -1, Refilter: x + 1, ByTime: true, KeepRefs: true, When: whenInterior})
	}
	vs = append(vs, Variant{Name: "filter-none", Thr: defaultThreshold, Withhold: -1, Filter: -2, When: whenInterior})
	vs = append(vs, Variant{Name: "filter-all", Thr: defaultThreshold, Withhold: -1, Filter: -3, When: whenInterior})

	// Boundary classes, at every interior state (depth < tier depth).
	ext := func(v Variant) Variant { v.When = whenInterior; return none(v) }
	thr2, thr2name := time.Minute, "threshold-1m" // the non-default threshold of the regime
	if s.Regime == histsim.CommitTime {
		thr2, thr2name = 0, "threshold-0"
	}
	vs = append(vs,
		ext(Variant{Name: "shuffled-histories", Thr: defaultThreshold, Shuffled: true, KeepRefs: true}),
		ext(Variant{Name: "histories-from-one-element-list", Thr: defaultThreshold, AsList: true, KeepRefs: true}),
		ext(Variant{Name: thr2name + "+shuffled-histories+ignore-inconsistency", Thr: thr2, SetThr: true, IgnInc: true, Shuffled: true}),
		ext(Variant{Name: "parent-suffix", Thr: defaultThreshold, Suffix: true, KeepRefs: true}),
		ext(Variant{Name: "parent-suffix+ignore-inconsistency", Thr: defaultThreshold, Suffix: true, IgnInc: true}),
		ext(Variant{Name: "twice", Thr: defaultThreshold, Twice: true, Reversed: true, KeepRefs: true}),
		ext(Variant{Name: "twice+ignore-inconsistency", Thr: defaultThreshold, Twice: true, IgnInc: true}),
		ext(Variant{Name: "retry-after-error", Thr: defaultThreshold, Retry: true}),
		ext(Variant{Name: "annotated-before-the-last-version-existed", Thr: defaultThreshold, Prefix: true, KeepRefs: true}),
		ext(Variant{Name: "annotated-before-the-last-version-existed+ignore-inconsistency", Thr: defaultThreshold, Prefix: true, IgnInc: true}),
		ext(Variant{Name: "explicit-defaults", Thr: defaultThreshold, Explicit: true, KeepRefs: true}),
		ext(Variant{Name: "late-child-histories", Thr: defaultThreshold, Late: 1, KeepRefs: true}),
		ext(Variant{Name: "late-child-histories+ignore-inconsistency", Thr: defaultThreshold, Late: 1, IgnInc: true}),
		ext(Variant{Name: thr2name + "+later-child-histories+ignore-inconsistency", Thr: thr2, SetThr: true, Late: 2, IgnInc: true, Reversed: true}),
	)
	if s.Regime == histsim.CommitTime {
		// every threshold: in the commit-time regime the result does not depend on it
		vs = append(vs, ext(Variant{Name: "threshold-1ns", Thr: time.Nanosecond, SetThr: true}))
		if s.Start.IsZero() {
			// (not in the spaces that start before osm.CommitInfoStart: their first versions are
			// under the timestamp rule, where a threshold has to stay below half the distance
			// between uploads - and where the library's 2*threshold overflows for thresholds
			// above 2^62 ns, so that no child is found visible at all; reported, not judged)
			vs = append(vs,
				ext(Variant{Name: "threshold-max", Thr: time.Duration(math.MaxInt64), SetThr: true, KeepRefs: true}),
				ext(Variant{Name: "threshold-max+ignore-inconsistency", Thr: time.Duration(math.MaxInt64), SetThr: true, IgnInc: true}))
		}
	} else {
		vs = append(vs, ext(Variant{Name: thr2name + "+ignore-inconsistency", Thr: thr2, SetThr: true, IgnInc: true, KeepRefs: true}))
		if s.Delta == 0 {
			vs = append(vs,
				none(Variant{Name: "threshold-0", Thr: 0, SetThr: true, Reversed: true}),
				none(Variant{Name: "threshold-0+ignore-inconsistency", Thr: 0, SetThr: true, IgnInc: true, KeepRefs: true, When: whenInconsistent}))
		}
	}
	if !s.Fam.IsWay() {
		vs = append(vs,
			ext(Variant{Name: "multipolygon-parent", Thr: defaultThreshold, Polygon: true, KeepRefs: true}),
			ext(Variant{Name: "multipolygon-parent+ignore-inconsistency", Thr: defaultThreshold, Polygon: true, IgnInc: true}))
	}
	// Threshold combined with the other options
	for x := range s.Fam.Children {
		n := s.Fam.Names[x]
		vs = append(vs,
			Variant{Name: thr2name + "+withhold-" + n + "+ignore-missing", Thr: thr2, SetThr: true, Withhold: x, Filter: -1, IgnMiss: true, When: whenInterior},
			Variant{Name: thr2name + "+ignore-inconsistency+ignore-missing+withhold-" + n, Thr: thr2, SetThr: true, Withhold: x, Filter: -1, IgnMiss: true, IgnInc: true, KeepRefs: true, When: whenInterior},
			Variant{Name: thr2name + "+filter-" + n, Thr: thr2, SetThr: true, Withhold: -1, Filter: x, When: whenInterior},
		)
	}
	if s.Strip {
		modes := []string{"", "parents", "children", "even-positions", "odd-positions", "before-2012-09-12"}
		for mode := stripParents; mode <= stripBeforeStart; mode++ {
			if mode == stripBeforeStart && s.Start.IsZero() {
				continue
			}
			vs = append(vs,
				none(Variant{Name: "no-commit-time-on-" + modes[mode], Thr: defaultThreshold, Strip: mode, KeepRefs: true}),
				none(Variant{Name: "no-commit-time-on-" + modes[mode] + "+threshold-1m", Thr: time.Minute, SetThr: true, Strip: mode, Reversed: true}),
				none(Variant{Name: "no-commit-time-on-" + modes[mode] + "+ignore-inconsistency", Thr: defaultThreshold, IgnInc: true, Strip: mode, When: whenInconsistent}))
		}
	}
	out := vs[:0]
	for _, v := range vs {
		if s.Regime == histsim.PreCommit && v.Thr < s.Delta {
			continue // the skew of the histories would exceed the threshold: outside the domain
		}
		out = append(out, v)
	}
	return out
}

// preAnnotated says which references carry an annotation on input in the
// ChildFilter variants.
func preAnnotated(v Variant) func(i, j int) bool {
	switch {
	case v.Filter == -1:
		return nil
	case v.Filter == -2 || v.Filter == -3:
		return func(i, j int) bool { return (i+j)%2 == 1 }
	}
	return func(i, j int) bool { return i >= 1 }
}

// ---------------------------------------------------------------- search

type task struct {
	prefix  []Op
	recurse bool
}

type worker struct {
	r        *kit.Run
	sp       *Space
	vars     []Variant
	ops      []Op
	uploads  [][]histsim.Upload
	w        *histsim.World
	trace    []Op
	hashes   []uint64
	times    []time.Time
	timesExt []time.Time
	finds    []finding
	truth    *truth
	par      parents
	ds       [9]*osm.HistoryDatasource

	states, transitions, calls int64
	stop                       *int32
}

func newWorker(r *kit.Run, sp *Space, stop *int32) *worker {
	k := &worker{r: r, sp: sp, vars: sp.variants(), ops: sp.Ops(), stop: stop}
	for _, o := range k.ops {
		k.uploads = append(k.uploads, sp.Uploads(o))
	}
	return k
}

func mix(h, v uint64) uint64 {
	h ^= v + 0x9e3779b97f4a7c15 + (h << 6) + (h >> 2)
	h *= 0xff51afd7ed558ccd
	return h ^ (h >> 33)
}

func (s *Space) hash() uint64 {
	h := uint64(14695981039346656037)
	for _, b := range []byte(s.label()) {
		h = mix(h, uint64(b))
	}
	return h
}

// reset builds the initial world and applies a prefix; returns the histsim.Status.
func (k *worker) reset(prefix []Op) histsim.Status {
	k.w = histsim.New(k.sp.Config())
	u, st := k.sp.Initial()
	k.w.Apply(u)
	k.trace = k.trace[:0]
	k.hashes = append(k.hashes[:0], k.sp.hash())
	for _, o := range prefix {
		n, ok := k.sp.Next(st, o)
		if !ok {
			kit.Fatalf("prefix op %v not enabled", o)
		}
		st = n
		for _, u := range k.sp.Uploads(o) {
			k.w.Apply(u)
		}
		k.trace = append(k.trace, o)
		k.hashes = append(k.hashes, mix(k.hashes[len(k.hashes)-1], o.Code()))
	}
	return st
}

func (k *worker) dfs(st histsim.Status, depth int, recurse bool) {
	if atomic.LoadInt32(k.stop) != 0 {
		return
	}
	k.evalState()
	if !recurse || depth >= k.sp.Depth {
		return
	}
	for i, o := range k.ops {
		n, ok := k.sp.Next(st, o)
		if !ok {
			continue
		}
		for _, u := range k.uploads[i] {
			k.w.Apply(u)
		}
		k.trace = append(k.trace, o)
		k.hashes = append(k.hashes, mix(k.hashes[len(k.hashes)-1], o.Code()))
		k.transitions += int64(len(k.uploads[i]))
		k.dfs(n, depth+1, true)
		k.hashes = k.hashes[:len(k.hashes)-1]
		k.trace = k.trace[:len(k.trace)-1]
		for range k.uploads[i] {
			k.w.Undo()
		}
	}
}

// prefixes enumerates every enabled op sequence of length <= cut.
func (s *Space) tasks(cut int) []task {
	var out []task
	ops := s.Ops()
	_, st0 := s.Initial()
	var rec func(st histsim.Status, prefix []Op)
	rec = func(st histsim.Status, prefix []Op) {
		full := len(prefix) == cut
		out = append(out, task{prefix: append([]Op(nil), prefix...), recurse: full})
		if full {
			return
		}
		for _, o := range ops {
			if n, ok := s.Next(st, o); ok {
				rec(n, append(prefix, o))
			}
		}
	}
	rec(st0, nil)
	return out
}

func search(r *kit.Run, sp *Space) (states, transitions int64) {
	cut := 2
	if sp.Depth < cut {
		cut = sp.Depth
	}
	tasks := sp.tasks(cut)
	var stop int32
	var mu sync.Mutex
	var calls int64
	pool := sync.Pool{New: func() interface{} { return newWorker(r, sp, &stop) }}
	r.Par(len(tasks), func(i int) {
		if r.TimeUp() {
			if atomic.CompareAndSwapInt32(&stop, 0, 1) {
				r.Capped("time cap reached in space " + sp.label())
			}
			return
		}
		k := pool.Get().(*worker)
		st := k.reset(tasks[i].prefix)
		k.dfs(st, len(tasks[i].prefix), tasks[i].recurse)
		mu.Lock()
		if k.truth != nil && k.truth.stats != nil {
			st := k.truth.stats
			for name, v := range map[string]int64{
				"compared/a_child_references": st.refs, "compared/b_update_entries": st.updates, "compared/b_update_entries_in_grouping_window": st.windowUpdates,
				"compared/c_timetravel_queries": st.travels, "compared/c_timetravel_child_states": st.travelRefs,
				"compared/d_deleted_parent_versions": st.deletedParents,
				"compared/e_NoHistoryError":          st.errNoHistory, "compared/e_NoVisibleChildError": st.errNoVisible, "compared/e_deleted_between_error": st.errDeleted,
				"compared/e_unannotated_missing_child_refs": st.unannotatedMissing, "compared/e_unannotated_inconsistent_child_refs": st.unannotatedInconsistent,
				"compared/childfilter_untouched_refs":             st.filteredUntouched,
				"compared/e_unannotated_child_not_yet_there_refs": st.notYetThere, "compared/zero_coordinate_annotations_and_updates": st.zeroCoordinate,
				"seen/updates_with_reverse_flag_not_judged": st.reverseFlags,
			} {
				r.Add(name, v)
			}
			*st = stats{}
		}
		states += k.states
		transitions += k.transitions + int64(0)
		calls += k.calls
		mu.Unlock()
		k.states, k.transitions, k.calls = 0, 0, 0
		pool.Put(k)
	})
	// the uploads leading to the task prefixes (the last op of each prefix but the root)
	for _, t := range tasks {
		if n := len(t.prefix); n > 0 {
			transitions += int64(len(sp.Uploads(t.prefix[n-1])))
		}
	}
	r.Add("library_calls", calls)
	return states, transitions
}

// ---------------------------------------------------------------- evaluation

// farFuture is a query time beyond the range of UnixNano (year 2262).
var farFuture = time.Date(2500, 1, 1, 0, 0, 0, 0, time.UTC)

// queryTimes: every upload instant, the midpoints between them, one hour after
// the last upload; extended (the default variant at interior states): also the
// last nanosecond before every upload instant and a far-future instant.
func (k *worker) queryTimes(interior bool) []time.Time {
	ts := k.times[:0]
	if interior {
		ts = k.timesExt[:0]
	}
	n := k.w.Len()
	for i := 0; i < n; i++ {
		t := k.w.UploadTime(i)
		if i > 0 {
			p := k.w.UploadTime(i - 1)
			if t.Equal(p) {
				continue
			}
			ts = append(ts, p.Add(t.Sub(p)/2))
			if interior {
				ts = append(ts, t.Add(-time.Nanosecond))
			}
		}
		ts = append(ts, t)
	}
	ts = append(ts, k.w.UploadTime(n-1).Add(time.Hour))
	if interior {
		ts = append(ts, farFuture)
		k.timesExt = ts
		return ts
	}
	k.times = ts
	return ts
}

func (k *worker) evalState() {
	k.states++
	if k.states&1023 == 0 && k.r.TimeUp() {
		if atomic.CompareAndSwapInt32(k.stop, 0, 1) {
			k.r.Capped("time cap reached in space " + k.sp.label())
		}
	}
	if *countOnly {
		return
	}
	interior := len(k.trace) <= k.sp.ExtraDepth
	times := k.queryTimes(false)
	times0 := times // query times of the default variant
	if interior {
		times0 = k.queryTimes(true)
	}
	for i := range k.ds {
		k.ds[i] = nil
	}
	nontrivial, inconsistent := false, false
	var referenced [8]bool
	for vi := range k.vars {
		v := &k.vars[vi]
		switch v.When {
		case whenInconsistent:
			if !inconsistent && !interior {
				continue
			}
		case whenInterior:
			if !interior {
				continue
			}
			if x := v.Withhold; x >= 0 && !referenced[x] {
				continue
			}
			if x := v.Filter; x >= 0 && !referenced[x] {
				continue
			}
		}
		qt := times
		if vi == 0 {
			qt = times0
		}
		t := k.evalVariant(*v, qt)
		if vi == 0 {
			nontrivial = t.nontriv
			inconsistent = len(t.incs) > 0
			for i := range t.slots {
				for j := range t.slots[i] {
					referenced[t.slots[i][j].cx] = true
				}
			}
			if nontrivial && len(k.trace) >= 3 && k.r.WantSample() {
				k.r.Sample(k.describe(t))
			}
		}
	}
	k.r.Eval(1)
	if nontrivial {
		k.r.NontrivialHash(k.hashes[len(k.hashes)-1])
	}
}

func (k *worker) traceStrings() []string {
	out := make([]string, len(k.trace))
	for i, o := range k.trace {
		out[i] = o.String(&k.sp.Fam)
	}
	return out
}

func (k *worker) describe(t *truth) interface{} {
	type pv struct {
		Version int
		Visible bool
		Commit  string
		Refs    []string
	}
	var ps []pv
	for i, p := range t.pv {
		x := pv{Version: p.Version, Visible: p.Visible, Commit: p.Commit.UTC().Format(time.RFC3339Nano)}
		for _, s := range t.slots[i] {
			d := s.child.String()
			if s.cur != nil {
				d += fmt.Sprintf(" -> v%d", s.cur.Version)
			}
			if s.hi > s.lo {
				d += fmt.Sprintf(" (+%d later versions, %d inside the grouping window)", s.hi-s.lo, s.hi-s.mid)
			}
			x.Refs = append(x.Refs, d)
		}
		ps = append(ps, x)
	}
	return map[string]interface{}{"space": k.sp.label(), "ops": k.traceStrings(), "expected_parent_versions": ps, "inconsistencies": len(t.incs)}
}

const maxViolations = 200000 // the search stops once this many oracle mismatches were reported

func (k *worker) violation(v Variant, key, what string) {
	if k.r.Violations() >= maxViolations {
		if atomic.CompareAndSwapInt32(k.stop, 0, 1) {
			k.r.Capped(fmt.Sprintf("search stopped after %d violations", maxViolations))
		}
		return
	}
	c := Case{Space: k.sp.ID(), Ops: append([]Op(nil), k.trace...), Trace: k.traceStrings(), Variant: v}
	k.r.Violation(key, what+fmt.Sprintf(" | history: %v", c.Trace), c)
}

// buildParents renders the parent versions for the library: fresh objects.
func (k *worker) buildParents(t *truth) *parents {
	f := &k.sp.Fam
	p := &k.par
	p.ways, p.rels = nil, nil
	if f.IsWay() {
		p.ways = k.w.Ways(f.Parent.WayID())[t.from:]
	} else {
		p.rels = k.w.Relations(f.Parent.RelationID())[t.from:]
	}
	for i := range t.pv {
		if stripped(t.v.Strip, t.from+i, t.pv[i].Commit, true) {
			if f.IsWay() {
				p.ways[i].Committed = nil
			} else {
				p.rels[i].Committed = nil
			}
		}
		if t.v.Polygon && !f.IsWay() {
			p.rels[i].Tags = osm.Tags{{Key: "type", Value: "multipolygon"}}
			for j := range p.rels[i].Members {
				p.rels[i].Members[j].Role = []string{"outer", "inner", ""}[j%3]
			}
		}
		if !t.pv[i].Visible && t.v.KeepRefs {
			refs := expectedRefs(t.all, t.from+i, true)
			if f.IsWay() {
				p.ways[i].Nodes = make(osm.WayNodes, len(refs))
				for j, c := range refs {
					p.ways[i].Nodes[j].ID = c.NodeID()
				}
			} else {
				p.rels[i].Members = make(osm.Members, len(refs))
				for j, c := range refs {
					p.rels[i].Members[j].Type = c.Type()
					p.rels[i].Members[j].Ref = c.Ref()
				}
			}
		}
		for j := range t.slots[i] {
			if t.slots[i][j].pre != (ann{}) {
				p.set(i, j, t.slots[i][j].pre)
			} else if t.v.LocOnly && t.pv[i].Visible {
				p.set(i, j, ann{Lat: 55.5, Lon: 66.5})
			}
		}
	}
	return p
}

func (k *worker) evalVariant(v Variant, times []time.Time) *truth {
	f := &k.sp.Fam
	k.truth = computeTruth(k.truth, k.sp, k.w, v, preAnnotated(v))
	t := k.truth
	p := k.buildParents(t)

	// one datasource per state and withheld child (the library does not modify
	// the elements; it sorts the history slices, which are sorted already)
	ds := k.ds[v.Withhold+1]
	if v.Strip != stripNone || v.Reversed || v.Shuffled || v.Late > 0 || v.AsList {
		// a datasource of its own: commit times stripped (on copies of the elements),
		// leading versions dropped, histories reordered
		withhold := []osm.FeatureID{f.Parent}
		if v.Withhold >= 0 {
			withhold = append(withhold, f.Children[v.Withhold])
		}
		if v.Strip != stripNone {
			ds = stripCommitted(k.w.Datasource(withhold...), v.Strip)
		} else {
			ds = k.w.SharedDatasource(withhold...)
		}
		if v.Late > 0 {
			ds = late(ds, v.Late)
		}
		if v.Reversed {
			ds = reversed(ds)
		} else if v.Shuffled {
			ds = shuffled(ds)
		}
		if v.AsList {
			ds = asList(ds)
		}
	} else if ds == nil {
		if v.Withhold >= 0 {
			ds = k.w.SharedDatasource(f.Parent, f.Children[v.Withhold])
		} else {
			ds = k.w.SharedDatasource(f.Parent)
		}
		k.ds[v.Withhold+1] = ds
	}
	var opts []annotate.Option
	if v.SetThr {
		opts = append(opts, annotate.Threshold(v.Thr))
	}
	if v.IgnInc {
		opts = append(opts, annotate.IgnoreInconsistency(true))
	}
	if v.IgnMiss {
		opts = append(opts, annotate.IgnoreMissingChildren(true))
	}
	if v.Filter != -1 {
		var accept osm.FeatureID
		if v.Filter >= 0 {
			accept = f.Children[v.Filter]
		}
		all := v.Filter == -3
		opts = append(opts, annotate.ChildFilter(func(id osm.FeatureID) bool { return all || id == accept }))
	}
	if v.Explicit {
		opts = append(opts, annotate.Threshold(defaultThreshold), annotate.IgnoreInconsistency(false), annotate.IgnoreMissingChildren(false), annotate.ChildFilter(nil))
	}

	if v.Retry {
		// a call that fails when the first child is referenced (its result is not
		// judged), then the judged call on the same parents with the full datasource
		callLibrary(f.IsWay(), p, k.w.SharedDatasource(f.Parent, f.Children[0]), nil)
		k.calls++
	}
	if v.Twice {
		callLibrary(f.IsWay(), p, ds, opts)
		k.calls++
	}
	if v.Prefix {
		// the incremental workflow: the same parent objects were annotated when the
		// last version did not exist yet (its predecessor then got every later child
		// version as an update); what that call left behind must not survive
		q := &parents{}
		if len(p.ways) > 1 {
			q.ways = p.ways[:len(p.ways)-1]
		}
		if len(p.rels) > 1 {
			q.rels = p.rels[:len(p.rels)-1]
		}
		if len(q.ways)+len(q.rels) > 0 {
			callLibrary(f.IsWay(), q, ds, opts)
			k.calls++
		}
	}
	err, panicked := callLibrary(f.IsWay(), p, ds, opts)
	k.calls++

	pre := k.sp.keyPrefix() + "/" + v.class() + "/"
	if panicked != nil {
		k.violation(v, "panic/"+pre+"annotate", fmt.Sprintf("the library panicked: %v", panicked))
		return t
	}
	if err != nil {
		if ok, why := t.classifyError(err); !ok {
			k.violation(v, "error-type/"+pre+errClass(err), why)
		}
		return t
	}
	if t.hasDefinite() {
		for _, in := range t.incs {
			if in.definite {
				kind := []string{"no-history", "no-visible-child", "deleted-between-parent-versions"}[in.kind]
				k.violation(v, "error-missing/"+pre+kind, fmt.Sprintf("annotation succeeded although child %v is inconsistent (%s) and no ignore option covers it", in.child, kind))
				break
			}
		}
		return t
	}
	k.finds = t.compare(p, times, k.finds[:0])
	for _, fd := range k.finds {
		k.violation(v, fd.key, fd.what)
	}
	if v.Refilter > 0 && len(k.finds) == 0 {
		accept := f.Children[v.Refilter-1]
		if v.ByTime {
			for _, w := range p.ways {
				w.Updates.SortByTimestamp()
			}
			for _, rl := range p.rels {
				rl.Updates.SortByTimestamp()
			}
		}
		accepting := true
		again := append(append([]annotate.Option(nil), opts...), annotate.ChildFilter(func(id osm.FeatureID) bool { return accepting && id == accept }))
		if v.Reuse {
			// spoil what the parents say about the child, keep it "annotated"
			for _, w := range p.ways {
				if !w.Visible {
					continue
				}
				var keep osm.Updates
				for _, u := range w.Updates {
					if v.KeepVer || (u.Index < len(w.Nodes) && w.Nodes[u.Index].FeatureID() != accept) {
						keep = append(keep, u)
					}
				}
				w.Updates = keep
				for j := range w.Nodes {
					if w.Nodes[j].FeatureID() == accept && w.Nodes[j].Version != 0 {
						if !v.KeepVer {
							w.Nodes[j].Version = 9999
						}
						w.Nodes[j].ChangesetID, w.Nodes[j].Lat, w.Nodes[j].Lon = 1, 88, 88
					}
				}
			}
			for _, rl := range p.rels {
				if !rl.Visible {
					continue
				}
				var keep osm.Updates
				for _, u := range rl.Updates {
					if v.KeepVer || (u.Index < len(rl.Members) && rl.Members[u.Index].FeatureID() != accept) {
						keep = append(keep, u)
					}
				}
				rl.Updates = keep
				for j := range rl.Members {
					if rl.Members[j].FeatureID() == accept && rl.Members[j].Version != 0 {
						if !v.KeepVer {
							rl.Members[j].Version = 9999
						}
						rl.Members[j].ChangesetID, rl.Members[j].Lat, rl.Members[j].Lon = 1, 88, 88
					}
				}
			}
			accepting = false
			callLibrary(f.IsWay(), p, ds, again) // the filter says no to everything: nothing is recomputed
			k.calls++
			accepting = true
		}
		err, panicked := callLibrary(f.IsWay(), p, ds, again)
		k.calls++
		switch {
		case panicked != nil:
			k.violation(v, "panic/"+pre+"annotate-again-with-filter", fmt.Sprintf("the second, filtered call panicked: %v", panicked))
		case err != nil:
			k.violation(v, "filtered-reannotation/"+pre+"error", fmt.Sprintf("annotating the annotated parents again with a filter accepting only %v failed: %v", accept, err))
		default:
			k.finds = t.compare(p, times, k.finds[:0])
			for _, fd := range k.finds {
				k.violation(v, "filtered-reannotation/"+fd.key, "after a second call with ChildFilter(only "+fmt.Sprint(accept)+") on the annotated parents: "+fd.what)
			}
		}
	}
	return t
}

// emptyHistories: a child history that is present but holds no version at all
// (osm.HistoryDatasource{Nodes: {1: osm.Nodes{}}}, or any datasource answering an
// empty list with a nil error). The property text does not say whether that is a
// "missing" (NoHistoryError) or an "inconsistent" (NoVisibleChildError) history, so
// either typed error is accepted under the default options; with the ignore option
// that covers the error the library reports by default, the call succeeds, the
// reference stays unannotated and gets no updates. Found by the boundary audit:
// the last parent version used to make core.nextVersionIndex evaluate
// child[len(child)-1] on the empty list (panic: index out of range [-1]); repaired
// in /repo ("fix: annotate: a child history without versions ...").
func emptyHistories(r *kit.Run) {
	t0 := time.Date(2014, 5, 1, 0, 0, 0, 0, time.UTC)
	good := osm.Nodes{{ID: 2, Version: 1, Visible: true, ChangesetID: 9, Timestamp: t0.Add(-time.Hour), Lat: 1, Lon: 2}}
	for nver := 1; nver <= 3; nver++ {
		for way := 0; way < 2; way++ {
			for opt := 0; opt < 4; opt++ {
				for pos := 0; pos < 2; pos++ {
					key := fmt.Sprintf("empty-history|versions=%d|way=%d|opt=%d|pos=%d", nver, way, opt, pos)
					r.Case(key, true)
					ds := &osm.HistoryDatasource{Nodes: map[osm.NodeID]osm.Nodes{1: {}, 2: good}}
					ps := &parents{}
					for v := 1; v <= nver; v++ {
						ts := t0.Add(time.Duration(v) * 24 * time.Hour)
						refs := []osm.NodeID{1, 2}
						if pos == 1 {
							refs = []osm.NodeID{2, 1, 2}
						}
						if way == 0 {
							w := &osm.Way{ID: 7, Version: v, Visible: true, ChangesetID: osm.ChangesetID(100 + v), Timestamp: ts}
							for _, id := range refs {
								w.Nodes = append(w.Nodes, osm.WayNode{ID: id})
							}
							ps.ways = append(ps.ways, w)
						} else {
							rl := &osm.Relation{ID: 7, Version: v, Visible: true, ChangesetID: osm.ChangesetID(100 + v), Timestamp: ts}
							for _, id := range refs {
								rl.Members = append(rl.Members, osm.Member{Type: osm.TypeNode, Ref: int64(id)})
							}
							ps.rels = append(ps.rels, rl)
						}
					}
					var opts []annotate.Option
					if opt&1 != 0 {
						opts = append(opts, annotate.IgnoreInconsistency(true))
					}
					if opt&2 != 0 {
						opts = append(opts, annotate.IgnoreMissingChildren(true))
					}
					err, panicked := callLibrary(way == 0, ps, ds, opts)
					fail := func(k, what string) {
						r.Violation("empty-history/"+k, fmt.Sprintf("%s: %s", key, what), map[string]interface{}{"empty_history": true, "versions": nver, "way": way == 0, "opt": opt, "pos": pos})
					}
					if panicked != nil {
						fail("panic", fmt.Sprintf("the library panicked: %v", panicked))
						continue
					}
					var nv *annotate.NoVisibleChildError
					var nh *annotate.NoHistoryError
					typed := errors.As(err, &nv) || errors.As(err, &nh)
					switch {
					case err != nil && !typed:
						fail("error-type", fmt.Sprintf("error %T (%v), want NoVisibleChildError or NoHistoryError", err, err))
					case err == nil && opt == 0:
						fail("error-missing", "annotation succeeded although child node/1 has a history without versions and no ignore option is set")
					case err != nil && opt == 3:
						fail("ignored-error-returned", fmt.Sprintf("both ignore options set, yet: %v", err))
					case err == nil:
						// the empty child stays unannotated, the good one is annotated
						check := func(v, i int, id int64, version int, ups osm.Updates) {
							if id == 1 && version != 0 {
								fail("annotated-from-nothing", fmt.Sprintf("parent v%d ref %d (node/1) carries version %d", v, i, version))
							}
							if id == 2 && version != 1 {
								fail("good-child-not-annotated", fmt.Sprintf("parent v%d ref %d (node/2) carries version %d, want 1", v, i, version))
							}
						}
						for _, w := range ps.ways {
							for i, n := range w.Nodes {
								check(w.Version, i, int64(n.ID), n.Version, w.Updates)
							}
							if len(w.Updates) != 0 {
								fail("updates-from-nothing", fmt.Sprintf("way v%d has %d updates", w.Version, len(w.Updates)))
							}
						}
						for _, rl := range ps.rels {
							for i, m := range rl.Members {
								check(rl.Version, i, m.Ref, m.Version, rl.Updates)
							}
							if len(rl.Updates) != 0 {
								fail("updates-from-nothing", fmt.Sprintf("relation v%d has %d updates", rl.Version, len(rl.Updates)))
							}
						}
					}
				}
			}
		}
	}
}

// NOT ENUMERATED: Threshold values above 2^62 ns on histories with versions before
// osm.CommitInfoStart (FindVisible computes 2*eps, which overflows: every child is
// reported as not visible). Outside the documented domain of the timestamp rule
// (uploads more than two thresholds apart) and of no practical relevance.

// noParents: the history with no parent version at all - nothing to annotate,
// no child is asked for, no error (with an empty, a nil-map and a filled datasource).
func noParents(r *kit.Run) {
	n1 := &osm.Node{ID: 1, Version: 1, Visible: true, Timestamp: time.Date(2013, 1, 1, 0, 0, 0, 0, time.UTC)}
	for i, ds := range []*osm.HistoryDatasource{{}, {Nodes: map[osm.NodeID]osm.Nodes{}}, {Nodes: map[osm.NodeID]osm.Nodes{1: {n1}}}} {
		for j, ps := range []*parents{{ways: osm.Ways{}}, {rels: osm.Relations{}}} {
			r.Case(fmt.Sprintf("no-parents|%d|%d", i, j), false)
			err, panicked := callLibrary(j == 0, ps, ds, nil)
			if panicked != nil || err != nil {
				r.Violation("no-parents/"+[]string{"way", "relation"}[j], fmt.Sprintf("annotating an empty list of parent versions: error %v, panic %v", err, panicked), map[string]bool{"no_parents": true})
			}
		}
	}
}

// callLibrary runs the code under test; a panic is a finding, not a crash.
func callLibrary(way bool, p *parents, ds *osm.HistoryDatasource, opts []annotate.Option) (err error, panicked interface{}) {
	defer func() {
		if x := recover(); x != nil {
			panicked = x
		}
	}()
	if way {
		return annotate.Ways(context.Background(), p.ways, ds, opts...), nil
	}
	return annotate.Relations(context.Background(), p.rels, ds, opts...), nil
}

// reversed returns a datasource whose histories are fresh slices in
// descending version order (the library has to sort what it is given).
func reversed(ds *osm.HistoryDatasource) *osm.HistoryDatasource {
	for id, h := range ds.Nodes {
		r := make(osm.Nodes, len(h))
		for i, e := range h {
			r[len(h)-1-i] = e
		}
		ds.Nodes[id] = r
	}
	for id, h := range ds.Ways {
		r := make(osm.Ways, len(h))
		for i, e := range h {
			r[len(h)-1-i] = e
		}
		ds.Ways[id] = r
	}
	for id, h := range ds.Relations {
		r := make(osm.Relations, len(h))
		for i, e := range h {
			r[len(h)-1-i] = e
		}
		ds.Relations[id] = r
	}
	return ds
}

// asList rebuilds the datasource the way an application does that holds the
// histories as one element list (a history extract): every version goes into one
// osm.OSM, the histories dealt out one version at a time in id order (so the
// versions of an id are never adjacent), and OSM.HistoryDatasource() sorts them
// into histories again.
func asList(ds *osm.HistoryDatasource) *osm.HistoryDatasource {
	o := &osm.OSM{}
	var nids []osm.NodeID
	for id := range ds.Nodes {
		nids = append(nids, id)
	}
	sort.Slice(nids, func(i, j int) bool { return nids[i] < nids[j] })
	var wids []osm.WayID
	for id := range ds.Ways {
		wids = append(wids, id)
	}
	sort.Slice(wids, func(i, j int) bool { return wids[i] < wids[j] })
	var rids []osm.RelationID
	for id := range ds.Relations {
		rids = append(rids, id)
	}
	sort.Slice(rids, func(i, j int) bool { return rids[i] < rids[j] })
	for vi, more := 0, true; more; vi++ {
		more = false
		for _, id := range nids {
			if h := ds.Nodes[id]; vi < len(h) {
				o.Nodes, more = append(o.Nodes, h[vi]), true
			}
		}
		for _, id := range wids {
			if h := ds.Ways[id]; vi < len(h) {
				o.Ways, more = append(o.Ways, h[vi]), true
			}
		}
		for _, id := range rids {
			if h := ds.Relations[id]; vi < len(h) {
				o.Relations, more = append(o.Relations, h[vi]), true
			}
		}
	}
	return o.HistoryDatasource()
}

// shuffled returns a datasource whose histories are fresh slices in neither
// ascending nor descending order: the even positions ascending, then the odd
// positions descending (v1 v3 v5 v4 v2).
func shuffled(ds *osm.HistoryDatasource) *osm.HistoryDatasource {
	perm := func(n int) []int {
		var out []int
		for i := 0; i < n; i += 2 {
			out = append(out, i)
		}
		for i := n - 1; i >= 0; i-- {
			if i%2 == 1 {
				out = append(out, i)
			}
		}
		return out
	}
	for id, h := range ds.Nodes {
		r := make(osm.Nodes, 0, len(h))
		for _, i := range perm(len(h)) {
			r = append(r, h[i])
		}
		ds.Nodes[id] = r
	}
	for id, h := range ds.Ways {
		r := make(osm.Ways, 0, len(h))
		for _, i := range perm(len(h)) {
			r = append(r, h[i])
		}
		ds.Ways[id] = r
	}
	for id, h := range ds.Relations {
		r := make(osm.Relations, 0, len(h))
		for _, i := range perm(len(h)) {
			r = append(r, h[i])
		}
		ds.Relations[id] = r
	}
	return ds
}

// late drops the first d versions of every history that has more than d.
func late(ds *osm.HistoryDatasource, d int) *osm.HistoryDatasource {
	for id, h := range ds.Nodes {
		if len(h) > d {
			ds.Nodes[id] = h[d:]
		}
	}
	for id, h := range ds.Ways {
		if len(h) > d {
			ds.Ways[id] = h[d:]
		}
	}
	for id, h := range ds.Relations {
		if len(h) > d {
			ds.Relations[id] = h[d:]
		}
	}
	return ds
}

// stripCommitted removes the commit time from the child versions the pattern
// names. ds must own its elements (World.Datasource, not SharedDatasource).
func stripCommitted(ds *osm.HistoryDatasource, mode int) *osm.HistoryDatasource {
	for _, h := range ds.Nodes {
		for i, e := range h {
			if e.Committed != nil && stripped(mode, i, *e.Committed, false) {
				e.Committed = nil
			}
		}
	}
	for _, h := range ds.Ways {
		for i, e := range h {
			if e.Committed != nil && stripped(mode, i, *e.Committed, false) {
				e.Committed = nil
			}
		}
	}
	for _, h := range ds.Relations {
		for i, e := range h {
			if e.Committed != nil && stripped(mode, i, *e.Committed, false) {
				e.Committed = nil
			}
		}
	}
	return ds
}

func errClass(err error) string {
	switch err.(type) {
	case *annotate.NoHistoryError:
		return "unexpected-NoHistoryError"
	case *annotate.NoVisibleChildError:
		return "unexpected-NoVisibleChildError"
	}
	return "unexpected-other-error"
}

// ---------------------------------------------------------------- replay

func replay(r *kit.Run, c Case) {
	sp := &Space{Space: *histsim.SpaceFromID(c.Space)}
	var stop int32
	k := newWorker(r, sp, &stop)
	k.reset(c.Ops)
	times := k.queryTimes(true)
	fmt.Printf("replaying %s, variant %s, history %v\n", sp.label(), c.Variant.Name, k.traceStrings())
	// The library iterates a Go map; a defect that depends on that order may
	// need a few attempts to show again.
	t := k.evalVariant(c.Variant, times)
	for try := 1; try < 64 && r.Violations() == 0; try++ {
		t = k.evalVariant(c.Variant, times)
	}
	r.Case(fmt.Sprint(sp.label(), c.Ops, c.Variant.Name), t.nontriv)
	r.Sample(k.describe(t))
	r.Set("states", 1)
	r.Set("transitions", len(c.Ops))
	r.Set("traces_validated_against_impl", 1)
}
