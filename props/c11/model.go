package main

// The searched spaces. The edit alphabet itself (families, operations, guards,
// translation into uploads) lives in verif/gen/histsim/space.go so that other
// checks can enumerate the same histories; nothing there or here calls the
// annotate packages.

import (
	"fmt"

	"verif/gen/histsim"
)

type (
	Op     = histsim.Op
	Family = histsim.Family
)

// Space is a histsim.Space plus what only this check needs.
type Space struct {
	histsim.Space

	// ExtraDepth: the withheld-history and child-filter variants (and the
	// ignore-inconsistency variants on consistent histories) are evaluated at
	// every state of depth <= ExtraDepth; all other variants at every state.
	ExtraDepth int
}

// keyPrefix is the part of a violation key that names the regime and the
// parent kind (not the family or the depth: the same defect keeps its key
// across tiers).
func (s *Space) keyPrefix() string {
	if s.Fam.IsWay() {
		return s.Regime.String() + "/way"
	}
	return s.Regime.String() + "/relation"
}

func (s *Space) label() string {
	l := fmt.Sprintf("%s/depth%d/gaps%v", s.Name(), s.Depth, s.Gaps)
	if s.VersionStep > 1 || s.FirstVersion > 1 {
		l += fmt.Sprintf("/versions%d+%dk", s.FirstVersion, s.VersionStep)
	}
	if s.Regime == histsim.PreCommit {
		l += fmt.Sprintf("/skew%v", s.Delta)
	}
	if s.Interlopers {
		l += "/interlopers"
	}
	return l
}
