package main

// The searched spaces. The edit alphabet itself (families, operations, guards,
// translation into uploads) lives in verif/gen/histsim/space.go so that other
// checks can enumerate the same histories; nothing there or here calls the
// annotate packages.

import (
	"fmt"

	"verif/gen/histsim"
)

type (
	Op     = histsim.Op
	Family = histsim.Family
)

// Space is a histsim.Space plus what only this check needs.
type Space struct {
	histsim.Space

	// ExtraDepth: the withheld-history and child-filter variants (and the
	// ignore-inconsistency variants on consistent histories) are evaluated at
	// every state of depth <= ExtraDepth; all other variants at every state.
	ExtraDepth int

	// Strip: the space also runs the variants in which some elements come
	// without a commit time. Only for commit-time spaces whose upload instants
	// are whole seconds more than a threshold apart (then timestamp and commit
	// instant of every version coincide and the ground truth stays exact).
	Strip bool
}

// keyPrefix is the part of a violation key that names the regime and the
// parent kind (not the family or the depth: the same defect keeps its key
// across tiers).
func (s *Space) keyPrefix() string {
	if s.Fam.IsWay() {
		return s.Regime.String() + "/way"
	}
	return s.Regime.String() + "/relation"
}

func (s *Space) label() string {
	l := fmt.Sprintf("%s/depth%d/gaps%v", s.Name(), s.Depth, s.Gaps)
	if s.VersionStep > 1 || s.FirstVersion > 1 {
		l += fmt.Sprintf("/versions%d+%dk", s.FirstVersion, s.VersionStep)
	}
	if s.Regime == histsim.PreCommit {
		l += fmt.Sprintf("/skew%v", s.Delta)
	}
	if s.Interlopers {
		l += "/interlopers"
	}
	if !s.Start.IsZero() {
		l += "/start" + s.Start.UTC().Format("2006-01-02T15:04:05")
	}
	if s.FirstChangeset != 0 {
		l += fmt.Sprintf("/changesets%d+k", s.FirstChangeset)
	}
	if s.LocMode != 0 {
		l += "/zero-locations"
	}
	if s.ReverseWays {
		l += "/reversing-child-ways"
	}
	if s.Blink {
		l += "/delete-and-undelete-in-one-upload"
	}
	if s.Strip {
		l += "/partial-commit-times"
	}
	return l
}
