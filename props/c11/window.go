package main

// Family "window": the part of the pre-commit regime that gen/histsim leaves out
// on purpose because its ground truth is not observable from timestamps - parent
// versions stamped INSIDE the skew of another upload (an upload writes a way at
// T and one of its nodes at T+d; somebody else's upload edits the way at T+d/2).
// Which child version "was current" there is a matter of interpretation, so the
// exact oracle of the state search does not apply. What the property still says
// for these consistent histories (every child exists and is visible throughout)
// is judged with an interval oracle that both interpretations satisfy:
//
//   - annotation succeeds: nothing here is missing, deleted or inconsistent;
//   - every child reference of a visible parent version carries an existing
//     version that is not older than the child version current by timestamp at
//     the parent's timestamp and not newer than the one current one threshold
//     later (the forward-grouping window);
//   - every update belongs to an existing child version that is newer than the
//     carried one, the updates of one index ascend, and none is stamped later
//     than one threshold after the next parent version;
//   - applying all updates of a parent version yields, for every child that
//     has updates, the last of them (time-travel consistency at the far end).
//
// The space: 5 time slots d/2 apart (d = 10 min, all inside the default
// threshold) after well-separated initial versions; each slot holds no event or
// one of {node 1 | node 2 | way} x {the way's changeset A | a foreign one}; every
// assignment with 1..3 way versions and at most 4 events, under the default
// threshold, Threshold(1 min), IgnoreInconsistency, Threshold(0) (no grouping:
// the interval shrinks to the version current by timestamp), Threshold(24 h)
// (everything after the way is inside the window) and Threshold(1 min) with
// IgnoreInconsistency; way shapes [1 2], [1 2 1], [1 1 1 2] and [2 1 2 1 2].
//
// Twins: assignments with at most 3 events are repeated with a second event in
// the SAME second as one of them, written after it (every occupied slot x every
// event kind; default threshold, Threshold(0), IgnoreInconsistency; way [1 2]
// and [1 2 1]). gen/histsim only has same-second uploads in the order child,
// then parent. For a node version stamped in the way's second but written after
// it both readings are admissible, so the lower end of the interval is the
// newest version stamped before the way's second or written before the way in
// that second; the upper end stays the newest version stamped at most one
// threshold later.

import (
	"context"
	"fmt"
	"time"

	"github.com/paulmach/osm"
	"github.com/paulmach/osm/annotate"

	"verif/kit"
)

type windowCase struct {
	Slots []int `json:"slots"`           // per slot: 0 none, 1..6 = element (0 node1, 1 node2, 2 way) * 2 + foreign + 1
	Opt   int   `json:"opt"`             // 0 default, 1 Threshold(1 min), 2 IgnoreInconsistency, 3 Threshold(0), 4 Threshold(24 h), 5 Threshold(1 min) + IgnoreInconsistency
	Ring  bool  `json:"ring"`            // way [1 2 1] instead of [1 2]
	Shape int   `json:"shape,omitempty"` // 1: way [1 1 1 2], 2: way [2 1 2 1 2] (Ring false)
	Twin  []int `json:"twin,omitempty"`  // [slot, event]: a second event in the same second as the slot's own event, written after it
}

func (c windowCase) String() string {
	names := []string{"-", "n1/A", "n1/F", "n2/A", "n2/F", "way/A", "way/B"}
	s := ""
	for _, e := range c.Slots {
		s += names[e] + " "
	}
	if len(c.Twin) == 2 {
		s += fmt.Sprintf("+ %s in slot %d ", names[c.Twin[1]], c.Twin[0])
	}
	if c.Shape != 0 {
		return fmt.Sprintf("slots[%s] opt=%d shape=%d", s, c.Opt, c.Shape)
	}
	return fmt.Sprintf("slots[%s] opt=%d ring=%v", s, c.Opt, c.Ring)
}

func windowFamily(r *kit.Run) {
	var cases []windowCase
	var rec func(slots []int, events, ways int)
	rec = func(slots []int, events, ways int) {
		if len(slots) == 5 {
			if ways >= 1 {
				for opt := 0; opt < 6; opt++ {
					for _, ring := range []bool{false, true} {
						cases = append(cases, windowCase{Slots: append([]int(nil), slots...), Opt: opt, Ring: ring})
					}
					for shape := 1; shape <= 2; shape++ {
						cases = append(cases, windowCase{Slots: append([]int(nil), slots...), Opt: opt, Shape: shape})
					}
				}
			}
			if events <= 3 {
				for sl, own := range slots {
					for e := 1; own != 0 && e <= 6; e++ {
						if ways == 0 && e < 5 || ways == 3 && e >= 5 {
							continue
						}
						for _, opt := range []int{0, 3, 2} {
							for _, ring := range []bool{false, true} {
								cases = append(cases, windowCase{Slots: append([]int(nil), slots...), Opt: opt, Ring: ring, Twin: []int{sl, e}})
							}
						}
					}
				}
			}
			return
		}
		for e := 0; e <= 6; e++ {
			ne, nw := events, ways
			if e != 0 {
				ne++
			}
			if e >= 5 {
				nw++
			}
			if ne > 4 || nw > 3 {
				continue
			}
			rec(append(slots, e), ne, nw)
		}
	}
	rec(nil, 0, 0)
	if r.ReplayPath != "" {
		return
	}
	r.Set("window_family_cases", len(cases))
	r.Par(len(cases), func(i int) { checkWindow(r, cases[i]) })
}

func checkWindow(r *kit.Run, c windowCase) {
	const d = 10 * time.Minute
	t0 := time.Date(2010, 6, 1, 12, 0, 0, 0, time.UTC) // before osm.CommitInfoStart: no commit times
	thr := 30 * time.Minute
	var opts []annotate.Option
	switch c.Opt {
	case 1:
		thr = time.Minute
		opts = append(opts, annotate.Threshold(thr))
	case 2:
		opts = append(opts, annotate.IgnoreInconsistency(true))
	case 3:
		thr = 0
		opts = append(opts, annotate.Threshold(thr))
	case 4:
		thr = 24 * time.Hour
		opts = append(opts, annotate.Threshold(thr))
	case 5:
		thr = time.Minute
		opts = append(opts, annotate.IgnoreInconsistency(true), annotate.Threshold(thr))
	}
	const csA, csB, csF, csOld = 500, 600, 700, 100
	hist := map[osm.NodeID]osm.Nodes{}
	for id := osm.NodeID(1); id <= 2; id++ {
		hist[id] = osm.Nodes{{ID: id, Version: 1, Visible: true, ChangesetID: csOld, Timestamp: t0.AddDate(0, 0, -10).Add(time.Duration(id) * time.Hour), Lat: 1, Lon: float64(id)}}
	}
	var ways osm.Ways
	seq := 0                       // order in which the versions were written
	nodeSeq := map[*osm.Node]int{} // node version -> seq
	waySeq := map[*osm.Way]int{}   // way version -> seq
	event := func(s, e int) {
		seq++
		at := t0.Add(time.Duration(s) * d / 2)
		el, foreign := (e-1)/2, (e-1)%2 == 1
		if el < 2 {
			id := osm.NodeID(el + 1)
			cs := osm.ChangesetID(csA)
			if foreign {
				cs = csF
			}
			v := len(hist[id]) + 1
			n := &osm.Node{ID: id, Version: v, Visible: true, ChangesetID: cs, Timestamp: at, Lat: float64(v), Lon: float64(id)}
			hist[id] = append(hist[id], n)
			nodeSeq[n] = seq
			return
		}
		cs := osm.ChangesetID(csA)
		if foreign {
			cs = csB
		}
		w := &osm.Way{ID: 9, Version: len(ways) + 1, Visible: true, ChangesetID: cs, Timestamp: at, Nodes: osm.WayNodes{{ID: 1}, {ID: 2}}}
		if c.Ring {
			w.Nodes = append(w.Nodes, osm.WayNode{ID: 1})
		}
		switch c.Shape {
		case 1:
			w.Nodes = osm.WayNodes{{ID: 1}, {ID: 1}, {ID: 1}, {ID: 2}}
		case 2:
			w.Nodes = osm.WayNodes{{ID: 2}, {ID: 1}, {ID: 2}, {ID: 1}, {ID: 2}}
		}
		ways = append(ways, w)
		waySeq[w] = seq
	}
	for s, e := range c.Slots {
		if e != 0 {
			event(s, e)
		}
		if len(c.Twin) == 2 && c.Twin[0] == s {
			event(s, c.Twin[1])
		}
	}
	if len(ways) == 0 {
		return // (a replay file without a way version)
	}
	nupd := 0
	for _, h := range hist {
		nupd += len(h) - 1
	}
	r.Case("window|"+c.String(), nupd > 0 && len(ways) > 1)

	ds := &osm.HistoryDatasource{Nodes: map[osm.NodeID]osm.Nodes{}}
	for id, h := range hist {
		cp := make(osm.Nodes, len(h))
		for i, n := range h {
			x := *n
			cp[i] = &x
		}
		ds.Nodes[id] = cp
	}
	fail := func(key, what string) {
		r.Violation("window/"+key, fmt.Sprintf("%s: %s", c, what), c)
	}
	var err error
	var pan interface{}
	func() {
		defer func() { pan = recover() }()
		err = annotate.Ways(context.Background(), ways, ds, opts...)
	}()
	if pan != nil {
		fail("panic", fmt.Sprint(pan))
		return
	}
	if err != nil {
		fail("error-on-consistent-history", fmt.Sprintf("every node exists and is visible throughout, yet: %v", err))
		return
	}
	// newest version stamped at or before t
	latestAt := func(id osm.NodeID, t time.Time) int {
		v := 0
		for _, n := range hist[id] {
			if !n.Timestamp.After(t) {
				v = n.Version
			}
		}
		return v
	}
	// newest version stamped before the way's second, or in it and written before the way
	latestBefore := func(id osm.NodeID, w *osm.Way) int {
		v := 0
		for _, n := range hist[id] {
			if n.Timestamp.Before(w.Timestamp) || (n.Timestamp.Equal(w.Timestamp) && nodeSeq[n] < waySeq[w]) {
				v = n.Version
			}
		}
		return v
	}
	for k, w := range ways {
		for i, wn := range w.Nodes {
			lo, hi := latestBefore(wn.ID, w), latestAt(wn.ID, w.Timestamp.Add(thr))
			if wn.Version < lo || wn.Version > hi {
				fail("carried-version-outside-window", fmt.Sprintf("way v%d node[%d]=n%d carries version %d; current by timestamp at the way's time: %d, one threshold later: %d", w.Version, i, wn.ID, wn.Version, lo, hi))
				return
			}
			n := hist[wn.ID][wn.Version-1]
			if wn.ChangesetID != n.ChangesetID || wn.Lat != n.Lat || wn.Lon != n.Lon {
				fail("carried-values", fmt.Sprintf("way v%d node[%d]=n%d v%d carries changeset %d lat %v lon %v, that version has %d %v %v", w.Version, i, wn.ID, wn.Version, wn.ChangesetID, wn.Lat, wn.Lon, n.ChangesetID, n.Lat, n.Lon))
				return
			}
		}
		last := map[int]int{}
		for _, u := range w.Updates {
			if u.Index < 0 || u.Index >= len(w.Nodes) {
				fail("update-index", fmt.Sprintf("way v%d: update index %d", w.Version, u.Index))
				return
			}
			id := w.Nodes[u.Index].ID
			if u.Version < 1 || u.Version > len(hist[id]) {
				fail("update-unknown-version", fmt.Sprintf("way v%d: update for n%d version %d which does not exist", w.Version, id, u.Version))
				return
			}
			prev, seen := last[u.Index]
			if !seen {
				prev = w.Nodes[u.Index].Version
			}
			if u.Version <= prev {
				fail("update-not-newer", fmt.Sprintf("way v%d index %d: update version %d after version %d", w.Version, u.Index, u.Version, prev))
				return
			}
			last[u.Index] = u.Version
			n := hist[id][u.Version-1]
			if !u.Timestamp.Equal(n.Timestamp) || u.ChangesetID != n.ChangesetID || u.Lat != n.Lat {
				fail("update-values", fmt.Sprintf("way v%d index %d: update %+v does not describe n%d v%d (%s, changeset %d)", w.Version, u.Index, u, id, u.Version, n.Timestamp.Format(time.RFC3339), n.ChangesetID))
				return
			}
			if k+1 < len(ways) && u.Timestamp.After(ways[k+1].Timestamp.Add(thr)) {
				fail("update-beyond-next-parent", fmt.Sprintf("way v%d index %d: update v%d stamped %s, more than a threshold after way v%d (%s)", w.Version, u.Index, u.Version, u.Timestamp.Format(time.RFC3339), ways[k+1].Version, ways[k+1].Timestamp.Format(time.RFC3339)))
				return
			}
		}
		// the far end of time travel: all updates applied
		cp := *w
		cp.Nodes = append(osm.WayNodes(nil), w.Nodes...)
		cp.Updates = append(osm.Updates(nil), w.Updates...)
		if err := cp.ApplyUpdatesUpTo(t0.AddDate(1, 0, 0)); err != nil {
			fail("apply-error", err.Error())
			return
		}
		for i, v := range last {
			if cp.Nodes[i].Version != v {
				fail("apply-end-state", fmt.Sprintf("way v%d node[%d]: version %d after applying all updates, last update is version %d", w.Version, i, cp.Nodes[i].Version, v))
				return
			}
		}
	}
}
