package main

// The oracle: expected annotations, update lists, time-travel states and
// errors, computed from the histsim ground truth only ("which version of each
// child was current after each upload / at each instant"). This file never
// calls annotate.*; it only reads the library's result through the parents
// view and calls ApplyUpdatesUpTo (part of the property) on copies.

import (
	"fmt"
	"sort"
	"strings"
	"time"

	"github.com/paulmach/osm"
	"github.com/paulmach/osm/annotate"

	"verif/gen/histsim"
)

// Variant is one way of calling the library on a state.
type Variant struct {
	Name     string        `json:"name"`
	Thr      time.Duration `json:"thr"`     // grouping threshold in force
	SetThr   bool          `json:"set_thr"` // pass annotate.Threshold(Thr) (otherwise Thr must be the 30 min default)
	IgnInc   bool          `json:"ign_inc"`
	IgnMiss  bool          `json:"ign_miss"`
	Withhold int           `json:"withhold"`  // child whose history is withheld from the datasource, -1 none
	Filter   int           `json:"filter"`    // -1: no ChildFilter; -2: filter rejecting every child; -3: filter accepting every child; x>=0: filter accepting only child x
	KeepRefs bool          `json:"keep_refs"` // deleted parent versions keep the previous child list (unannotated)
	Reversed bool          `json:"reversed"`  // the datasource returns every history newest version first
	When     int           `json:"-"`         // at which states the search evaluates the variant (main.go)

	// boundary classes (all optional)
	Shuffled bool `json:"shuffled,omitempty"` // the datasource returns every history unsorted (even positions ascending, then odd positions descending)
	Suffix   bool `json:"suffix,omitempty"`   // the parent versions handed over start at the first deleted parent version after the first one (at the second version when none is deleted)
	Twice    bool `json:"twice,omitempty"`    // the library is called twice on the same parents and datasource; the second result is judged
	Prefix   bool `json:"prefix,omitempty"`   // the parents were annotated before when their last version did not exist yet (same objects, same datasource); then all versions are annotated and judged
	Retry    bool `json:"retry,omitempty"`    // a first call on the same parents fails (history of the first child withheld), then the judged call follows
	Explicit bool `json:"explicit,omitempty"` // the documented defaults are passed explicitly: Threshold(30 min), IgnoreInconsistency(false), IgnoreMissingChildren(false), ChildFilter(nil)
	Polygon  bool `json:"polygon,omitempty"`  // relation parents are tagged type=multipolygon and their members carry the roles outer / inner
	Late     int  `json:"late,omitempty"`     // every child history of more than Late versions is handed over without its first Late versions (a history extract that starts later: parents before it reference a child that is "not yet there")
	Refilter int  `json:"refilter,omitempty"` // x+1: after the judged call the same parents are annotated again with a ChildFilter accepting only child x (the incremental workflow: one child changed); nothing about the histories changed, so the same truth is judged again
	Reuse    bool `json:"reuse,omitempty"`    // Refilter variants: ONE ChildFilter option value is used for two further calls; the caller first spoils the annotation of child x (wrong version and location, its updates removed), calls with the filter accepting nothing, then lets the same filter accept x and calls again: x is recomputed
	KeepVer  bool `json:"keep_ver,omitempty"` // Reuse variants: the caller spoils changeset and location of child x only, the version number stays right and the updates stay
	ByTime   bool `json:"by_time,omitempty"`  // Refilter variants: between the two calls the caller re-orders every parent's update list with Updates.SortByTimestamp (a public method; applying updates does not need any order)
	LocOnly  bool `json:"loc_only,omitempty"` // ChildFilter variants: the references that are NOT pre-annotated carry a stale location and version 0 on input (way nodes read from a PBF with locations on ways): they are unannotated and get annotated whatever the filter says
	AsList   bool `json:"as_list,omitempty"`  // the datasource is OSM.HistoryDatasource() of ONE element list in which the histories are dealt out one version at a time (the versions of an id are not adjacent)
	Strip    int  `json:"strip,omitempty"`    // which elements come without a commit time (stripXxx); only in spaces whose upload instants are whole seconds
}

// Commit-time patterns of Variant.Strip: the listed elements have Committed ==
// nil, the library has to fall back on their timestamp (the same instant here).
const (
	stripNone        = iota
	stripParents     // every parent version
	stripChildren    // every child version
	stripEven        // every version at an even position of its history (0, 2, ...), parents and children
	stripOdd         // every version at an odd position
	stripBeforeStart // every version committed before osm.CommitInfoStart (what real history files look like)
)

func stripped(mode, pos int, commit time.Time, parent bool) bool {
	switch mode {
	case stripParents:
		return parent
	case stripChildren:
		return !parent
	case stripEven:
		return pos%2 == 0
	case stripOdd:
		return pos%2 == 1
	case stripBeforeStart:
		return commit.Before(osm.CommitInfoStart)
	}
	return false
}

// class is the coarse call class used in violation keys (a defect shows under
// one key per class, not one per variant).
func (v Variant) class() string {
	switch {
	case v.Strip != stripNone:
		return "partial-commit-times"
	case v.Suffix:
		return "parent-suffix"
	case v.Late > 0:
		return "late-child-history"
	case v.Twice || v.Retry || v.Prefix || v.Refilter > 0:
		return "second-call"
	case v.Polygon:
		return "multipolygon-parent"
	case v.Shuffled:
		return "unsorted-histories"
	case v.AsList:
		return "element-list-datasource"
	case v.Explicit:
		return "explicit-defaults"
	case v.Filter != -1:
		return "child-filter"
	case v.Withhold >= 0 && v.IgnMiss:
		return "ignore-missing-children"
	case v.Withhold >= 0:
		return "history-withheld"
	case v.IgnInc:
		return "ignore-inconsistency"
	case v.SetThr:
		return "threshold-option"
	}
	return "default-options"
}

// ann is the annotation carried by a child reference.
type ann struct {
	Ver      int
	CS       osm.ChangesetID
	Lat, Lon float64
}

var sentinel = ann{Ver: 7777, CS: 777, Lat: 7.5, Lon: -7.5}

// parents is the library-facing view of the parent versions (ways or relations).
type parents struct {
	ways osm.Ways
	rels osm.Relations

	nodeBuf osm.WayNodes
	memBuf  osm.Members
}

func (p *parents) n() int {
	if p.ways != nil {
		return len(p.ways)
	}
	return len(p.rels)
}

func (p *parents) nref(i int) int {
	if p.ways != nil {
		return len(p.ways[i].Nodes)
	}
	return len(p.rels[i].Members)
}

func (p *parents) get(i, j int) ann {
	if p.ways != nil {
		n := &p.ways[i].Nodes[j]
		return ann{n.Version, n.ChangesetID, n.Lat, n.Lon}
	}
	m := &p.rels[i].Members[j]
	return ann{m.Version, m.ChangesetID, m.Lat, m.Lon}
}

func (p *parents) set(i, j int, a ann) {
	if p.ways != nil {
		n := &p.ways[i].Nodes[j]
		n.Version, n.ChangesetID, n.Lat, n.Lon = a.Ver, a.CS, a.Lat, a.Lon
		return
	}
	m := &p.rels[i].Members[j]
	m.Version, m.ChangesetID, m.Lat, m.Lon = a.Ver, a.CS, a.Lat, a.Lon
}

func (p *parents) updates(i int) osm.Updates {
	if p.ways != nil {
		return p.ways[i].Updates
	}
	return p.rels[i].Updates
}

// travel applies the updates of parent version i up to t on a deep copy and
// returns the resulting annotations.
//
// The copy owns its child list (a reused buffer); the update array is shared
// read-only (ApplyUpdatesUpTo replaces the field of the copy, it does not
// write into the array).
func (p *parents) travel(i int, t time.Time, buf []ann) ([]ann, error) {
	buf = buf[:0]
	if p.ways != nil {
		c := *p.ways[i]
		p.nodeBuf = append(p.nodeBuf[:0], c.Nodes...)
		c.Nodes = p.nodeBuf
		if len(c.Updates) > 0 {
			if err := c.ApplyUpdatesUpTo(t); err != nil {
				return nil, err
			}
		}
		for _, n := range c.Nodes {
			buf = append(buf, ann{n.Version, n.ChangesetID, n.Lat, n.Lon})
		}
		return buf, nil
	}
	c := *p.rels[i]
	p.memBuf = append(p.memBuf[:0], c.Members...)
	c.Members = p.memBuf
	if len(c.Updates) > 0 {
		if err := c.ApplyUpdatesUpTo(t); err != nil {
			return nil, err
		}
	}
	for _, m := range c.Members {
		buf = append(buf, ann{m.Version, m.ChangesetID, m.Lat, m.Lon})
	}
	return buf, nil
}

// slot is the ground truth for one child reference (parent version i, index j).
type slot struct {
	child       osm.FeatureID
	cx          int              // child index in the family
	active      bool             // the library has to annotate it (unannotated on input, or accepted by the filter)
	missing     bool             // the child's history is withheld
	pre         ann              // annotation on input
	cur         *histsim.Version // version current once the parent version's upload was committed (nil: none yet)
	lo, mid, hi int              // later versions: vers[lo:mid] mandatory span, vers[mid:hi] inside the grouping window (both may contain deleted versions)
}

// inconsistency kinds
const (
	incNoHistory = iota
	incNoVisible
	incDeletedBetween
)

type inconsistency struct {
	kind     int
	child    osm.FeatureID
	at       time.Time // incNoVisible: the parent's time as the library sees it
	definite bool
}

// truth is the ground truth of one state for one variant.
type truth struct {
	sp      *Space
	w       *histsim.World
	v       Variant
	pv      []histsim.Version // parent versions handed to the library
	all     []histsim.Version // all parent versions of the world; pv = all[from:]
	from    int
	slots   [][]slot
	incs    []inconsistency
	nontriv bool

	arena []slot // backing store of slots, reused between evaluations
	stats *stats
}

// stats counts what the oracle actually compared (written to the evidence).
type stats struct {
	refs, updates, travels, travelRefs          int64 // clause (a), (b), (c) comparisons
	deletedParents                              int64 // clause (d) parent versions checked
	errNoHistory, errNoVisible, errDeleted      int64 // clause (e): documented errors confirmed against the ground truth
	unannotatedMissing, unannotatedInconsistent int64 // clause (e): references confirmed left unannotated under an ignore option
	filteredUntouched                           int64 // ChildFilter: pre-annotated references confirmed untouched
	windowUpdates                               int64 // updates accepted inside the pre-commit grouping window
	notYetThere                                 int64 // references confirmed unannotated because the child's handed-over history starts later
	zeroCoordinate                              int64 // node annotations and updates compared whose latitude or longitude is exactly 0
	reverseFlags                                int64 // updates seen with the Reverse flag set (the flag is not judged)
}

// versions is the history of child c as handed to the library (oldest first).
func (t *truth) versions(c osm.FeatureID) []histsim.Version {
	vers := t.w.Versions(c)
	if d := t.v.Late; d > 0 && len(vers) > d {
		return vers[d:]
	}
	return vers
}

func (t *truth) hasDefinite() bool {
	for _, in := range t.incs {
		if in.definite {
			return true
		}
	}
	return false
}

// libTime is the instant the library attributes to a version.
func libTime(w *histsim.World, v *histsim.Version) time.Time {
	if w.Regime() == histsim.CommitTime {
		return v.Commit
	}
	return v.Timestamp
}

// expectedRefs is the child list of parent version i as handed to the library.
// (pv is the complete parent history and i an index into it: a deleted version
// that opens a handed-over suffix still keeps the list of its predecessor.)
func expectedRefs(pv []histsim.Version, i int, keep bool) []osm.FeatureID {
	if pv[i].Visible || !keep {
		return pv[i].Refs
	}
	for k := i - 1; k >= 0; k-- {
		if pv[k].Visible {
			return pv[k].Refs
		}
	}
	return nil
}

// computeTruth derives, from the world alone, what the property promises.
// t is reused when not nil.
func computeTruth(t *truth, sp *Space, w *histsim.World, v Variant, preAnnotated func(i, j int) bool) *truth {
	f := &sp.Fam
	if t == nil {
		t = &truth{}
	}
	*t = truth{sp: sp, w: w, v: v, all: w.Versions(f.Parent), slots: t.slots[:0], incs: t.incs[:0], arena: t.arena[:0], stats: t.stats}
	if t.stats == nil {
		t.stats = &stats{}
	}
	if v.Suffix && len(t.all) > 1 {
		t.from = 1
		for i := 1; i < len(t.all); i++ {
			if !t.all[i].Visible {
				t.from = i
				break
			}
		}
	}
	t.pv = t.all[t.from:]
	var seenCur [8]int
	total := 0
	for i := range t.pv {
		total += len(expectedRefs(t.all, t.from+i, v.KeepRefs))
	}
	if cap(t.arena) < total {
		t.arena = make([]slot, 0, 2*total)
	}
	for i := range t.pv {
		p := &t.pv[i]
		refs := expectedRefs(t.all, t.from+i, v.KeepRefs)
		t.arena = t.arena[:len(t.arena)+len(refs)]
		t.slots = append(t.slots, t.arena[len(t.arena)-len(refs):])
		for j, c := range refs {
			s := &t.slots[i][j]
			*s = slot{}
			s.child = c
			for x, id := range f.Children {
				if id == c {
					s.cx = x
				}
			}
			pre := preAnnotated != nil && preAnnotated(i, j)
			if pre {
				s.pre = sentinel
			}
			s.active = !pre || v.Filter == -1 || v.Filter == -3 || v.Filter == s.cx
			s.missing = v.Withhold == s.cx
			if s.active && s.missing && !v.IgnMiss {
				// (the library asks for the history before it looks at the parent's visibility;
				// the property only promises the error for parents that get annotated)
				t.addInc(inconsistency{kind: incNoHistory, child: c, definite: p.Visible})
			}
			if !p.Visible || !s.active || s.missing {
				continue
			}
			vers := t.versions(c)
			// current at the parent's commit
			s.lo = 0
			for k := len(vers) - 1; k >= 0; k-- {
				if vers[k].Upload <= p.Upload {
					s.cur = &vers[k]
					s.lo = k + 1
					break
				}
			}
			if s.cur == nil || !s.cur.Visible {
				if !v.IgnInc {
					t.addInc(inconsistency{kind: incNoVisible, child: c, at: libTime(w, p), definite: true})
				}
				t.nontriv = true
			} else {
				if prev := seenCur[s.cx]; prev != 0 && prev != s.cur.Version {
					t.nontriv = true
				}
				seenCur[s.cx] = s.cur.Version
			}
			// later versions up to the next parent version
			s.mid, s.hi = len(vers), len(vers)
			if i+1 < len(t.pv) {
				nx := &t.pv[i+1]
				// Grouping window. With commit times known (commit-time regime) the
				// statement is exact: every version committed before the next parent
				// version is listed, whatever the threshold. Without them the last
				// threshold before the next parent version is the heuristic's to group.
				// An element without a commit time (Variant.Strip) is under the timestamp
				// rule even after 2012: the window is granted whenever one is in play.
				limit := nx.Commit
				if w.Regime() == histsim.PreCommit || v.Strip != stripNone {
					limit = nx.Commit.Add(-v.Thr)
				}
				s.mid, s.hi = s.lo, s.lo
				for k := s.lo; k < len(vers) && vers[k].Upload < nx.Upload; k++ {
					s.hi = k + 1
					if vers[k].Commit.Before(limit) {
						s.mid = k + 1
					}
				}
			}
			if s.hi > s.lo {
				t.nontriv = true
			}
			if !v.IgnInc {
				for k := s.lo; k < s.hi; k++ {
					if !vers[k].Visible {
						t.addInc(inconsistency{kind: incDeletedBetween, child: c, definite: k < s.mid})
					}
				}
			}
		}
	}
	return t
}

func (t *truth) addInc(in inconsistency) {
	for k := range t.incs {
		o := &t.incs[k]
		if o.kind == in.kind && o.child == in.child && o.at.Equal(in.at) {
			o.definite = o.definite || in.definite
			return
		}
	}
	t.incs = append(t.incs, in)
}

// classifyError reports whether err is one of the documented errors for an
// inconsistency that is really present.
func (t *truth) classifyError(err error) (ok bool, why string) {
	switch e := err.(type) {
	case *annotate.NoHistoryError:
		for _, in := range t.incs {
			if in.kind == incNoHistory && in.child == e.ID {
				t.stats.errNoHistory++
				return true, ""
			}
		}
		return false, fmt.Sprintf("NoHistoryError for %v but its history was supplied or ignorable", e.ID)
	case *annotate.NoVisibleChildError:
		for _, in := range t.incs {
			if in.kind == incNoVisible && in.child == e.ID && in.at.Equal(e.Timestamp) {
				t.stats.errNoVisible++
				return true, ""
			}
		}
		return false, fmt.Sprintf("NoVisibleChildError(%v at %v) but that child was visible at that parent version (or no such parent)", e.ID, e.Timestamp.UTC().Format(time.RFC3339Nano))
	}
	msg := err.Error()
	if strings.HasSuffix(msg, "child deleted between parent versions") {
		for _, in := range t.incs {
			if in.kind == incDeletedBetween && strings.Contains(msg, ": "+in.child.String()+": ") {
				t.stats.errDeleted++
				return true, ""
			}
		}
		return false, "'deleted between parent versions' error but no deleted version of that child lies between two parent versions: " + msg
	}
	return false, "undocumented error: " + msg
}

// finding is one oracle mismatch.
type finding struct {
	key  string
	what string
}

func annEqual(a, b ann, node bool) bool {
	if a.Ver != b.Ver || a.CS != b.CS {
		return false
	}
	return !node || (a.Lat == b.Lat && a.Lon == b.Lon)
}

func annOf(v *histsim.Version) ann { return ann{v.Version, v.Changeset, v.Lat, v.Lon} }

// relation of a child version to the parent version's upload, for shape classes
func (t *truth) curShape(i int, s *slot) string {
	switch {
	case s.cur == nil:
		return "child-not-yet-created"
	case !s.cur.Visible:
		return "child-deleted"
	case s.cur.Upload == t.pv[i].Upload:
		if s.cur.Timestamp.Before(t.pv[i].Timestamp) {
			return "child-in-same-upload-stamped-before"
		} else if s.cur.Timestamp.After(t.pv[i].Timestamp) {
			return "child-in-same-upload-stamped-after"
		}
		return "child-in-same-upload"
	case s.cur.Commit.Equal(t.pv[i].Commit):
		return "child-in-same-second-upload"
	case t.pv[i].Commit.Sub(s.cur.Commit) <= t.v.Thr:
		return "child-within-threshold-before"
	}
	return "child-well-before"
}

// compare checks a successful library result against the truth.
// times are the query instants for the time-travel clause.
func (t *truth) compare(p *parents, times []time.Time, out []finding) []finding {
	pre := t.sp.keyPrefix() + "/" + t.v.class() + "/"
	add := func(clause, shape, what string) {
		out = append(out, finding{key: clause + "/" + pre + shape, what: what})
	}
	// One defect gets a key of its own, independent of the call class: versions
	// of one child written in the same instant listed out of version order (the
	// library's final sort by index is not stable and does not compare versions).
	const disorderShape = "same-instant-versions-out-of-order"
	addDisorder := func(clause, what string) {
		out = append(out, finding{key: clause + "/" + t.sp.keyPrefix() + "/any-options/" + disorderShape, what: what})
	}
	if p.n() != len(t.pv) {
		add("harness", "parent-count", "parent versions lost")
		return out
	}
	var buf []ann
	for i := range t.pv {
		pvi := &t.pv[i]
		slots := t.slots[i]
		if p.nref(i) != len(slots) {
			add("annotation", "child-list-changed", fmt.Sprintf("parent v%d has %d refs, want %d", pvi.Version, p.nref(i), len(slots)))
			continue
		}
		ups := p.updates(i)
		if !pvi.Visible {
			t.stats.deletedParents++
			// (d) deleted parent versions receive no annotations
			for j := range slots {
				if got := p.get(i, j); got != slots[j].pre {
					add("deleted-parent", "ref-annotated", fmt.Sprintf("deleted parent v%d ref %d annotated %+v", pvi.Version, j, got))
				}
			}
			if len(ups) != 0 {
				add("deleted-parent", "has-updates", fmt.Sprintf("deleted parent v%d has %d updates", pvi.Version, len(ups)))
			}
			continue
		}
		// (a) annotations
		for j := range slots {
			s := &slots[j]
			got := p.get(i, j)
			node := s.child.Type() == osm.TypeNode
			switch {
			case !s.active:
				t.stats.filteredUntouched++
				if got != s.pre {
					add("childfilter", "filtered-child-touched", fmt.Sprintf("parent v%d ref %d (%v) was annotated on input and rejected by the filter, now %+v", pvi.Version, j, s.child, got))
				}
			case s.missing:
				t.stats.unannotatedMissing++
				if got != s.pre {
					add("missing-child", "annotated", fmt.Sprintf("parent v%d ref %d (%v): history withheld but annotated %+v", pvi.Version, j, s.child, got))
				}
			case s.cur == nil || !s.cur.Visible:
				t.stats.unannotatedInconsistent++
				if s.cur == nil {
					t.stats.notYetThere++
				}
				if got != s.pre {
					add("inconsistent-child", "annotated/"+t.curShape(i, s), fmt.Sprintf("parent v%d ref %d (%v): no visible version at its commit but annotated %+v", pvi.Version, j, s.child, got))
				}
			default:
				t.stats.refs++
				if node && (s.cur.Lat == 0 || s.cur.Lon == 0) {
					t.stats.zeroCoordinate++
				}
				if want := annOf(s.cur); !annEqual(got, want, node) {
					shape := "wrong-version"
					if got.Ver == want.Ver {
						shape = "wrong-fields"
					} else if got.Ver == 0 {
						shape = "unannotated"
					} else if got.Ver > want.Ver {
						shape = "too-new"
					} else {
						shape = "too-old"
					}
					add("annotation", shape+"/"+t.curShape(i, s), fmt.Sprintf("parent v%d ref %d (%v): got %+v, want version current at its commit %+v", pvi.Version, j, s.child, got, want))
				}
			}
		}
		// (b) update lists
		disorder := false
		last := -1
		pos := 0
		for j := range slots {
			s := &slots[j]
			// the run of updates with Index == j
			for pos < len(ups) && ups[pos].Index < j {
				if ups[pos].Index < last {
					add("updates", "not-sorted-by-index", fmt.Sprintf("parent v%d updates %v", pvi.Version, fmtUpdates(ups)))
				}
				pos++
			}
			start := pos
			for pos < len(ups) && ups[pos].Index == j {
				pos++
			}
			run := ups[start:pos]
			last = j
			for a := 0; a+1 < len(run); a++ {
				if run[a].Timestamp.Equal(run[a+1].Timestamp) && run[a].Version > run[a+1].Version {
					addDisorder("updates", fmt.Sprintf("parent v%d index %d (%v): update for version %d listed before version %d of the same instant; %d updates %v",
						pvi.Version, j, s.child, run[a].Version, run[a+1].Version, len(ups), fmtUpdates(ups)))
					disorder = true
					// judge the rest of the run as if it were in order
					run = append(osm.Updates(nil), run...)
					sort.SliceStable(run, func(x, y int) bool {
						if !run[x].Timestamp.Equal(run[y].Timestamp) {
							return run[x].Timestamp.Before(run[y].Timestamp)
						}
						return run[x].Version < run[y].Version
					})
					break
				}
			}
			if !s.active {
				continue // not judged: the property says nothing about filtered children's updates
			}
			if s.missing {
				if len(run) != 0 {
					add("missing-child", "has-updates", fmt.Sprintf("parent v%d ref %d (%v): history withheld but %d updates", pvi.Version, j, s.child, len(run)))
				}
				continue
			}
			vers := t.versions(s.child)
			node := s.child.Type() == osm.TypeNode
			k := s.lo
			bad := false
			for _, u := range run {
				for k < s.hi && !vers[k].Visible {
					k++ // deleted versions are never updates (only reachable under IgnoreInconsistency / inside the window)
				}
				if k >= s.hi {
					shape := "extra"
					if k < len(vers) {
						shape = "extra/from-next-parent-or-later"
					}
					add("updates", shape, fmt.Sprintf("parent v%d index %d (%v): unexpected update %s; updates %v", pvi.Version, j, s.child, fmtUpdate(u), fmtUpdates(ups)))
					bad = true
					break
				}
				want := &vers[k]
				t.stats.updates++
				if u.Reverse {
					t.stats.reverseFlags++
				}
				if node && (want.Lat == 0 || want.Lon == 0) {
					t.stats.zeroCoordinate++
				}
				if k >= s.mid {
					t.stats.windowUpdates++
				}
				if u.Version != want.Version {
					shape := "wrong-version"
					if u.Version > want.Version {
						shape = "skipped-version"
					} else {
						shape = "repeated-or-older-version"
					}
					add("updates", shape, fmt.Sprintf("parent v%d index %d (%v): got update %s, want version %d next; updates %v", pvi.Version, j, s.child, fmtUpdate(u), want.Version, fmtUpdates(ups)))
					bad = true
					break
				}
				if u.ChangesetID != want.Changeset || (node && (u.Lat != want.Lat || u.Lon != want.Lon)) {
					add("updates", "wrong-fields", fmt.Sprintf("parent v%d index %d (%v): update %s, want cs %d lat %v lon %v", pvi.Version, j, s.child, fmtUpdate(u), want.Changeset, want.Lat, want.Lon))
				}
				if wt := libTime(t.w, want); !u.Timestamp.Equal(wt) {
					add("updates", "wrong-timestamp", fmt.Sprintf("parent v%d index %d (%v): update %s stamped %v, want commit time %v", pvi.Version, j, s.child, fmtUpdate(u), u.Timestamp.UTC().Format(time.RFC3339Nano), wt.UTC().Format(time.RFC3339Nano)))
				}
				k++
			}
			if !bad {
				// everything in the mandatory span must have been listed
				for ; k < s.mid; k++ {
					if vers[k].Visible {
						shape := "missing"
						if s.cur == nil || !s.cur.Visible {
							shape = "missing/after-invisible-child"
						}
						add("updates", shape, fmt.Sprintf("parent v%d index %d (%v): version %d (committed %v, more than the threshold before the next parent version) not in updates %v",
							pvi.Version, j, s.child, vers[k].Version, vers[k].Commit.UTC().Format(time.RFC3339Nano), fmtUpdates(ups)))
						break
					}
				}
			}
		}
		if pos < len(ups) {
			add("updates", "index-out-of-range", fmt.Sprintf("parent v%d (%d refs) updates %v", pvi.Version, len(slots), fmtUpdates(ups)))
		}
		// (c) time travel
		var end time.Time
		hasEnd := i+1 < len(t.pv)
		if hasEnd {
			end = t.pv[i+1].Commit.Add(-t.v.Thr)
		}
		for _, q := range times {
			if q.Before(pvi.Commit) || (hasEnd && !q.Before(end)) {
				continue
			}
			var err error
			t.stats.travels++
			buf, err = p.travel(i, q, buf)
			if err != nil {
				add("timetravel", "apply-error", fmt.Sprintf("parent v%d ApplyUpdatesUpTo: %v", pvi.Version, err))
				break
			}
			failed := false
			for j := range slots {
				s := &slots[j]
				if !s.active || s.missing {
					continue
				}
				cur, ok := t.w.CurrentAt(s.child, q)
				if !ok || !cur.Visible {
					continue // nothing is promised about a child that is not there
				}
				if t.v.Late > 0 && cur.Version < t.versions(s.child)[0].Version {
					continue // ... or whose current version was not handed over
				}
				t.stats.travelRefs++
				if got, want := buf[j], annOf(cur); !annEqual(got, want, s.child.Type() == osm.TypeNode) {
					shape := "stale"
					if got.Ver > want.Ver {
						shape = "ahead"
					} else if got.Ver == want.Ver {
						shape = "wrong-fields"
					}
					what := fmt.Sprintf("parent v%d at t=%v (T+%v) ref %d (%v): got %+v, want %+v; updates %v",
						pvi.Version, q.UTC().Format(time.RFC3339Nano), q.Sub(pvi.Commit), j, s.child, got, want, fmtUpdates(ups))
					if disorder {
						addDisorder("timetravel", what)
					} else {
						add("timetravel", shape, what)
					}
					failed = true
					break
				}
			}
			if failed {
				break
			}
		}
	}
	return out
}

func fmtUpdate(u osm.Update) string {
	return fmt.Sprintf("{i%d v%d cs%d @%s}", u.Index, u.Version, u.ChangesetID, u.Timestamp.UTC().Format("15:04:05.000"))
}

func fmtUpdates(us osm.Updates) string {
	parts := make([]string, len(us))
	for i, u := range us {
		parts[i] = fmtUpdate(u)
	}
	return "[" + strings.Join(parts, " ") + "]"
}
