#!/bin/bash
# C14: annotate/order.go is instrumented from the current /repo tree and explored under vsched.
exec "$(dirname "$0")/../../engine/run_a.sh" C14 "$1" -pkg annotate:order.go -- "${@:2}"
