//go:build verif

// C14 — Child-first relation ordering: children first, once, always ends.
//
// Engine A. annotate/order.go is rewritten by tools/vinst from the current
// /repo tree and run under the cooperative scheduler.
//
//	(B) every relation reference graph of the tier's bound x a menu of request
//	    lists, drained with Next under the default schedule (the graph clauses do
//	    not depend on the schedule: producer and consumer rendezvous on an
//	    unbuffered channel);
//	(A) a fixed set of graphs x every stop point x every stop action x every
//	    schedule of producer / consumer / canceller with at most D deviations.
//
// Boundary audit (classes outside the first alphabets): every 7th graph of (B) is
// repeated in one class (ids at the 31/32/40/53/63-bit boundaries of both signs,
// member-list layouts, relation id 0 without history, invisible versions, empty
// histories, datasource errors at call 1..4, three orderings on one datasource);
// graphs on 4 ids; "shapes" far beyond the bound (depth around the capacity of
// the walker's path slice, fan-out, versions, request lists of > 1000 ids);
// every drain ends with Next twice, Close twice, Next. (A) has four more graphs,
// three more stop kinds (Close / cancel of the grand-parent from a second
// thread, context cancelled before New) and a datasource that blocks until its
// context is cancelled; its oracle judges the emitted prefix with the oracle of
// (B), a complete emission when nothing had stopped the walk, and that no
// datasource call arrives after a Close call has returned.
package main

import (
	"context"
	"errors"
	"fmt"
	"math"
	"sort"
	"strings"
	"time"

	"github.com/paulmach/osm"
	"github.com/paulmach/osm/annotate"
	"github.com/paulmach/osm/vsched"

	"verif/engine/vexplore"
	"verif/kit"
)

// graph: for every id 1..n the versions of its history; each version lists the
// relation ids it references (plus a node and a way member that must be ignored).
type graph struct {
	N        int
	Versions map[int][][]int // id -> versions -> referenced relation ids; absent = no history
	// Ways: id -> version index -> refs of WAY members of that version, placed
	// before the relation members. A way member whose ref equals a relation id is
	// not a reference to that relation (member references are typed).
	Ways map[int][][]int
	// Off is added to every id handed to the library (requests, histories,
	// member refs): relation ids are 64-bit numbers, the ordering must not depend
	// on them fitting the 40 ref bits of a packed feature id.
	Off int64
	// Inv: which versions are NOT visible (deleted versions). The property speaks
	// of "any of its versions": members of invisible versions count like all
	// others. 0 none, 1 every version, 2 the first version only, 3 the last only.
	Inv int
	// Dup: every version lists its relation members twice (ascending, then
	// descending): members repeated inside one version.
	Dup bool
	// Rev: relation members are listed in descending order of their ids.
	Rev bool
	// Odd: every version also carries members that are NOT relation members but
	// whose refs equal relation ids (types "", "changeset", "bounds", "Relation",
	// "relations", "node", "way") and - when Zero is set - a relation member
	// with ref 0 (the zero value; it has no history).
	Odd bool
	// Ann: the members carry annotations as annotate.Relations writes them into
	// the elements it was given (version, changeset, location, orientation): an
	// annotated member is a member like any other.
	Ann bool
	// Zero: this internal id (it must not have a history) is handed to the
	// library as relation id 0.
	Zero int
	// Empty: ids for which the datasource answers with an empty history and a
	// nil error. The property does not decide whether such an id "has a
	// history": its emission is allowed and not required (not judged).
	Empty map[int]bool
	// Label replaces the listing of the histories in scenario names (large graphs).
	Label string
}

// ext / intern translate between the ids of the model and the ids the library sees.
func (g graph) ext(id int) int64 {
	if g.Zero != 0 && id == g.Zero {
		return 0
	}
	return int64(id) + g.Off
}

func (g graph) intern(e int64) int {
	if g.Zero != 0 && e == 0 {
		return g.Zero
	}
	return int(e - g.Off)
}

func (g graph) String() string {
	var parts []string
	if g.Off != 0 {
		parts = append(parts, fmt.Sprintf("ids+%d", g.Off))
	}
	if g.Inv != 0 {
		parts = append(parts, fmt.Sprintf("invisible-mode-%d", g.Inv))
	}
	if g.Dup {
		parts = append(parts, "members-twice")
	}
	if g.Rev {
		parts = append(parts, "members-descending")
	}
	if g.Odd {
		parts = append(parts, "odd-members")
	}
	if g.Ann {
		parts = append(parts, "annotated-members")
	}
	if g.Zero != 0 {
		parts = append(parts, fmt.Sprintf("id%d-is-0", g.Zero))
	}
	if len(g.Empty) > 0 {
		parts = append(parts, fmt.Sprintf("empty-history%v", sortedKeys(g.Empty)))
	}
	if g.Label != "" {
		return strings.Join(append(parts, g.Label), " ")
	}
	for id := 1; id <= g.N; id++ {
		vs, ok := g.Versions[id]
		if !ok {
			parts = append(parts, fmt.Sprintf("%d:-", id))
			continue
		}
		if ws, ok := g.Ways[id]; ok {
			parts = append(parts, fmt.Sprintf("%d:%v+ways%v", id, vs, ws))
			continue
		}
		parts = append(parts, fmt.Sprintf("%d:%v", id, vs))
	}
	return strings.Join(parts, " ")
}

var errNotFound = errors.New("relation history not found")
var errBroken = errors.New("datasource broken")

type ds struct {
	g      graph
	calls  int
	failAt int // 1-based call index that fails with errBroken; 0 = never
	// failWithData: the failing call returns the history next to the error
	failWithData bool
	// stallAt: 1-based call index that blocks until the context handed to the
	// datasource is cancelled and then returns that context's error (a remote
	// datasource that honours its context); 0 = never
	stallAt int
	yield   bool
	// closed is set by the driver when a Close call has returned: the walker
	// goroutine has ended then, so no datasource call may arrive any more.
	closed bool
	late   int
}

func (d *ds) RelationHistory(ctx context.Context, ext osm.RelationID) (osm.Relations, error) {
	if d.yield {
		vsched.Yield("datasource")
	}
	d.calls++
	if d.closed {
		d.late++
	}
	if d.stallAt != 0 && d.calls == d.stallAt {
		vsched.DoneChan(ctx).Recv()
		return nil, ctx.Err()
	}
	fail := d.failAt != 0 && d.calls == d.failAt
	if fail && !d.failWithData {
		return nil, errBroken
	}
	g := d.g
	id := g.intern(int64(ext))
	if g.ext(id) != int64(ext) {
		return nil, errNotFound
	}
	if g.Empty[id] {
		if fail {
			return osm.Relations{}, errBroken
		}
		return osm.Relations{}, nil
	}
	vs, ok := g.Versions[id]
	if !ok {
		if fail {
			return nil, errBroken
		}
		return nil, errNotFound
	}
	var out osm.Relations
	for i, refs := range vs {
		vis := true
		switch g.Inv {
		case 1:
			vis = false
		case 2:
			vis = i != 0
		case 3:
			vis = i != len(vs)-1
		}
		r := &osm.Relation{ID: ext, Version: i + 1, Visible: vis, Timestamp: time.Unix(int64(1000*(i+1)), 0)}
		if ws, ok := g.Ways[id]; ok {
			// typed variant: only the listed way members, then the relation members
			for _, w := range ws[i] {
				r.Members = append(r.Members, osm.Member{Type: osm.TypeWay, Ref: int64(w), Role: "w"})
			}
		} else {
			r.Members = append(r.Members, osm.Member{Type: osm.TypeNode, Ref: int64(refs0(refs))}, osm.Member{Type: osm.TypeWay, Ref: 2})
		}
		if g.Odd {
			for x := 1; x <= g.N && x <= 4; x++ {
				for _, t := range []osm.Type{"", osm.TypeChangeset, osm.TypeBounds, "Relation", "relations", osm.TypeNode, osm.TypeWay} {
					r.Members = append(r.Members, osm.Member{Type: t, Ref: g.ext(x), Role: "sub"})
				}
			}
			if g.Zero != 0 {
				r.Members = append(r.Members, osm.Member{Type: osm.TypeRelation})
			}
		}
		order := append([]int{}, refs...)
		if g.Rev {
			sort.Sort(sort.Reverse(sort.IntSlice(order)))
		}
		if g.Dup {
			for j := len(refs) - 1; j >= 0; j-- {
				order = append(order, order[j])
			}
		}
		for _, ref := range order {
			r.Members = append(r.Members, osm.Member{Type: osm.TypeRelation, Ref: g.ext(ref), Role: "sub"})
		}
		if g.Ann {
			for j := range r.Members {
				m := &r.Members[j]
				m.Version, m.ChangesetID, m.Lat, m.Lon = 1+(i+j)%3, osm.ChangesetID(100+j), 1.5, 2.5
				if j%2 == 1 {
					m.Orientation = 1
				}
			}
		}
		out = append(out, r)
	}
	if fail {
		return out, errBroken
	}
	return out, nil
}

// a node member whose ref collides with a relation id: must not be walked
func refs0(refs []int) int { return 1 }

func (d *ds) NotFound(err error) bool { return err == errNotFound }

// sortedKeys returns the keys of m in ascending order (the oracles must not
// depend on map iteration order: a finding has to reproduce identically).
func sortedKeys(m map[int]bool) []int {
	out := make([]int, 0, len(m))
	for k := range m {
		out = append(out, k)
	}
	sort.Ints(out)
	return out
}

// reachable: ids with history reachable from id through relation members of any version.
func (g graph) reach(id int) map[int]bool {
	seen := map[int]bool{}
	var walk func(x int)
	walk = func(x int) {
		for _, refs := range g.Versions[x] {
			for _, y := range refs {
				if _, has := g.Versions[y]; has && !seen[y] {
					seen[y] = true
					walk(y)
				}
			}
		}
	}
	walk(id)
	return seen
}

func (g graph) acyclic() bool {
	for id := range g.Versions {
		if g.reach(id)[id] {
			return false
		}
	}
	return true
}

// checkPrefix judges what an iteration emitted up to any point (a complete
// drain, or one cut short by Close, cancellation or a datasource error): no id
// twice, no id without history, nothing that is neither requested nor
// reachable from a requested id, and - on acyclic graphs - every emitted
// relation after ALL relations reachable from it (a relation whose descendant
// was not emitted yet must not have been emitted either). complete adds: every
// requested id with a history was emitted.
func checkPrefix(g graph, req []int, got []int, complete bool) (string, string) {
	pos := map[int]int{}
	for i, id := range got {
		if _, dup := pos[id]; dup {
			return "emitted-twice", fmt.Sprintf("id %d emitted twice: %v", id, short(got))
		}
		pos[id] = i
		if _, has := g.Versions[id]; !has && !g.Empty[id] {
			return "emitted-without-history", fmt.Sprintf("id %d has no history but was emitted: %v", id, short(got))
		}
	}
	if complete {
		for _, id := range req {
			if _, has := g.Versions[id]; has {
				if _, ok := pos[id]; !ok {
					return "requested-not-emitted", fmt.Sprintf("requested id %d has a history but was not emitted: %v", id, short(got))
				}
			}
		}
	}
	// nothing but requested ids and what they reach
	allowed := map[int]bool{}
	for _, id := range req {
		allowed[id] = true
		for y := range g.reach(id) {
			allowed[y] = true
		}
	}
	if len(g.Empty) > 0 {
		// ids answered with an empty history are leaves that may or may not be emitted
		for _, id := range sortedKeys(allowed) {
			for _, refs := range g.Versions[id] {
				for _, y := range refs {
					if g.Empty[y] {
						allowed[y] = true
					}
				}
			}
		}
	}
	for _, id := range got {
		if !allowed[id] {
			return "emitted-unrelated", fmt.Sprintf("id %d is neither requested nor reachable: %v", id, short(got))
		}
	}
	if g.acyclic() {
		for _, id := range got {
			for _, y := range sortedKeys(g.reach(id)) {
				if _, ok := pos[y]; !ok {
					return "child-missing", fmt.Sprintf("relation %d emitted but its descendant %d never: %v", id, y, short(got))
				}
				if pos[y] > pos[id] {
					return "child-after-parent", fmt.Sprintf("relation %d emitted before %d which it references: %v", id, y, short(got))
				}
			}
		}
	}
	return "", ""
}

// checkEmission judges a complete drain.
func checkEmission(g graph, req []int, got []int) (string, string) {
	return checkPrefix(g, req, got, true)
}

func short(l []int) string {
	if len(l) > 40 {
		return fmt.Sprintf("%v ... (%d ids)", l[:40], len(l))
	}
	return fmt.Sprint(l)
}

func relIDs(g graph, ids []int) []osm.RelationID {
	if ids == nil {
		return nil // a nil request list (the menu's empty list is non-nil)
	}
	out := make([]osm.RelationID, len(ids))
	for i, id := range ids {
		out[i] = osm.RelationID(g.ext(id))
	}
	return out
}

func reqString(req []int) string {
	if req == nil {
		return "<nil>"
	}
	if len(req) > 12 {
		h := uint64(14695981039346656037)
		for _, x := range req {
			h = (h ^ uint64(x)) * 1099511628211
		}
		return fmt.Sprintf("[%d ids %v... #%x]", len(req), req[:8], h&0xffffff)
	}
	return fmt.Sprint(req)
}

// drainOpt: variations of the drain driver.
type drainOpt struct {
	// errEvery: Err() before every Next and RelationID() twice after it
	errEvery bool
	// failAt / failWithData: see ds
	failAt       int
	failWithData bool
}

// drainScenario: part (B).
func drainScenario(g graph, req []int) vexplore.Scenario {
	return drainScenarioOpt(g, req, drainOpt{})
}

func drainScenarioOpt(g graph, req []int, opt drainOpt) vexplore.Scenario {
	name := fmt.Sprintf("drain graph{%s} request%s", g, reqString(req))
	if opt.errEvery {
		name += " Err-before-every-Next"
	}
	if opt.failAt != 0 {
		name += fmt.Sprintf(" datasource-error-at-call-%d", opt.failAt)
		if opt.failWithData {
			name += "-with-data"
		}
	}
	return vexplore.Scenario{Name: name, Family: "drain", Bound: 0, OnlyChildBelow: true, New: func() (func(), func(*vsched.Outcome) ([]vexplore.Finding, string, bool)) {
		var got []int
		var finalErr, midErr error
		budgetHit := false
		closed := false
		unstable := false
		var again1, again2, afterClose bool
		d := &ds{g: g, failAt: opt.failAt, failWithData: opt.failWithData}
		main := func() {
			o := annotate.NewChildFirstOrdering(context.Background(), relIDs(g, req), d)
			for {
				if opt.errEvery {
					if e := o.Err(); e != nil && midErr == nil {
						midErr = e
					}
				}
				if !o.Next() {
					break
				}
				id := o.RelationID()
				if opt.errEvery && (o.RelationID() != id || o.RelationID() != id) {
					unstable = true
				}
				got = append(got, g.intern(int64(id)))
				if len(got) > 10*(g.N+1) {
					budgetHit = true
					break
				}
			}
			finalErr = o.Err()
			if !budgetHit {
				// Next after it returned false, twice
				again1 = o.Next()
				again2 = o.Next()
			}
			o.Close()
			d.closed = true
			o.Close() // Close twice
			afterClose = o.Next()
			closed = true
		}
		check := func(out *vsched.Outcome) ([]vexplore.Finding, string, bool) {
			var fs []vexplore.Finding
			nontrivial := len(got) >= 2
			if out.Kind != "ok" {
				return []vexplore.Finding{{"drain/" + out.Kind, fmt.Sprintf("execution ended in %s: %s", out.Kind, out.Detail)}}, "", nontrivial
			}
			failed := opt.failAt != 0 && d.calls >= opt.failAt
			if failed {
				nontrivial = true
			}
			if budgetHit {
				fs = append(fs, vexplore.Finding{"drain/never-ends", fmt.Sprintf("more than %d emissions: %v", 10*(g.N+1), short(got))})
			} else if k, m := checkPrefix(g, req, got, !failed); k != "" {
				fs = append(fs, vexplore.Finding{"drain/" + k, m})
			}
			if !budgetHit {
				if failed {
					if finalErr == nil {
						fs = append(fs, vexplore.Finding{"drain/err-nil-after-error", fmt.Sprintf("Err() is nil although datasource call %d failed", opt.failAt)})
					}
				} else {
					if finalErr != nil {
						fs = append(fs, vexplore.Finding{"drain/error-after-complete-walk", fmt.Sprintf("Err() = %v after a complete walk", finalErr)})
					}
					if midErr != nil {
						fs = append(fs, vexplore.Finding{"drain/error-during-healthy-walk", fmt.Sprintf("Err() = %v between two Next calls of a walk that nothing disturbed", midErr)})
					}
				}
			}
			if unstable {
				fs = append(fs, vexplore.Finding{"drain/relation-id-unstable", "RelationID() changed between two calls without a Next in between"})
			}
			if again1 || again2 {
				fs = append(fs, vexplore.Finding{"drain/next-true-after-end", "Next returned true after it had returned false"})
			}
			if afterClose {
				fs = append(fs, vexplore.Finding{"drain/next-true-after-close", "Next returned true after Close"})
			}
			if d.late > 0 {
				fs = append(fs, vexplore.Finding{"drain/datasource-call-after-close", fmt.Sprintf("%d datasource call(s) arrived after Close had returned: the walker goroutine had not ended", d.late)})
			}
			if !closed {
				fs = append(fs, vexplore.Finding{"drain/close-did-not-return", "Close did not return"})
			}
			return fs, short(got), nontrivial
		}
		return main, check
	}}
}

// twinScenario: three orderings over ONE datasource and one parent context. A is
// closed after its first emission while B is in the middle of its walk, B is
// drained completely; C is created after both were closed and drained too.
// Nothing of one ordering (visited set, context, goroutine) may leak into another.
func twinScenario(g graph, reqA, reqB []int) vexplore.Scenario {
	name := fmt.Sprintf("twin graph{%s} A=request%s closed early, B=request%s, then C=request%s", g, reqString(reqA), reqString(reqB), reqString(reqA))
	return vexplore.Scenario{Name: name, Family: "drain-twin", Bound: 0, OnlyChildBelow: true, New: func() (func(), func(*vsched.Outcome) ([]vexplore.Finding, string, bool)) {
		var gotA, gotB, gotC []int
		var errB, errC error
		done := false
		lim := 10 * (g.N + 1)
		main := func() {
			d := &ds{g: g}
			parent, cancel := vsched.WithCancel(context.Background())
			a := annotate.NewChildFirstOrdering(parent, relIDs(g, reqA), d)
			b := annotate.NewChildFirstOrdering(parent, relIDs(g, reqB), d)
			bMore := b.Next()
			if bMore {
				gotB = append(gotB, g.intern(int64(b.RelationID())))
			}
			if a.Next() {
				gotA = append(gotA, g.intern(int64(a.RelationID())))
			}
			a.Close()
			for bMore && len(gotB) <= lim {
				if bMore = b.Next(); bMore {
					gotB = append(gotB, g.intern(int64(b.RelationID())))
				}
			}
			errB = b.Err()
			b.Close()
			c := annotate.NewChildFirstOrdering(parent, relIDs(g, reqA), d)
			for len(gotC) <= lim && c.Next() {
				gotC = append(gotC, g.intern(int64(c.RelationID())))
			}
			errC = c.Err()
			c.Close()
			cancel()
			done = true
		}
		check := func(out *vsched.Outcome) ([]vexplore.Finding, string, bool) {
			var fs []vexplore.Finding
			if out.Kind != "ok" {
				return []vexplore.Finding{{"twin/" + out.Kind, fmt.Sprintf("execution ended in %s: %s", out.Kind, out.Detail)}}, "", true
			}
			if !done {
				return []vexplore.Finding{{"twin/did-not-finish", "the driver did not finish"}}, "", true
			}
			if k, m := checkPrefix(g, reqA, gotA, false); k != "" {
				fs = append(fs, vexplore.Finding{"twin/A/" + k, m})
			}
			if len(gotB) > lim || len(gotC) > lim {
				fs = append(fs, vexplore.Finding{"twin/never-ends", fmt.Sprintf("more than %d emissions: B %v C %v", lim, short(gotB), short(gotC))})
				return fs, "", true
			}
			if k, m := checkPrefix(g, reqB, gotB, true); k != "" {
				fs = append(fs, vexplore.Finding{"twin/B/" + k, "ordering B (another ordering on the same datasource and parent context was closed meanwhile): " + m})
			}
			if k, m := checkPrefix(g, reqA, gotC, true); k != "" {
				fs = append(fs, vexplore.Finding{"twin/C/" + k, "ordering C (created after two orderings on the same datasource were closed): " + m})
			}
			if errB != nil || errC != nil {
				fs = append(fs, vexplore.Finding{"twin/error-after-complete-walk", fmt.Sprintf("Err() after complete walks: B %v, C %v", errB, errC)})
			}
			return fs, fmt.Sprintf("%v|%v|%v", short(gotA), short(gotB), short(gotC)), len(gotB)+len(gotC) >= 2
		}
		return main, check
	}}
}

const (
	stopClose = iota
	stopCancelSelf
	stopCancelOther
	stopDSError
	stopCloseOther   // a second thread calls Close while the consumer drains
	stopCancelGrand  // a second thread cancels the grand-parent of the context given to the ordering
	stopPreCancelled // the context is already cancelled when the ordering is created
)

var stopNames = []string{"Close", "cancel-from-consumer", "cancel-from-second-thread", "datasource-error",
	"Close-from-second-thread", "cancel-grandparent-from-second-thread", "context-cancelled-before-New"}

// stopScenario: part (A). stall != 0: datasource call number stall blocks until
// the context it was given is cancelled (only with the second-thread stops: the
// consumer is blocked in Next meanwhile).
func stopScenario(gname string, g graph, req []int, k, stop, bound, stall int) vexplore.Scenario {
	name := fmt.Sprintf("stop graph=%s request%s after %d Next by %s", gname, reqString(req), k, stopNames[stop])
	fam := "stop/" + stopNames[stop]
	if stall != 0 {
		name = fmt.Sprintf("stop graph=%s request%s datasource call %d blocks until its context is cancelled, %s", gname, reqString(req), stall, stopNames[stop])
		fam = "stop/stalled-datasource+" + stopNames[stop]
	}
	return vexplore.Scenario{Name: name, Family: fam, Bound: bound, New: func() (func(), func(*vsched.Outcome) ([]vexplore.Finding, string, bool)) {
		var got []int
		var phase string
		var nextAfterStop, nextAfterClose bool
		var errAfter error
		var ended bool // Next returned false before the stop was issued
		d := &ds{g: g, yield: true, stallAt: stall}
		secondThread := stop == stopCancelOther || stop == stopCloseOther || stop == stopCancelGrand
		main := func() {
			if stop == stopDSError {
				d.failAt = k + 1
			}
			var ctx context.Context
			var cancel, cancelRoot context.CancelFunc
			if stop == stopCancelGrand {
				var root context.Context
				root, cancelRoot = vsched.WithCancel(context.Background())
				ctx, cancel = vsched.WithCancel(root)
			} else {
				ctx, cancel = vsched.WithCancel(context.Background())
			}
			if stop == stopPreCancelled {
				cancel()
			}
			o := annotate.NewChildFirstOrdering(ctx, relIDs(g, req), d)
			switch stop {
			case stopCancelOther:
				vsched.GoNamed("canceller", func() { cancel() })
			case stopCancelGrand:
				vsched.GoNamed("canceller", func() { cancelRoot() })
			case stopCloseOther:
				vsched.GoNamed("closer", func() {
					o.Close()
					d.closed = true
				})
			}
			limit := k
			if secondThread || stop == stopDSError {
				limit = 1 << 20 // drain until it ends by itself
			}
			phase = "scanning"
			for i := 0; i < limit; i++ {
				if !o.Next() {
					ended = true
					break
				}
				got = append(got, g.intern(int64(o.RelationID())))
				if len(got) > 50 {
					break
				}
			}
			phase = "stopping"
			switch stop {
			case stopClose:
				o.Close()
				d.closed = true
			case stopCancelSelf:
				cancel()
			}
			phase = "after-stop"
			nextAfterStop = o.Next()
			errAfter = o.Err()
			phase = "closing"
			o.Close()
			d.closed = true
			phase = "closed"
			nextAfterClose = o.Next()
			cancel()
		}
		check := func(out *vsched.Outcome) ([]vexplore.Finding, string, bool) {
			var fs []vexplore.Finding
			add := func(k, m string) { fs = append(fs, vexplore.Finding{Key: "stop/" + k + "/" + stopNames[stop], Msg: m}) }
			stopBySelf := stop == stopClose || stop == stopCancelSelf || stop == stopPreCancelled
			nonvac := !ended && len(got) == k && stopBySelf
			if secondThread || stop == stopDSError {
				nonvac = true
			}
			if out.Kind != "ok" {
				add(out.Kind, fmt.Sprintf("execution ended in %s while %s: %s", out.Kind, phase, out.Detail))
				return fs, "", nonvac
			}
			// what was emitted before the stop is a prefix of a legal emission; it is
			// a complete one when Next returned false and nothing had gone wrong:
			// for the consumer's own stops "ended" means the stop came after the end,
			// for the others Err() == nil afterwards means neither cancellation nor a
			// datasource error had happened when the iteration ended
			complete := ended && (stop == stopClose || stop == stopCancelSelf || errAfter == nil) && len(got) <= 50
			if kk, m := checkPrefix(g, req, got, complete); kk != "" {
				add(kk, m)
			}
			if nextAfterStop && stopBySelf {
				add("next-true-after-stop", "Next returned true after "+stopNames[stop])
			}
			if nextAfterStop && !stopBySelf && ended {
				add("next-true-after-end", "Next returned true after it had returned false")
			}
			if nextAfterClose {
				add("next-true-after-close", "Next returned true after Close")
			}
			if d.late > 0 {
				add("datasource-call-after-close", fmt.Sprintf("%d datasource call(s) arrived after a Close call had returned: the walker goroutine had not ended", d.late))
			}
			switch stop {
			case stopClose, stopCancelSelf, stopPreCancelled:
				if errAfter == nil {
					add("err-nil-after-stop", "Err() is nil after "+stopNames[stop])
				}
			case stopDSError:
				// (the drain only stops when Next returns false: whether the failing
				// call happened is read off the datasource, not off "ended")
				if errAfter == nil && d.calls >= d.failAt {
					add("err-nil-after-error", fmt.Sprintf("Err() is nil although datasource call %d failed", d.failAt))
				}
			}
			if stall != 0 && d.calls >= stall && errAfter == nil {
				add("err-nil-after-stop", "Err() is nil although a datasource call was ended by the cancellation")
			}
			return fs, fmt.Sprintf("%v|%v|%v", got, errAfter, ended), nonvac
		}
		return main, check
	}}
}

func subsets(n int) [][]int {
	var out [][]int
	for m := 0; m < 1<<uint(n); m++ {
		var s []int
		for i := 0; i < n; i++ {
			if m&(1<<uint(i)) != 0 {
				s = append(s, i+1)
			}
		}
		out = append(out, s)
	}
	return out
}

// histories: the menu of histories of one id over n ids. two: also all two-version histories.
func histories(n int, two bool) [][][]int {
	subs := subsets(n)
	out := [][][]int{nil} // nil = no history
	for _, a := range subs {
		out = append(out, [][]int{a})
	}
	if two {
		for _, a := range subs {
			for _, b := range subs {
				out = append(out, [][]int{a, b})
			}
		}
	}
	return out
}

func allGraphs(n int, twoFor int) []graph {
	var out []graph
	var rec func(id int, cur map[int][][]int)
	rec = func(id int, cur map[int][][]int) {
		if id > n {
			g := graph{N: n, Versions: map[int][][]int{}}
			for k, v := range cur {
				g.Versions[k] = v
			}
			out = append(out, g)
			return
		}
		for hi, h := range histories(n, id <= twoFor) {
			if hi == 0 {
				delete(cur, id)
			} else {
				cur[id] = h
			}
			rec(id+1, cur)
		}
		delete(cur, id)
	}
	rec(1, map[int][][]int{})
	return out
}

// graphCount / graphAt enumerate the graphs by index (mixed radix over the
// per-id history menus) so that no process has to hold the whole list.
func graphCount(n, twoFor int) int {
	c := 1
	for id := 1; id <= n; id++ {
		c *= len(histories(n, id <= twoFor))
	}
	return c
}

func graphAt(n, twoFor, idx int) graph {
	g := graph{N: n, Versions: map[int][][]int{}}
	for id := 1; id <= n; id++ {
		hs := histories(n, id <= twoFor)
		h := hs[idx%len(hs)]
		idx /= len(hs)
		if h != nil {
			g.Versions[id] = h
		}
	}
	return g
}

func requestLists(n int, maxLen int) [][]int {
	ids := []int{}
	for i := 1; i <= n; i++ {
		ids = append(ids, i)
	}
	ids = append(ids, 9) // unknown id
	out := [][]int{{}}
	var rec func(cur []int)
	rec = func(cur []int) {
		if len(cur) == maxLen {
			return
		}
		for _, id := range ids {
			nx := append(append([]int{}, cur...), id)
			out = append(out, nx)
			rec(nx)
		}
	}
	rec(nil)
	return out
}

// histories4: the menu of the n = 4 family: no history, or one version over every
// member subset of at most maxDeg ids.
func histories4(n, maxDeg int) [][][]int {
	out := [][][]int{nil}
	for _, a := range subsets(n) {
		if len(a) <= maxDeg {
			out = append(out, [][]int{a})
		}
	}
	return out
}

func graph4At(n, maxDeg, idx int) graph {
	g := graph{N: n, Versions: map[int][][]int{}}
	hs := histories4(n, maxDeg)
	for id := 1; id <= n; id++ {
		h := hs[idx%len(hs)]
		idx /= len(hs)
		if h != nil {
			g.Versions[id] = h
		}
	}
	return g
}

func seq(from, to int) []int {
	var out []int
	if from <= to {
		for i := from; i <= to; i++ {
			out = append(out, i)
		}
	} else {
		for i := from; i >= to; i-- {
			out = append(out, i)
		}
	}
	return out
}

// shape: one larger graph with its request lists (family "drain-shapes").
type shape struct {
	g    graph
	reqs [][]int
}

// shapes: graphs beyond the exhaustive bound, each chosen for one boundary: depth
// around the capacity of the walker's path slice (100), fan-out, number of
// versions, length of the request list, cycles entered at every point.
func shapes(quick bool) []shape {
	var out []shape
	add := func(label string, n int, vs map[int][][]int, reqs ...[]int) {
		out = append(out, shape{graph{N: n, Versions: vs, Label: fmt.Sprintf("%s(%d ids)", label, n)}, reqs})
	}
	chain := func(l int) map[int][][]int {
		vs := map[int][][]int{}
		for i := 1; i < l; i++ {
			vs[i] = [][]int{{i + 1}}
		}
		vs[l] = [][]int{{}}
		return vs
	}
	lens := []int{4, 5, 8, 99, 100, 101, 102, 103}
	if !quick {
		lens = append(lens, 150, 257, 1000)
	}
	for _, l := range lens {
		add("chain", l, chain(l), []int{1}, seq(l, 1), seq(1, l), []int{l/2 + 1, 1}, []int{2, 1, 9, l})
		// the same chain closed into a cycle at its head, its middle and its tail
		for _, to := range []int{1, l/2 + 1, l} {
			vs := chain(l)
			vs[l] = [][]int{{to}}
			out = append(out, shape{graph{N: l, Versions: vs, Label: fmt.Sprintf("chain(%d ids) whose last id points back at %d", l, to)},
				[][]int{{1}, {to}, {l}, {l/2 + 1, 1}, seq(l, 1)}})
		}
	}
	// a ring of 6 entered at every point, with a tail hanging off it and an entry from outside
	{
		vs := map[int][][]int{}
		for i := 1; i <= 6; i++ {
			vs[i] = [][]int{{i%6 + 1}}
		}
		vs[3] = [][]int{{4, 7}}
		vs[7] = [][]int{{8}}
		vs[8] = [][]int{{}}
		vs[9] = [][]int{{5}}
		var reqs [][]int
		for i := 1; i <= 9; i++ {
			reqs = append(reqs, []int{i}, []int{i, i%9 + 1}, []int{9, i})
		}
		add("ring of 6 with tail 3-7-8 and entry 9-5", 9, vs, reqs...)
	}
	// complete binary tree of depth 3
	{
		vs := map[int][][]int{}
		for i := 1; i <= 15; i++ {
			if 2*i+1 <= 15 {
				vs[i] = [][]int{{2 * i, 2*i + 1}}
			} else {
				vs[i] = [][]int{{}}
			}
		}
		add("binary tree", 15, vs, []int{1}, []int{8, 1}, []int{3, 2, 1}, seq(1, 15), seq(15, 1))
	}
	// ladder of diamonds: shared grand-children at every level
	{
		vs := map[int][][]int{}
		for b := 1; b <= 7; b += 3 {
			vs[b] = [][]int{{b + 1, b + 2}}
			vs[b+1] = [][]int{{b + 3}}
			vs[b+2] = [][]int{{b + 3}, {b + 3, b + 1}}
		}
		vs[10] = [][]int{{}}
		add("ladder of three diamonds", 10, vs, []int{1}, []int{4, 1}, []int{10, 7, 4, 1}, []int{3, 2}, seq(1, 10), seq(10, 1))
	}
	// complete DAG and complete digraph (every path / every cycle at once)
	for _, n := range []int{5, 7} {
		dag, full := map[int][][]int{}, map[int][][]int{}
		for i := 1; i <= n; i++ {
			dag[i] = [][]int{{}}
			if i < n {
				dag[i] = [][]int{seq(i+1, n)}
			}
			full[i] = [][]int{seq(1, n), seq(n, 1)}
		}
		add("complete DAG", n, dag, []int{1}, seq(1, n), seq(n, 1), []int{n/2 + 1, 1})
		add("complete digraph, two versions", n, full, []int{1}, []int{n}, seq(1, n), seq(n, 1))
	}
	// fan-out: one relation with 300 different children (half of them without
	// history), and with the same child 300 times
	{
		vs := map[int][][]int{1: {seq(2, 301)}}
		for i := 2; i <= 301; i += 2 {
			vs[i] = [][]int{{}}
		}
		add("fan-out 300, odd children without history", 301, vs, []int{1}, []int{301, 300, 1}, seq(301, 1))
		same := make([]int, 300)
		for i := range same {
			same[i] = 2
		}
		add("one child 300 times", 2, map[int][][]int{1: {same, same}, 2: {{}}}, []int{1}, []int{2, 1})
	}
	// many versions: the same child in each of 60 versions; a different child in each
	{
		v1, v2 := [][]int{}, [][]int{}
		vs2 := map[int][][]int{}
		for i := 0; i < 60; i++ {
			v1 = append(v1, []int{2})
			v2 = append(v2, []int{i + 2})
			vs2[i+2] = [][]int{{}}
		}
		add("60 versions with the same child", 2, map[int][][]int{1: v1, 2: {{}, {}, {}}}, []int{1}, []int{2, 1})
		vs2[1] = v2
		vs2[61] = [][]int{{2}}
		add("60 versions with 60 different children", 61, vs2, []int{1}, []int{61, 1}, []int{31, 1, 2})
	}
	// very long request lists over a small graph: 1000 ids cycling through known,
	// unknown and repeated ids; 600 ids none of which has a history
	{
		long := make([]int, 0, 1000)
		for i := 0; i < 1000; i++ {
			long = append(long, []int{3, 9, 1, 1, 2, 8, 3}[i%7])
		}
		add("small chain", 3, chain(3), long, append(seq(9, 300), long...))
		add("nothing has a history", 3, map[int][][]int{}, seq(1, 600), []int{1}, []int{})
	}
	return out
}

func main() {
	kit.Main("C14", "model_checking", func(r *kit.Run) {
		r.Rule("(B) every relation graph on 3 ids (each id: no history, one version over every member subset, id 1 also every two-version history) x request lists up to the tier's length (plus all orders of the three ids), every drain followed by Next twice, Close twice and Next again; every 7th graph repeated per class: ids at the boundaries of 31/32/40/53/63 bits (positive and negative) with Err() before every Next, members descending / twice / of seven non-relation types with equal refs / a relation member with ref 0 / request id 0, invisible versions, ids answered with an empty history, a datasource error at call 1..4, three orderings on one datasource and one parent context; " +
			"every graph on 4 ids with out-degree <= 2 (thorough: every out-degree) x 2-3 request lists; larger shapes (chains of 4..103 ids around the walker's path capacity, closed into cycles at three points; ring entered everywhere; tree; diamond ladder; complete DAG / digraph; fan-out 300; 60 versions; request lists of 600-1300 ids); a typed family (id 1 with two versions over every ordered list of <= 2 way/relation members on refs 1..3), drained under the default schedule; " +
			"(A) 11 fixed graphs x every stop point k x {Close, cancel from consumer, cancel from a second thread, datasource error at call k+1, Close from a second thread, cancel of the grand-parent context from a second thread, context cancelled before New} and {cancel, Close from a second thread} x a datasource whose call j blocks until its context is cancelled, x every schedule with <= D deviations, both priority configurations; " +
			"distinct_nontrivial counts distinct complete operation sequences plus distinct observed outcomes; states = execution-tree nodes, transitions = visible operations executed")
		r.Assume("annotate/order.go as rewritten by tools/vinst (channel ops, select, go, WaitGroup, context) behaves like the original under a sequentially consistent scheduler")
		r.Assume("data races on ChildFirstOrdering.err/CompletedIndex are recorded as information only: the property does not claim race freedom")
		r.Assume("not judged because the property text does not decide it: whether an id whose datasource answer is an empty history with a nil error is emitted (drains_with_unjudged_emission_of_empty_history_ids counts the drains; everything else of those drains is judged); a relation with id 0 that HAS a history (0 is only used as an id without history); the values of CompletedIndex, of RelationID() before the first and after the last successful Next, of Err() after Close of a completed walk; how often the datasource is asked")
		var scs []vexplore.Scenario
		n, twoFor, reqLen := 3, 1, 2
		dA := 4
		if !r.Quick() {
			n, twoFor, reqLen = 3, 3, 2
			dA = 5
		}
		reqs := requestLists(n, reqLen)
		reqs = append(reqs, []int{1, 2, 3}, []int{3, 2, 1}, []int{1, 1, 2}, []int{2, 9, 1}, []int{3, 3, 3})
		// the other orders of the three ids
		reqs = append(reqs, []int{1, 3, 2}, []int{2, 1, 3}, []int{2, 3, 1}, []int{3, 1, 2})
		// the classes below use smaller menus (classReqs has a nil list next to the
		// empty one and a list longer than the graph)
		classReqs := [][]int{{}, nil, {1}, {3}, {9}, {3, 1}, {1, 2, 3}, {3, 2, 1}, {2, 9, 1, 1, 3}, {3, 9, 2, 2, 1, 3, 9, 1}}
		someReqs := [][]int{{1}, {3, 1}, {2, 9, 1}, {3, 2, 1}}
		posOffs := []int64{math.MaxInt64 - 9, 1<<31 - 2, 1<<32 - 2, 1<<40 - 2, 1<<53 - 2}
		negOffs := []int64{math.MinInt64, -(1 << 31) - 2, -(1 << 40) - 2}
		// the drain family is produced lazily, 400 graphs per worker job
		ngraphs := graphCount(n, twoFor)
		var gens []vexplore.Generator
		for lo := 0; lo < ngraphs; lo += 400 {
			lo := lo
			hi := lo + 400
			if hi > ngraphs {
				hi = ngraphs
			}
			gens = append(gens, vexplore.Generator{Name: fmt.Sprintf("drain graphs %d..%d", lo, hi-1), Gen: func(yield func(*vexplore.Scenario) bool) {
				all := func(g graph, family string, rqs [][]int, opt drainOpt) bool {
					for _, rq := range rqs {
						sc := drainScenarioOpt(g, rq, opt)
						sc.Family = family
						if len(g.Empty) > 0 {
							r.Add("drains_with_unjudged_emission_of_empty_history_ids", 1)
						}
						if !yield(&sc) {
							return false
						}
					}
					return true
				}
				for gi := lo; gi < hi; gi++ {
					g := graphAt(n, twoFor, gi)
					if !all(g, "drain", reqs, drainOpt{}) {
						return
					}
					sub := gi / 7
					v := g
					switch gi % 7 {
					case 5:
						// ... and with negative ids (placeholder ids of editors)
						v.Off = -1000
						if !all(v, "drain-negative-ids", reqs, drainOpt{}) {
							return
						}
					case 3:
						// the same graph with ids beyond 40 bits
						v.Off = 1<<40 + 1<<35
						if !all(v, "drain-big-ids", reqs, drainOpt{}) {
							return
						}
					case 0:
						// ids straddling 2^31, 2^32, 2^40, 2^53 and ending at the largest
						// int64; the consumer also asks Err() before every Next
						v.Off = posOffs[sub%len(posOffs)]
						if !all(v, "drain-boundary-ids", classReqs, drainOpt{errEvery: true}) {
							return
						}
					case 6:
						// the negative counterparts, starting at the smallest int64 + 1
						v.Off = negOffs[sub%len(negOffs)]
						if !all(v, "drain-boundary-ids", classReqs, drainOpt{errEvery: sub%2 == 0}) {
							return
						}
						// three orderings on one datasource and one parent context
						for i, rq := range someReqs {
							sc := twinScenario(g, rq, someReqs[(i+sub)%len(someReqs)])
							if !yield(&sc) {
								return
							}
						}
					case 1:
						// member lists: descending, (every other graph) twice, with
						// non-relation members of seven types whose refs equal relation
						// ids, with a relation member of ref 0; the unknown id 9 of the
						// request lists is relation id 0
						v.Rev, v.Odd, v.Zero = true, true, 9
						v.Dup = sub%2 == 0
						v.Ann = sub%2 == 1
						if !all(v, "drain-member-lists", classReqs, drainOpt{}) {
							return
						}
					case 2:
						if sub%4 == 3 {
							// every id without history (and the unknown id 9) is answered
							// with an empty history and a nil error
							v.Empty = map[int]bool{9: true}
							for id := 1; id <= n; id++ {
								if _, has := g.Versions[id]; !has {
									v.Empty[id] = true
								}
							}
							if !all(v, "drain-empty-history", classReqs, drainOpt{}) {
								return
							}
						} else {
							v.Inv = sub%4 + 1
							v.Ann = true
							if !all(v, "drain-invisible-versions", classReqs, drainOpt{}) {
								return
							}
						}
					case 4:
						// a datasource error (not "not found") at call 1..4
						for at := 1; at <= 4; at++ {
							if !all(g, "drain-datasource-error", someReqs, drainOpt{failAt: at, failWithData: (sub+at)%2 == 0}) {
								return
							}
						}
					}
				}
			}})
		}
		// graphs on 4 ids: out-degree <= 2 in the quick tier
		maxDeg := 2
		if !r.Quick() {
			maxDeg = 4
		}
		n4 := 1
		for i := 0; i < 4; i++ {
			n4 *= len(histories4(4, maxDeg))
		}
		reqs4 := [][]int{{1}, {4, 3, 2, 1}, {2, 4}}
		for lo := 0; lo < n4; lo += 1500 {
			lo := lo
			hi := lo + 1500
			if hi > n4 {
				hi = n4
			}
			gens = append(gens, vexplore.Generator{Name: fmt.Sprintf("drain 4-id graphs %d..%d", lo, hi-1), Gen: func(yield func(*vexplore.Scenario) bool) {
				for gi := lo; gi < hi; gi++ {
					g := graph4At(4, maxDeg, gi)
					g.Ann = gi%2 == 1 // every other graph with annotated members
					for ri, rq := range reqs4 {
						if ri == 2 && gi%3 != 0 {
							continue // the third list on every third graph (quick-tier time budget)
						}
						sc := drainScenario(g, rq)
						sc.Family = "drain-4-ids"
						if !yield(&sc) {
							return
						}
					}
				}
			}})
		}
		r.Set("graphs_4_ids", n4)
		// larger shapes
		shp := shapes(r.Quick())
		nshape := 0
		for i := range shp {
			sh := shp[i]
			nshape += len(sh.reqs)
			gens = append(gens, vexplore.Generator{Name: "shape " + sh.g.String(), Gen: func(yield func(*vexplore.Scenario) bool) {
				for j, rq := range sh.reqs {
					sc := drainScenarioOpt(sh.g, rq, drainOpt{errEvery: j%2 == 1})
					sc.Family = "drain-shapes"
					sc.MaxSteps = 200000
					if !yield(&sc) {
						return
					}
					if j == 0 {
						// the first request list also on a datasource that fails late, and
						// with the member-list variations
						e := drainScenarioOpt(sh.g, rq, drainOpt{failAt: sh.g.N/2 + 2})
						e.Family, e.MaxSteps = "drain-shapes", 200000
						v := sh.g
						v.Rev, v.Dup, v.Inv = true, true, 1
						w := drainScenario(v, rq)
						w.Family, w.MaxSteps = "drain-shapes", 200000
						if !yield(&e) || !yield(&w) {
							return
						}
					}
				}
			}})
		}
		r.Set("shape_drains", nshape)
		// typed family: id 1 has two versions whose member lists are every ordered
		// list of <= 2 members over refs {1,2,3} x {way, relation}; ids 2 and 3 have
		// one version over every relation subset (or no history). A member that keeps
		// its number and changes its type between versions must be seen as a change.
		typedReqs := [][]int{{1}, {1, 2}, {1, 3}, {2, 1}, {3, 1}, {1, 2, 3}, {3, 2, 1}, {9, 1}}
		type tm struct {
			way bool
			ref int
		}
		var lists [][]tm
		lists = append(lists, nil)
		for _, w1 := range []bool{false, true} {
			for r1 := 1; r1 <= 3; r1++ {
				lists = append(lists, []tm{{w1, r1}})
				for _, w2 := range []bool{false, true} {
					for r2 := 1; r2 <= 3; r2++ {
						lists = append(lists, []tm{{w1, r1}, {w2, r2}})
					}
				}
			}
		}
		split := func(l []tm) (rels, ways []int) {
			rels, ways = []int{}, []int{}
			for _, m := range l {
				if m.way {
					ways = append(ways, m.ref)
				} else {
					rels = append(rels, m.ref)
				}
			}
			return
		}
		others := histories(3, false)
		if r.Quick() {
			// ids 2 and 3: no history, a version without members, a version pointing at 3 / at 1
			others = [][][]int{nil, {{}}, {{3}}, {{1}}}
		}
		ntyped := 0
		for a := range lists {
			a := a
			gens = append(gens, vexplore.Generator{Name: fmt.Sprintf("typed members, first version list %d", a), Gen: func(yield func(*vexplore.Scenario) bool) {
				for b := range lists {
					r1, w1 := split(lists[a])
					r2, w2 := split(lists[b])
					for _, h2 := range others {
						for _, h3 := range others {
							g := graph{N: 3, Versions: map[int][][]int{1: {r1, r2}}, Ways: map[int][][]int{1: {w1, w2}}}
							if h2 != nil {
								g.Versions[2] = h2
							}
							if h3 != nil {
								g.Versions[3] = h3
							}
							for _, rq := range typedReqs {
								sc := drainScenario(g, rq)
								sc.Family = "drain-typed"
								if !yield(&sc) {
									return
								}
							}
						}
					}
				}
			}})
			ntyped += len(lists) * len(others) * len(others)
		}
		r.Set("typed_graphs", ntyped)
		r.Set("graphs", ngraphs)
		r.Set("request_lists", len(reqs))
		fixed := []struct {
			name string
			g    graph
			req  []int
		}{
			{"chain", graph{N: 3, Versions: map[int][][]int{1: {{2}}, 2: {{3}}, 3: {{}}}}, []int{1}},
			{"diamond", graph{N: 4, Versions: map[int][][]int{1: {{2, 3}}, 2: {{4}}, 3: {{4}}, 4: {{}}}}, []int{1}},
			{"two-cycle", graph{N: 2, Versions: map[int][][]int{1: {{2}}, 2: {{1}}}}, []int{1, 2}},
			{"self-loop", graph{N: 2, Versions: map[int][][]int{1: {{1, 2}}, 2: {{}}}}, []int{1}},
			{"missing-child", graph{N: 3, Versions: map[int][][]int{1: {{2, 3}}, 3: {{}}}}, []int{1, 2}},
			{"two-versions", graph{N: 3, Versions: map[int][][]int{1: {{2}, {3}}, 2: {{}}, 3: {{}}}}, []int{3, 1}},
			{"flat", graph{N: 3, Versions: map[int][][]int{1: {{}}, 2: {{}}, 3: {{}}}}, []int{1, 2, 3}},
			// a cycle entered from outside after it was walked from inside
			{"cycle-entered", graph{N: 3, Versions: map[int][][]int{1: {{2}}, 2: {{3}}, 3: {{2}}}}, []int{3, 1}},
			// a member twice in one version and again in the next, requested twice
			{"repeats", graph{N: 2, Versions: map[int][][]int{1: {{2, 2}, {2}}, 2: {{}}}}, []int{1, 2, 1}},
			// nothing to emit: the walker ends without a single send
			{"no-history", graph{N: 1, Versions: map[int][][]int{}}, []int{9, 1}},
			{"empty-request", graph{N: 1, Versions: map[int][][]int{1: {{}}}}, []int{}},
		}
		nStop := 0
		addStop := func(sc vexplore.Scenario, swBound int) {
			scs = append(scs, sc)
			nStop++
			// the same history in switch mode (single context switches, no demotion)
			sw := sc
			sw.Bound = swBound
			sw.SwitchMode = true
			sw.Name += " switch-mode"
			sw.Family += " switch-mode"
			scs = append(scs, sw)
		}
		for fi, f := range fixed {
			total := 0
			for range f.g.Versions {
				total++
			}
			for stop := 0; stop <= stopPreCancelled; stop++ {
				maxK := total + 1
				if stop == stopCancelOther || stop == stopCloseOther || stop == stopCancelGrand || stop == stopPreCancelled {
					maxK = 0 // the second thread is placed everywhere by the explorer
				}
				if fi >= 7 && (stop == stopCancelSelf || stop == stopDSError) && total > 0 {
					continue // the four later graphs: Close and the second-thread stops
				}
				for k := 0; k <= maxK; k++ {
					addStop(stopScenario(f.name, f.g, f.req, k, stop, dA, 0), 2)
				}
			}
			// a datasource call that blocks until its context is cancelled, ended by a
			// second thread's cancel / Close
			if fi < 7 || total == 0 {
				for _, stop := range []int{stopCancelOther, stopCloseOther} {
					for j := 1; j <= total+1; j++ {
						addStop(stopScenario(f.name, f.g, f.req, 0, stop, dA, j), 2)
					}
				}
			}
		}
		r.Set("stop_scenarios", nStop)
		sort.SliceStable(scs, func(i, j int) bool { return false })
		e := &vexplore.Explorer{R: r, Scenarios: scs, Generators: gens}
		budget := 6 * time.Minute
		if !r.Quick() {
			budget = 30 * time.Minute
		}
		e.Run(budget)
	})
}
