//go:build verif

// C14 — Child-first relation ordering: children first, once, always ends.
//
// Engine A. annotate/order.go is rewritten by tools/vinst from the current
// /repo tree and run under the cooperative scheduler.
//
//	(B) every relation reference graph of the tier's bound x a menu of request
//	    lists, drained with Next under the default schedule (the graph clauses do
//	    not depend on the schedule: producer and consumer rendezvous on an
//	    unbuffered channel);
//	(A) a fixed set of graphs x every stop point x every stop action x every
//	    schedule of producer / consumer / canceller with at most D deviations.
package main

import (
	"context"
	"errors"
	"fmt"
	"sort"
	"strings"
	"time"

	"github.com/paulmach/osm"
	"github.com/paulmach/osm/annotate"
	"github.com/paulmach/osm/vsched"

	"verif/engine/vexplore"
	"verif/kit"
)

// graph: for every id 1..n the versions of its history; each version lists the
// relation ids it references (plus a node and a way member that must be ignored).
type graph struct {
	N        int
	Versions map[int][][]int // id -> versions -> referenced relation ids; absent = no history
	// Ways: id -> version index -> refs of WAY members of that version, placed
	// before the relation members. A way member whose ref equals a relation id is
	// not a reference to that relation (member references are typed).
	Ways map[int][][]int
	// Off is added to every id handed to the library (requests, histories,
	// member refs): relation ids are 64-bit numbers, the ordering must not depend
	// on them fitting the 40 ref bits of a packed feature id.
	Off int64
}

func (g graph) String() string {
	var parts []string
	if g.Off != 0 {
		parts = append(parts, fmt.Sprintf("ids+%d", g.Off))
	}
	for id := 1; id <= g.N; id++ {
		vs, ok := g.Versions[id]
		if !ok {
			parts = append(parts, fmt.Sprintf("%d:-", id))
			continue
		}
		if ws, ok := g.Ways[id]; ok {
			parts = append(parts, fmt.Sprintf("%d:%v+ways%v", id, vs, ws))
			continue
		}
		parts = append(parts, fmt.Sprintf("%d:%v", id, vs))
	}
	return strings.Join(parts, " ")
}

var errNotFound = errors.New("relation history not found")
var errBroken = errors.New("datasource broken")

type ds struct {
	g      graph
	calls  int
	failAt int // 1-based call index that fails with errBroken; 0 = never
	yield  bool
}

func (d *ds) RelationHistory(_ context.Context, id osm.RelationID) (osm.Relations, error) {
	if d.yield {
		vsched.Yield("datasource")
	}
	d.calls++
	if d.failAt != 0 && d.calls == d.failAt {
		return nil, errBroken
	}
	ext := id
	id -= osm.RelationID(d.g.Off)
	vs, ok := d.g.Versions[int(id)]
	if !ok || int64(int(id)) != int64(id) {
		return nil, errNotFound
	}
	var out osm.Relations
	for i, refs := range vs {
		r := &osm.Relation{ID: ext, Version: i + 1, Visible: true, Timestamp: time.Unix(int64(1000*(i+1)), 0)}
		if ws, ok := d.g.Ways[int(id)]; ok {
			// typed variant: only the listed way members, then the relation members
			for _, w := range ws[i] {
				r.Members = append(r.Members, osm.Member{Type: osm.TypeWay, Ref: int64(w), Role: "w"})
			}
		} else {
			r.Members = append(r.Members, osm.Member{Type: osm.TypeNode, Ref: int64(refs0(refs))}, osm.Member{Type: osm.TypeWay, Ref: 2})
		}
		for _, ref := range refs {
			r.Members = append(r.Members, osm.Member{Type: osm.TypeRelation, Ref: int64(ref) + d.g.Off, Role: "sub"})
		}
		out = append(out, r)
	}
	return out, nil
}

// a node member whose ref collides with a relation id: must not be walked
func refs0(refs []int) int { return 1 }

func (d *ds) NotFound(err error) bool { return err == errNotFound }

// sortedKeys returns the keys of m in ascending order (the oracles must not
// depend on map iteration order: a finding has to reproduce identically).
func sortedKeys(m map[int]bool) []int {
	out := make([]int, 0, len(m))
	for k := range m {
		out = append(out, k)
	}
	sort.Ints(out)
	return out
}

// reachable: ids with history reachable from id through relation members of any version.
func (g graph) reach(id int) map[int]bool {
	seen := map[int]bool{}
	var walk func(x int)
	walk = func(x int) {
		for _, refs := range g.Versions[x] {
			for _, y := range refs {
				if _, has := g.Versions[y]; has && !seen[y] {
					seen[y] = true
					walk(y)
				}
			}
		}
	}
	walk(id)
	return seen
}

func (g graph) acyclic() bool {
	for id := range g.Versions {
		if g.reach(id)[id] {
			return false
		}
	}
	return true
}

// checkEmission judges a complete drain.
func checkEmission(g graph, req []int, got []int) (string, string) {
	pos := map[int]int{}
	for i, id := range got {
		if _, dup := pos[id]; dup {
			return "emitted-twice", fmt.Sprintf("id %d emitted twice: %v", id, got)
		}
		pos[id] = i
		if _, has := g.Versions[id]; !has {
			return "emitted-without-history", fmt.Sprintf("id %d has no history but was emitted: %v", id, got)
		}
	}
	for _, id := range req {
		if _, has := g.Versions[id]; has {
			if _, ok := pos[id]; !ok {
				return "requested-not-emitted", fmt.Sprintf("requested id %d has a history but was not emitted: %v", id, got)
			}
		}
	}
	// nothing but requested ids and what they reach
	allowed := map[int]bool{}
	for _, id := range req {
		allowed[id] = true
		for y := range g.reach(id) {
			allowed[y] = true
		}
	}
	for _, id := range got {
		if !allowed[id] {
			return "emitted-unrelated", fmt.Sprintf("id %d is neither requested nor reachable: %v", id, got)
		}
	}
	if g.acyclic() {
		for _, id := range got {
			for _, y := range sortedKeys(g.reach(id)) {
				if _, ok := pos[y]; !ok {
					return "child-missing", fmt.Sprintf("relation %d emitted but its descendant %d never: %v", id, y, got)
				}
				if pos[y] > pos[id] {
					return "child-after-parent", fmt.Sprintf("relation %d emitted before %d which it references: %v", id, y, got)
				}
			}
		}
	}
	return "", ""
}

func relIDs(g graph, ids []int) []osm.RelationID {
	out := make([]osm.RelationID, len(ids))
	for i, id := range ids {
		out[i] = osm.RelationID(int64(id) + g.Off)
	}
	return out
}

// drainScenario: part (B).
func drainScenario(g graph, req []int) vexplore.Scenario {
	name := fmt.Sprintf("drain graph{%s} request%v", g, req)
	return vexplore.Scenario{Name: name, Family: "drain", Bound: 0, OnlyChildBelow: true, New: func() (func(), func(*vsched.Outcome) ([]vexplore.Finding, string, bool)) {
		var got []int
		var finalErr error
		budgetHit := false
		closed := false
		main := func() {
			d := &ds{g: g}
			o := annotate.NewChildFirstOrdering(context.Background(), relIDs(g, req), d)
			for o.Next() {
				got = append(got, int(int64(o.RelationID())-g.Off))
				if len(got) > 10*(g.N+1) {
					budgetHit = true
					break
				}
			}
			finalErr = o.Err()
			o.Close()
			closed = true
		}
		check := func(out *vsched.Outcome) ([]vexplore.Finding, string, bool) {
			var fs []vexplore.Finding
			nontrivial := len(got) >= 2
			if out.Kind != "ok" {
				return []vexplore.Finding{{"drain/" + out.Kind, fmt.Sprintf("execution ended in %s: %s", out.Kind, out.Detail)}}, "", nontrivial
			}
			if budgetHit {
				fs = append(fs, vexplore.Finding{"drain/never-ends", fmt.Sprintf("more than %d emissions: %v", 10*(g.N+1), got)})
			} else if k, m := checkEmission(g, req, got); k != "" {
				fs = append(fs, vexplore.Finding{"drain/" + k, m})
			}
			if finalErr != nil && !budgetHit {
				fs = append(fs, vexplore.Finding{"drain/error-after-complete-walk", fmt.Sprintf("Err() = %v after a complete walk", finalErr)})
			}
			if !closed {
				fs = append(fs, vexplore.Finding{"drain/close-did-not-return", "Close did not return"})
			}
			return fs, fmt.Sprint(got), nontrivial
		}
		return main, check
	}}
}

const (
	stopClose = iota
	stopCancelSelf
	stopCancelOther
	stopDSError
)

var stopNames = []string{"Close", "cancel-from-consumer", "cancel-from-second-thread", "datasource-error"}

// stopScenario: part (A).
func stopScenario(gname string, g graph, req []int, k, stop, bound int) vexplore.Scenario {
	name := fmt.Sprintf("stop graph=%s request%v after %d Next by %s", gname, req, k, stopNames[stop])
	return vexplore.Scenario{Name: name, Family: "stop/" + stopNames[stop], Bound: bound, New: func() (func(), func(*vsched.Outcome) ([]vexplore.Finding, string, bool)) {
		var got []int
		var phase string
		var nextAfterStop, nextAfterClose bool
		var errAfter error
		var ended bool // Next returned false before the stop was issued
		main := func() {
			d := &ds{g: g, yield: true}
			if stop == stopDSError {
				d.failAt = k + 1
			}
			ctx, cancel := vsched.WithCancel(context.Background())
			o := annotate.NewChildFirstOrdering(ctx, relIDs(g, req), d)
			if stop == stopCancelOther {
				vsched.GoNamed("canceller", func() { cancel() })
			}
			limit := k
			if stop == stopCancelOther || stop == stopDSError {
				limit = 1 << 20 // drain until it ends by itself
			}
			phase = "scanning"
			for i := 0; i < limit; i++ {
				if !o.Next() {
					ended = true
					break
				}
				got = append(got, int(int64(o.RelationID())-g.Off))
				if len(got) > 50 {
					break
				}
			}
			phase = "stopping"
			switch stop {
			case stopClose:
				o.Close()
			case stopCancelSelf:
				cancel()
			}
			phase = "after-stop"
			nextAfterStop = o.Next()
			errAfter = o.Err()
			phase = "closing"
			o.Close()
			phase = "closed"
			nextAfterClose = o.Next()
			cancel()
		}
		check := func(out *vsched.Outcome) ([]vexplore.Finding, string, bool) {
			var fs []vexplore.Finding
			add := func(k, m string) { fs = append(fs, vexplore.Finding{Key: "stop/" + k + "/" + stopNames[stop], Msg: m}) }
			nonvac := !ended && len(got) == k && (stop == stopClose || stop == stopCancelSelf)
			if stop == stopCancelOther || stop == stopDSError {
				nonvac = true
			}
			if out.Kind != "ok" {
				add(out.Kind, fmt.Sprintf("execution ended in %s while %s: %s", out.Kind, phase, out.Detail))
				return fs, "", nonvac
			}
			// what was emitted before the stop is a prefix of a legal emission
			seen := map[int]bool{}
			for _, id := range got {
				if seen[id] {
					add("emitted-twice", fmt.Sprintf("id %d twice in %v", id, got))
				}
				seen[id] = true
				if _, has := g.Versions[id]; !has {
					add("emitted-without-history", fmt.Sprintf("id %d in %v", id, got))
				}
			}
			if g.acyclic() {
				pos := map[int]int{}
				for i, id := range got {
					pos[id] = i
				}
				for _, id := range got {
					for _, y := range sortedKeys(g.reach(id)) {
						if p, ok := pos[y]; !ok || p > pos[id] {
							add("child-after-parent", fmt.Sprintf("%d emitted before its descendant %d: %v", id, y, got))
						}
					}
				}
			}
			if nextAfterStop && (stop == stopClose || stop == stopCancelSelf) {
				add("next-true-after-stop", "Next returned true after "+stopNames[stop])
			}
			if nextAfterClose {
				add("next-true-after-close", "Next returned true after Close")
			}
			switch stop {
			case stopClose, stopCancelSelf:
				if errAfter == nil {
					add("err-nil-after-stop", "Err() is nil after "+stopNames[stop])
				}
			case stopDSError:
				full := len(got) // the walk may have completed before call k+1 ever happened
				_ = full
				if errAfter == nil && !ended {
					add("err-nil-after-error", "Err() is nil although the datasource failed")
				}
			}
			return fs, fmt.Sprintf("%v|%v|%v", got, errAfter, ended), nonvac
		}
		return main, check
	}}
}

func subsets(n int) [][]int {
	var out [][]int
	for m := 0; m < 1<<uint(n); m++ {
		var s []int
		for i := 0; i < n; i++ {
			if m&(1<<uint(i)) != 0 {
				s = append(s, i+1)
			}
		}
		out = append(out, s)
	}
	return out
}

// histories: the menu of histories of one id over n ids. two: also all two-version histories.
func histories(n int, two bool) [][][]int {
	subs := subsets(n)
	out := [][][]int{nil} // nil = no history
	for _, a := range subs {
		out = append(out, [][]int{a})
	}
	if two {
		for _, a := range subs {
			for _, b := range subs {
				out = append(out, [][]int{a, b})
			}
		}
	}
	return out
}

func allGraphs(n int, twoFor int) []graph {
	var out []graph
	var rec func(id int, cur map[int][][]int)
	rec = func(id int, cur map[int][][]int) {
		if id > n {
			g := graph{N: n, Versions: map[int][][]int{}}
			for k, v := range cur {
				g.Versions[k] = v
			}
			out = append(out, g)
			return
		}
		for hi, h := range histories(n, id <= twoFor) {
			if hi == 0 {
				delete(cur, id)
			} else {
				cur[id] = h
			}
			rec(id+1, cur)
		}
		delete(cur, id)
	}
	rec(1, map[int][][]int{})
	return out
}

// graphCount / graphAt enumerate the graphs by index (mixed radix over the
// per-id history menus) so that no process has to hold the whole list.
func graphCount(n, twoFor int) int {
	c := 1
	for id := 1; id <= n; id++ {
		c *= len(histories(n, id <= twoFor))
	}
	return c
}

func graphAt(n, twoFor, idx int) graph {
	g := graph{N: n, Versions: map[int][][]int{}}
	for id := 1; id <= n; id++ {
		hs := histories(n, id <= twoFor)
		h := hs[idx%len(hs)]
		idx /= len(hs)
		if h != nil {
			g.Versions[id] = h
		}
	}
	return g
}

func requestLists(n int, maxLen int) [][]int {
	ids := []int{}
	for i := 1; i <= n; i++ {
		ids = append(ids, i)
	}
	ids = append(ids, 9) // unknown id
	out := [][]int{{}}
	var rec func(cur []int)
	rec = func(cur []int) {
		if len(cur) == maxLen {
			return
		}
		for _, id := range ids {
			nx := append(append([]int{}, cur...), id)
			out = append(out, nx)
			rec(nx)
		}
	}
	rec(nil)
	return out
}

func main() {
	kit.Main("C14", "model_checking", func(r *kit.Run) {
		r.Rule("(B) every relation graph on n ids (each id: no history, one version over every member subset, id 1 also every two-version history) x request lists up to the tier's length, plus a typed family (id 1 with two versions over every ordered list of <= 2 way/relation members on refs 1..3), drained under the default schedule; " +
			"(A) 7 fixed graphs x every stop point k x {Close, cancel from consumer, cancel from a second thread, datasource error at call k+1} x every schedule with <= D deviations, both priority configurations; " +
			"distinct_nontrivial counts distinct complete operation sequences plus distinct observed outcomes; states = execution-tree nodes, transitions = visible operations executed")
		r.Assume("annotate/order.go as rewritten by tools/vinst (channel ops, select, go, WaitGroup, context) behaves like the original under a sequentially consistent scheduler")
		r.Assume("data races on ChildFirstOrdering.err/CompletedIndex are recorded as information only: the property does not claim race freedom")
		var scs []vexplore.Scenario
		n, twoFor, reqLen := 3, 1, 2
		dA := 4
		if !r.Quick() {
			n, twoFor, reqLen = 3, 3, 2
			dA = 5
		}
		reqs := requestLists(n, reqLen)
		reqs = append(reqs, []int{1, 2, 3}, []int{3, 2, 1}, []int{1, 1, 2}, []int{2, 9, 1}, []int{3, 3, 3})
		// the drain family is produced lazily, 400 graphs per worker job
		ngraphs := graphCount(n, twoFor)
		var gens []vexplore.Generator
		for lo := 0; lo < ngraphs; lo += 400 {
			lo := lo
			hi := lo + 400
			if hi > ngraphs {
				hi = ngraphs
			}
			gens = append(gens, vexplore.Generator{Name: fmt.Sprintf("drain graphs %d..%d", lo, hi-1), Gen: func(yield func(*vexplore.Scenario) bool) {
				for gi := lo; gi < hi; gi++ {
					g := graphAt(n, twoFor, gi)
					for _, rq := range reqs {
						sc := drainScenario(g, rq)
						if !yield(&sc) {
							return
						}
					}
					if gi%7 == 5 {
						// ... and with negative ids (placeholder ids of editors)
						g.Off = -1000
						for _, rq := range reqs {
							sc := drainScenario(g, rq)
							sc.Family = "drain-negative-ids"
							if !yield(&sc) {
								return
							}
						}
						g.Off = 0
					}
					if gi%7 == 3 {
						// the same graph with ids beyond 40 bits
						g.Off = 1<<40 + 1<<35
						for _, rq := range reqs {
							sc := drainScenario(g, rq)
							sc.Family = "drain-big-ids"
							if !yield(&sc) {
								return
							}
						}
					}
				}
			}})
		}
		// typed family: id 1 has two versions whose member lists are every ordered
		// list of <= 2 members over refs {1,2,3} x {way, relation}; ids 2 and 3 have
		// one version over every relation subset (or no history). A member that keeps
		// its number and changes its type between versions must be seen as a change.
		typedReqs := [][]int{{1}, {1, 2}, {1, 3}, {2, 1}, {3, 1}, {1, 2, 3}, {3, 2, 1}, {9, 1}}
		type tm struct {
			way bool
			ref int
		}
		var lists [][]tm
		lists = append(lists, nil)
		for _, w1 := range []bool{false, true} {
			for r1 := 1; r1 <= 3; r1++ {
				lists = append(lists, []tm{{w1, r1}})
				for _, w2 := range []bool{false, true} {
					for r2 := 1; r2 <= 3; r2++ {
						lists = append(lists, []tm{{w1, r1}, {w2, r2}})
					}
				}
			}
		}
		split := func(l []tm) (rels, ways []int) {
			rels, ways = []int{}, []int{}
			for _, m := range l {
				if m.way {
					ways = append(ways, m.ref)
				} else {
					rels = append(rels, m.ref)
				}
			}
			return
		}
		others := histories(3, false)
		if r.Quick() {
			// ids 2 and 3: no history, a version without members, a version pointing at 3 / at 1
			others = [][][]int{nil, {{}}, {{3}}, {{1}}}
		}
		ntyped := 0
		for a := range lists {
			a := a
			gens = append(gens, vexplore.Generator{Name: fmt.Sprintf("typed members, first version list %d", a), Gen: func(yield func(*vexplore.Scenario) bool) {
				for b := range lists {
					r1, w1 := split(lists[a])
					r2, w2 := split(lists[b])
					for _, h2 := range others {
						for _, h3 := range others {
							g := graph{N: 3, Versions: map[int][][]int{1: {r1, r2}}, Ways: map[int][][]int{1: {w1, w2}}}
							if h2 != nil {
								g.Versions[2] = h2
							}
							if h3 != nil {
								g.Versions[3] = h3
							}
							for _, rq := range typedReqs {
								sc := drainScenario(g, rq)
								sc.Family = "drain-typed"
								if !yield(&sc) {
									return
								}
							}
						}
					}
				}
			}})
			ntyped += len(lists) * len(others) * len(others)
		}
		r.Set("typed_graphs", ntyped)
		r.Set("graphs", ngraphs)
		r.Set("request_lists", len(reqs))
		fixed := []struct {
			name string
			g    graph
			req  []int
		}{
			{"chain", graph{N: 3, Versions: map[int][][]int{1: {{2}}, 2: {{3}}, 3: {{}}}}, []int{1}},
			{"diamond", graph{N: 4, Versions: map[int][][]int{1: {{2, 3}}, 2: {{4}}, 3: {{4}}, 4: {{}}}}, []int{1}},
			{"two-cycle", graph{N: 2, Versions: map[int][][]int{1: {{2}}, 2: {{1}}}}, []int{1, 2}},
			{"self-loop", graph{N: 2, Versions: map[int][][]int{1: {{1, 2}}, 2: {{}}}}, []int{1}},
			{"missing-child", graph{N: 3, Versions: map[int][][]int{1: {{2, 3}}, 3: {{}}}}, []int{1, 2}},
			{"two-versions", graph{N: 3, Versions: map[int][][]int{1: {{2}, {3}}, 2: {{}}, 3: {{}}}}, []int{3, 1}},
			{"flat", graph{N: 3, Versions: map[int][][]int{1: {{}}, 2: {{}}, 3: {{}}}}, []int{1, 2, 3}},
		}
		nStop := 0
		for _, f := range fixed {
			total := 0
			for range f.g.Versions {
				total++
			}
			for stop := 0; stop < 4; stop++ {
				maxK := total + 1
				if stop == stopCancelOther {
					maxK = 0 // the canceller thread is placed everywhere by the explorer
				}
				for k := 0; k <= maxK; k++ {
					scs = append(scs, stopScenario(f.name, f.g, f.req, k, stop, dA))
					nStop++
					// the same history in switch mode (single context switches, no demotion)
					sw := stopScenario(f.name, f.g, f.req, k, stop, 2)
					sw.SwitchMode = true
					sw.Name += " switch-mode"
					sw.Family += " switch-mode"
					scs = append(scs, sw)
				}
			}
		}
		r.Set("stop_scenarios", nStop)
		sort.SliceStable(scs, func(i, j int) bool { return false })
		e := &vexplore.Explorer{R: r, Scenarios: scs, Generators: gens}
		budget := 6 * time.Minute
		if !r.Quick() {
			budget = 30 * time.Minute
		}
		e.Run(budget)
	})
}
