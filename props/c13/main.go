// C13 — annotating an osmChange against element histories yields the exact
// old/new diff.
//
// Bounded-exhaustive enumeration of (change, histories, option, datasource)
// against a reference model written here. The real code is only reached through
// the public API: annotate.Change, osm.HistoryDatasource (or an own
// implementation of osm.HistoryDatasourcer), osm.Diff.
package main

import (
	"context"
	"encoding/json"
	"errors"
	"fmt"
	"reflect"
	"sort"
	"strings"
	"sync/atomic"

	"github.com/paulmach/osm"
	"github.com/paulmach/osm/annotate"

	"verif/kit"
)

// ---------------------------------------------------------------------------
// Case description (pure data, JSON round-trips for -replay)

var kinds = [3]string{"node", "way", "relation"}
var acts = [3]string{"create", "modify", "delete"}

// Elem is one element of the change as handed to annotate.Change.
type Elem struct {
	Kind    int   `json:"kind"` // 0 node, 1 way, 2 relation
	ID      int64 `json:"id"`
	Version int   `json:"version"`
	Visible bool  `json:"visible"` // the Visible flag of the input before the call
	Mark    int   `json:"mark"`    // unique marker (changeset id, tag, geometry derive from it)
}

// Hist is what the datasource serves for (Kind, ID).
//
//	absent:  not-found error
//	present: the versions in Versions, in that order (may be empty)
//	fail:    a plain error the datasource does not call not-found
//	fail-nf: an error with a NotFound() method that returns false
type Hist struct {
	Kind     int    `json:"kind"`
	ID       int64  `json:"id"`
	State    string `json:"state"`
	Versions []int  `json:"versions,omitempty"`
}

// Case is one point of the enumerated space.
type Case struct {
	Family      string `json:"family"`
	DS          string `json:"ds"`           // "osm" = osm.HistoryDatasource, "custom" = own HistoryDatasourcer
	Ignore      bool   `json:"ignore"`       // IgnoreMissingChildren(true)
	ExplicitOff bool   `json:"explicit_off"` // pass IgnoreMissingChildren(false) instead of no option
	EmptyBlocks bool   `json:"empty_blocks"` // element-less blocks are &osm.OSM{} instead of nil
	Create      []Elem `json:"create,omitempty"`
	Modify      []Elem `json:"modify,omitempty"`
	Delete      []Elem `json:"delete,omitempty"`
	Hist        []Hist `json:"hist,omitempty"`
}

func (c *Case) block(a int) []Elem {
	switch a {
	case 0:
		return c.Create
	case 1:
		return c.Modify
	}
	return c.Delete
}

func (c *Case) hist(kind int, id int64) *Hist {
	for i := range c.Hist {
		if c.Hist[i].Kind == kind && c.Hist[i].ID == id {
			return &c.Hist[i]
		}
	}
	return nil // nothing said about it: absent
}

func (c *Case) Fingerprint() string {
	b, _ := json.Marshal(c)
	return string(b)
}

func (c *Case) elems() int { return len(c.Create) + len(c.Modify) + len(c.Delete) }

// NonTrivial: the case exercises either the max-below search on a history with
// at least two versions (for a modified/deleted element), or the ordering of at
// least two elements.
func (c *Case) NonTrivial() bool {
	if c.elems() >= 2 {
		return true
	}
	for a := 1; a <= 2; a++ {
		for _, e := range c.block(a) {
			if h := c.hist(e.Kind, e.ID); h != nil && h.State == "present" && len(h.Versions) >= 2 {
				return true
			}
		}
	}
	return false
}

// marker conventions for history elements: which version was picked is
// observable in every field.
func histMark(version int) int     { return 1000 + version }
func histVisible(version int) bool { return version%2 == 1 }

// ---------------------------------------------------------------------------
// Abstract result: what is compared between model and real code.

// ES is the value of one element (or the fact that there is none).
type ES struct {
	Present   bool
	Malformed string // container did not hold exactly one element of one kind
	Kind      int
	ID        int64
	Version   int
	Visible   bool
	Rest      string // every other field, canonical
}

type Act struct {
	Type   string
	Single ES // the embedded *osm.OSM of the action
	Old    ES
	New    ES
}

func (a Act) String() string {
	return fmt.Sprintf("{%s single=%s old=%s new=%s}", a.Type, a.Single, a.Old, a.New)
}

func (e ES) String() string {
	if e.Malformed != "" {
		return "MALFORMED(" + e.Malformed + ")"
	}
	if !e.Present {
		return "-"
	}
	return fmt.Sprintf("%s/%d v%d visible=%v [%s]", kinds[e.Kind], e.ID, e.Version, e.Visible, e.Rest)
}

// Expect is the reference model's verdict for a case.
type Expect struct {
	// success: Groups[a*3+k] = expected actions of block a, kind k, in input order
	Groups [9][]Act
	// error: non-empty Missing and/or Failing
	Missing []osm.FeatureID // elements whose predecessor does not exist (and Ignore is off)
	Failing bool            // some consulted history returns a non-not-found error
}

// ---------------------------------------------------------------------------
// Building real objects from the description

func tagsFor(mark int) osm.Tags { return osm.Tags{{Key: "mark", Value: fmt.Sprint(mark)}} }

func buildNode(id int64, version int, visible bool, mark int) *osm.Node {
	return &osm.Node{ID: osm.NodeID(id), Version: version, Visible: visible,
		ChangesetID: osm.ChangesetID(mark), Lat: float64(mark) / 100, Lon: -float64(mark) / 100,
		UserID: osm.UserID(mark + 1), User: fmt.Sprintf("u%d", mark), Tags: tagsFor(mark)}
}

func buildWay(id int64, version int, visible bool, mark int) *osm.Way {
	return &osm.Way{ID: osm.WayID(id), Version: version, Visible: visible,
		ChangesetID: osm.ChangesetID(mark), UserID: osm.UserID(mark + 1), User: fmt.Sprintf("u%d", mark),
		Tags:  tagsFor(mark),
		Nodes: osm.WayNodes{{ID: osm.NodeID(mark)}, {ID: osm.NodeID(mark + 1)}}}
}

func buildRelation(id int64, version int, visible bool, mark int) *osm.Relation {
	return &osm.Relation{ID: osm.RelationID(id), Version: version, Visible: visible,
		ChangesetID: osm.ChangesetID(mark), UserID: osm.UserID(mark + 1), User: fmt.Sprintf("u%d", mark),
		Tags:    tagsFor(mark),
		Members: osm.Members{{Type: osm.TypeNode, Ref: int64(mark), Role: "m"}}}
}

// expected value of an element built by the functions above
func valueOf(kind int, id int64, version int, visible bool, mark int) ES {
	switch kind {
	case 0:
		return nodeES(buildNode(id, version, visible, mark))
	case 1:
		return wayES(buildWay(id, version, visible, mark))
	}
	return relationES(buildRelation(id, version, visible, mark))
}

func tagStr(t osm.Tags) string {
	s := make([]string, 0, len(t))
	for _, kv := range t {
		s = append(s, kv.Key+"="+kv.Value)
	}
	sort.Strings(s)
	return strings.Join(s, ",")
}

func nodeES(n *osm.Node) ES {
	if n == nil {
		return ES{Malformed: "nil node"}
	}
	return ES{Present: true, Kind: 0, ID: int64(n.ID), Version: n.Version, Visible: n.Visible,
		Rest: fmt.Sprintf("cs=%d uid=%d user=%s ts=%d lat=%v lon=%v tags=%s", n.ChangesetID, n.UserID, n.User,
			n.Timestamp.Unix(), n.Lat, n.Lon, tagStr(n.Tags))}
}

func wayES(w *osm.Way) ES {
	if w == nil {
		return ES{Malformed: "nil way"}
	}
	ns := make([]string, 0, len(w.Nodes))
	for _, wn := range w.Nodes {
		ns = append(ns, fmt.Sprintf("%d.%d.%d.%v.%v", wn.ID, wn.Version, wn.ChangesetID, wn.Lat, wn.Lon))
	}
	return ES{Present: true, Kind: 1, ID: int64(w.ID), Version: w.Version, Visible: w.Visible,
		Rest: fmt.Sprintf("cs=%d uid=%d user=%s ts=%d tags=%s nodes=%s upd=%d", w.ChangesetID, w.UserID, w.User,
			w.Timestamp.Unix(), tagStr(w.Tags), strings.Join(ns, ";"), len(w.Updates))}
}

func relationES(r *osm.Relation) ES {
	if r == nil {
		return ES{Malformed: "nil relation"}
	}
	ms := make([]string, 0, len(r.Members))
	for _, m := range r.Members {
		ms = append(ms, fmt.Sprintf("%s.%d.%s.%d.%d", m.Type, m.Ref, m.Role, m.Version, m.ChangesetID))
	}
	return ES{Present: true, Kind: 2, ID: int64(r.ID), Version: r.Version, Visible: r.Visible,
		Rest: fmt.Sprintf("cs=%d uid=%d user=%s ts=%d tags=%s members=%s upd=%d", r.ChangesetID, r.UserID, r.User,
			r.Timestamp.Unix(), tagStr(r.Tags), strings.Join(ms, ";"), len(r.Updates))}
}

// containerES turns an *osm.OSM that must hold exactly one element into its value.
func containerES(o *osm.OSM) ES {
	if o == nil {
		return ES{}
	}
	n := len(o.Nodes) + len(o.Ways) + len(o.Relations)
	extra := len(o.Users) + len(o.Notes) + len(o.Changesets)
	if n != 1 || extra != 0 || o.Bounds != nil {
		return ES{Malformed: fmt.Sprintf("%d nodes %d ways %d relations %d other, bounds=%v",
			len(o.Nodes), len(o.Ways), len(o.Relations), extra, o.Bounds != nil)}
	}
	switch {
	case len(o.Nodes) == 1:
		return nodeES(o.Nodes[0])
	case len(o.Ways) == 1:
		return wayES(o.Ways[0])
	}
	return relationES(o.Relations[0])
}

func buildBlock(es []Elem, emptyBlocks bool) *osm.OSM {
	if len(es) == 0 {
		if emptyBlocks {
			return &osm.OSM{}
		}
		return nil
	}
	o := &osm.OSM{}
	for _, e := range es {
		switch e.Kind {
		case 0:
			o.Nodes = append(o.Nodes, buildNode(e.ID, e.Version, e.Visible, e.Mark))
		case 1:
			o.Ways = append(o.Ways, buildWay(e.ID, e.Version, e.Visible, e.Mark))
		default:
			o.Relations = append(o.Relations, buildRelation(e.ID, e.Version, e.Visible, e.Mark))
		}
	}
	return o
}

// --- own datasource ---------------------------------------------------------

type lookupErr struct {
	what string
	nf   bool
}

func (e *lookupErr) Error() string  { return e.what }
func (e *lookupErr) NotFound() bool { return e.nf }

type histEntry struct {
	err       error
	nodes     osm.Nodes
	ways      osm.Ways
	relations osm.Relations
}

type customDS struct {
	m map[osm.FeatureID]*histEntry
}

func (d *customDS) get(id osm.FeatureID) *histEntry {
	if h := d.m[id]; h != nil {
		return h
	}
	return &histEntry{err: &lookupErr{what: fmt.Sprintf("custom: %v not found", id), nf: true}}
}

func (d *customDS) NodeHistory(_ context.Context, id osm.NodeID) (osm.Nodes, error) {
	h := d.get(id.FeatureID())
	return h.nodes, h.err
}

func (d *customDS) WayHistory(_ context.Context, id osm.WayID) (osm.Ways, error) {
	h := d.get(id.FeatureID())
	return h.ways, h.err
}

func (d *customDS) RelationHistory(_ context.Context, id osm.RelationID) (osm.Relations, error) {
	h := d.get(id.FeatureID())
	return h.relations, h.err
}

func (d *customDS) NotFound(err error) bool {
	if e, ok := err.(interface{ NotFound() bool }); ok {
		return e.NotFound()
	}
	return false
}

var errBoom = errors.New("c13: datasource is down")
var errBoomNF = &lookupErr{what: "c13: datasource is down (typed)", nf: false}

func featureID(kind int, id int64) osm.FeatureID {
	switch kind {
	case 0:
		return osm.NodeID(id).FeatureID()
	case 1:
		return osm.WayID(id).FeatureID()
	}
	return osm.RelationID(id).FeatureID()
}

func buildDS(c *Case) (osm.HistoryDatasourcer, error) {
	if c.DS == "osm" {
		ds := &osm.HistoryDatasource{}
		for _, h := range c.Hist {
			switch h.State {
			case "absent":
				continue
			case "present":
			default:
				return nil, fmt.Errorf("osm.HistoryDatasource cannot serve state %q", h.State)
			}
			switch h.Kind {
			case 0:
				if ds.Nodes == nil {
					ds.Nodes = map[osm.NodeID]osm.Nodes{}
				}
				l := make(osm.Nodes, 0, len(h.Versions))
				for _, u := range h.Versions {
					l = append(l, buildNode(h.ID, u, histVisible(u), histMark(u)))
				}
				ds.Nodes[osm.NodeID(h.ID)] = l
			case 1:
				if ds.Ways == nil {
					ds.Ways = map[osm.WayID]osm.Ways{}
				}
				l := make(osm.Ways, 0, len(h.Versions))
				for _, u := range h.Versions {
					l = append(l, buildWay(h.ID, u, histVisible(u), histMark(u)))
				}
				ds.Ways[osm.WayID(h.ID)] = l
			default:
				if ds.Relations == nil {
					ds.Relations = map[osm.RelationID]osm.Relations{}
				}
				l := make(osm.Relations, 0, len(h.Versions))
				for _, u := range h.Versions {
					l = append(l, buildRelation(h.ID, u, histVisible(u), histMark(u)))
				}
				ds.Relations[osm.RelationID(h.ID)] = l
			}
		}
		return ds, nil
	}
	if c.DS != "custom" {
		return nil, fmt.Errorf("unknown datasource %q", c.DS)
	}
	ds := &customDS{m: map[osm.FeatureID]*histEntry{}}
	for _, h := range c.Hist {
		e := &histEntry{}
		switch h.State {
		case "absent":
			continue
		case "fail":
			e.err = errBoom
		case "fail-nf":
			e.err = errBoomNF
		case "present":
			for _, u := range h.Versions {
				switch h.Kind {
				case 0:
					e.nodes = append(e.nodes, buildNode(h.ID, u, histVisible(u), histMark(u)))
				case 1:
					e.ways = append(e.ways, buildWay(h.ID, u, histVisible(u), histMark(u)))
				default:
					e.relations = append(e.relations, buildRelation(h.ID, u, histVisible(u), histMark(u)))
				}
			}
		default:
			return nil, fmt.Errorf("unknown history state %q", h.State)
		}
		ds.m[featureID(h.Kind, h.ID)] = e
	}
	return ds, nil
}

// ---------------------------------------------------------------------------
// Reference model (uses only the Case description)

// predecessor: the greatest version below v that occurs in versions, by value.
// Formulated as a downward walk over version numbers, not as a scan of the list.
func predecessor(versions []int, v int) (int, bool) {
	if len(versions) == 0 {
		return 0, false
	}
	lo := versions[0]
	present := map[int]bool{}
	for _, u := range versions {
		present[u] = true
		if u < lo {
			lo = u
		}
	}
	for u := v - 1; u >= lo; u-- {
		if present[u] {
			return u, true
		}
	}
	return 0, false
}

func model(c *Case) Expect {
	var x Expect
	for _, e := range c.Create {
		x.Groups[e.Kind] = append(x.Groups[e.Kind],
			Act{Type: "create", Single: valueOf(e.Kind, e.ID, e.Version, true, e.Mark)})
	}
	for a := 1; a <= 2; a++ {
		for _, e := range c.block(a) {
			g := a*3 + e.Kind
			h := c.hist(e.Kind, e.ID)
			state := "absent"
			if h != nil {
				state = h.State
			}
			if state == "fail" || state == "fail-nf" {
				x.Failing = true
				continue
			}
			u, ok := 0, false
			if state == "present" {
				u, ok = predecessor(h.Versions, e.Version)
			}
			if !ok {
				if c.Ignore {
					x.Groups[g] = append(x.Groups[g],
						Act{Type: "create", Single: valueOf(e.Kind, e.ID, e.Version, true, e.Mark)})
				} else {
					x.Missing = append(x.Missing, featureID(e.Kind, e.ID))
				}
				continue
			}
			x.Groups[g] = append(x.Groups[g], Act{Type: acts[a],
				Old: valueOf(e.Kind, e.ID, u, histVisible(u), histMark(u)),
				New: valueOf(e.Kind, e.ID, e.Version, a == 1, e.Mark)})
		}
	}
	return x
}

// ---------------------------------------------------------------------------
// Running the real code

type Got struct {
	Panic string
	Err   error
	Nil   bool // nil diff without error
	Acts  []Act
	Other string // diff carries something besides actions
	// the call itself: the change handed in is left as it was, and asking again
	// (same change, same datasource) gives the same answer
	InputModified bool
	Second        string
}

func runReal(c *Case) (g Got, harness error) {
	ds, err := buildDS(c)
	if err != nil {
		return g, err
	}
	change := &osm.Change{
		Create: buildBlock(c.Create, c.EmptyBlocks),
		Modify: buildBlock(c.Modify, c.EmptyBlocks),
		Delete: buildBlock(c.Delete, c.EmptyBlocks),
	}
	var opts []annotate.Option
	if c.Ignore {
		opts = append(opts, annotate.IgnoreMissingChildren(true))
	} else if c.ExplicitOff {
		opts = append(opts, annotate.IgnoreMissingChildren(false))
	}
	call := func(g *Got) {
		defer func() {
			if p := recover(); p != nil {
				g.Panic = fmt.Sprint(p)
			}
		}()
		diff, err := annotate.Change(context.Background(), change, ds, opts...)
		g.Err = err
		if err != nil {
			return
		}
		if diff == nil {
			g.Nil = true
			return
		}
		if len(diff.Changesets) != 0 {
			g.Other = fmt.Sprintf("%d changesets", len(diff.Changesets))
		}
		for _, a := range diff.Actions {
			g.Acts = append(g.Acts, Act{Type: string(a.Type),
				Single: containerES(a.OSM), Old: containerES(a.Old), New: containerES(a.New)})
		}
	}
	before := kit.DeepCopy(change)
	call(&g)
	g.InputModified = !reflect.DeepEqual(before, change)
	var g2 Got
	call(&g2)
	switch {
	case g2.Panic != g.Panic:
		g.Second = fmt.Sprintf("panic %q vs %q", g2.Panic, g.Panic)
	case (g2.Err == nil) != (g.Err == nil) || (g.Err != nil && g2.Err.Error() != g.Err.Error()):
		g.Second = fmt.Sprintf("error %v vs %v", g2.Err, g.Err)
	case g2.Nil != g.Nil || !reflect.DeepEqual(g2.Acts, g.Acts):
		g.Second = fmt.Sprintf("%d actions vs %d, or different ones", len(g2.Acts), len(g.Acts))
	}
	return g, nil
}

// ---------------------------------------------------------------------------
// Comparison

func shapeOf(c *Case) string {
	if c.elems() == 1 {
		for a := 0; a < 3; a++ {
			for _, e := range c.block(a) {
				st := "absent"
				if h := c.hist(e.Kind, e.ID); h != nil {
					st = h.State
				}
				return fmt.Sprintf("%s-%s/hist-%s/ignore=%v", acts[a], kinds[e.Kind], st, c.Ignore)
			}
		}
	}
	return fmt.Sprintf("%s/ignore=%v", c.Family, c.Ignore)
}

func sortedStrings(as []Act) []string {
	s := make([]string, len(as))
	for i, a := range as {
		s[i] = a.String()
	}
	sort.Strings(s)
	return s
}

func equalStrings(a, b []string) bool {
	if len(a) != len(b) {
		return false
	}
	for i := range a {
		if a[i] != b[i] {
			return false
		}
	}
	return true
}

// diagnose names the first clause in which got differs from want.
func diagnose(want, got Act, group int) string {
	where := fmt.Sprintf("%s-%s", acts[group/3], kinds[group%3])
	if got.Single.Malformed != "" || got.Old.Malformed != "" || got.New.Malformed != "" {
		return "action-shape/" + where
	}
	if want.Type != got.Type {
		return fmt.Sprintf("action-type/%s/want-%s-got-%s", where, want.Type, got.Type)
	}
	if want.Single.Present != got.Single.Present || want.Old.Present != got.Old.Present || want.New.Present != got.New.Present {
		return "action-shape/" + where
	}
	if want.Old != got.Old {
		w, g := want.Old, got.Old
		switch {
		case g.Kind != w.Kind || g.ID != w.ID:
			return "old-other-element/" + where
		case g.Version > w.Version:
			return "old-version-too-high/" + where
		case g.Version < w.Version:
			return "old-version-not-greatest/" + where
		}
		return "old-value-changed/" + where
	}
	for _, p := range [2][2]ES{{want.Single, got.Single}, {want.New, got.New}} {
		w, g := p[0], p[1]
		if w == g {
			continue
		}
		vis := w.Visible
		w.Visible, g.Visible = false, false
		if w == g {
			return fmt.Sprintf("new-visible/%s/%s/want-%v", where, want.Type, vis)
		}
		return "new-value/" + where
	}
	return "action/" + where
}

func checkCase(r *kit.Run, c *Case) {
	nt := c.NonTrivial()
	r.Case(c.Fingerprint(), nt)
	if nt {
		// two samples per family, picked deterministically (fixed positions in the enumeration)
		if c.sampleWorthy() {
			r.Sample(c)
		}
	}
	classify(r, c)
	want := model(c)
	got, herr := runReal(c)
	if herr != nil {
		kit.Fatalf("cannot build case %s: %v", c.Fingerprint(), herr)
	}
	shape := shapeOf(c)
	if got.Panic != "" {
		r.Violation("panic/"+shape, fmt.Sprintf("annotate.Change panicked: %s; case %s", got.Panic, c.Fingerprint()), c)
		return
	}

	// --- error outcomes
	if want.Failing || len(want.Missing) > 0 {
		add(r, "outcome_error_expected", 1)
		if got.Err == nil {
			clause := "missing-not-reported/"
			if want.Failing && len(want.Missing) == 0 {
				clause = "datasource-error-swallowed/"
			}
			r.Violation(clause+shape, fmt.Sprintf("no error returned (got %d actions %v); missing=%v failing=%v; case %s",
				len(got.Acts), got.Acts, want.Missing, want.Failing, c.Fingerprint()), c)
			return
		}
		if want.Failing && (errors.Is(got.Err, errBoom) || errors.Is(got.Err, error(errBoomNF))) {
			add(r, "outcome_error_passthrough", 1)
			return
		}
		var nv *annotate.NoVisibleChildError
		if len(want.Missing) > 0 && errors.As(got.Err, &nv) && nv != nil {
			for _, id := range want.Missing {
				if id == nv.ID {
					add(r, "outcome_error_no_visible_child", 1)
					return
				}
			}
			r.Violation("missing-error-wrong-id/"+shape, fmt.Sprintf("NoVisibleChildError names %v, elements without predecessor are %v; case %s",
				nv.ID, want.Missing, c.Fingerprint()), c)
			return
		}
		clause := "missing-error-wrong-type/"
		if want.Failing && len(want.Missing) == 0 {
			clause = "datasource-error-not-passed-through/"
		}
		r.Violation(clause+shape, fmt.Sprintf("got error %T %q; missing=%v failing=%v; case %s",
			got.Err, got.Err.Error(), want.Missing, want.Failing, c.Fingerprint()), c)
		return
	}

	// --- success outcomes
	if got.Err != nil {
		r.Violation("unexpected-error/"+shape, fmt.Sprintf("got error %T %q, expected a diff; case %s", got.Err, got.Err.Error(), c.Fingerprint()), c)
		return
	}
	if got.Nil {
		r.Violation("nil-diff/"+shape, "nil diff and nil error; case "+c.Fingerprint(), c)
		return
	}
	// (annotate.Change sets Visible on the elements of the change it is given, by
	// design; the property does not promise an untouched input, so InputModified
	// is recorded and not judged)
	if got.Second != "" {
		r.Violation("second-call-differs/"+shape, "a second annotate.Change with the same change and datasource: "+got.Second+"; case "+c.Fingerprint(), c)
	}
	if got.Other != "" {
		r.Violation("diff-extra-content/"+shape, got.Other+"; case "+c.Fingerprint(), c)
		return
	}
	total := 0
	for _, g := range want.Groups {
		total += len(g)
	}
	if len(got.Acts) != total {
		r.Violation("action-count/"+shape, fmt.Sprintf("%d actions for %d changed elements: %v; case %s",
			len(got.Acts), total, got.Acts, c.Fingerprint()), c)
		return
	}
	pos := 0
	for gi, wg := range want.Groups {
		gg := got.Acts[pos : pos+len(wg)]
		pos += len(wg)
		same := true
		for i := range wg {
			if wg[i] != gg[i] {
				same = false
			}
		}
		if same {
			if len(wg) > 1 {
				add(r, "groups_in_input_order", 1)
			}
			continue
		}
		// the property fixes the order of blocks and of kinds, not the order
		// of elements of one kind inside one block: compare as a multiset
		if equalStrings(sortedStrings(wg), sortedStrings(gg)) {
			add(r, "groups_permuted_within_kind", 1)
			continue
		}
		// is the multiset of all actions right, i.e. is it only the order?
		all := []Act{}
		for _, g := range want.Groups {
			all = append(all, g...)
		}
		if equalStrings(sortedStrings(all), sortedStrings(got.Acts)) {
			r.Violation("action-order/"+shape, fmt.Sprintf("actions are not in create,modify,delete / node,way,relation order: got %v; case %s",
				got.Acts, c.Fingerprint()), c)
			return
		}
		for i := range wg {
			if wg[i] != gg[i] {
				r.Violation(diagnose(wg[i], gg[i], gi)+"/ignore="+fmt.Sprint(c.Ignore),
					fmt.Sprintf("action %d: got %v want %v; case %s", pos-len(wg)+i, gg[i], wg[i], c.Fingerprint()), c)
				return
			}
		}
	}
	for gi, wg := range want.Groups {
		for _, a := range wg {
			switch {
			case a.Type == "create" && gi >= 3:
				add(r, "outcome_create_fallback", 1)
			default:
				add(r, "outcome_"+a.Type, 1)
			}
		}
	}
}

// counters are registered once (kit.Run.Add takes the run's mutex on every call)
var ctr = map[string]*int64{}

var ctrNames = []string{"outcome_error_expected", "outcome_error_passthrough", "outcome_error_no_visible_child",
	"outcome_create", "outcome_modify", "outcome_delete", "outcome_create_fallback",
	"groups_in_input_order", "groups_permuted_within_kind",
	"hist_served_absent", "hist_served_present", "hist_served_fail", "hist_served_fail-nf",
	"hist_unsorted", "hist_with_same_or_later_version", "hist_gap_before_element_version", "hist_present_without_smaller_version"}

func add(r *kit.Run, name string, n int64) {
	if p := ctr[name]; p != nil {
		atomic.AddInt64(p, n)
		return
	}
	r.Add(name, n)
}

// sampleWorthy picks a few fixed, illustrative points of each family.
func (c *Case) sampleWorthy() bool {
	switch c.Family {
	case "single":
		if len(c.Hist) != 1 || c.DS != "osm" || c.ExplicitOff {
			return false
		}
		v := c.Hist[0].Versions
		if len(v) == 4 && v[0] == 5 && v[1] == 1 && v[2] == 4 && v[3] == 2 {
			return (len(c.Modify) == 1 && c.Modify[0].Kind == 1 && c.Modify[0].Version == 4 && !c.Modify[0].Visible && !c.Ignore) ||
				(len(c.Delete) == 1 && c.Delete[0].Kind == 2 && c.Delete[0].Version == 1 && c.Delete[0].Visible && c.Ignore)
		}
	case "multi-order":
		return c.DS == "custom" && !c.EmptyBlocks && len(c.Create) == 3 && len(c.Modify) == 4 && len(c.Delete) == 2 &&
			c.Create[0].Kind == 1 && c.Create[1].Kind == 1 && c.Create[2].Kind == 2 &&
			c.Modify[0].Kind == 0 && c.Modify[1].Kind == 0 && c.Modify[2].Kind == 1 && c.Modify[3].Kind == 2 &&
			c.Delete[0].Kind == 1 && c.Delete[1].Kind == 1
	case "multi-status":
		if c.DS != "custom" || len(c.Create) != 1 || len(c.Modify) != 2 || len(c.Delete) != 1 || len(c.Hist) != 3 {
			return false
		}
		return c.Create[0].Kind == 0 && c.Modify[0].Kind == 1 && c.Delete[0].Kind == 0 &&
			c.Hist[0].State == "present" && len(c.Hist[0].Versions) == 4 && c.Hist[1].State == "absent" && c.Hist[2].State == "present" && len(c.Hist[2].Versions) == 2
	}
	return false
}

// classify counts which history shapes the quantifier names were served to a
// modified/deleted element.
func classify(r *kit.Run, c *Case) {
	for a := 1; a <= 2; a++ {
		for _, e := range c.block(a) {
			h := c.hist(e.Kind, e.ID)
			if h == nil || h.State != "present" {
				add(r, "hist_served_"+func() string {
					if h == nil {
						return "absent"
					}
					return h.State
				}(), 1)
				continue
			}
			unsorted, later, gap := false, false, false
			_, hasPrev := predecessor(h.Versions, e.Version)
			for i, u := range h.Versions {
				if i > 0 && h.Versions[i-1] > u {
					unsorted = true
				}
				if u >= e.Version {
					later = true
				}
			}
			if p, ok := predecessor(h.Versions, e.Version); ok && p < e.Version-1 {
				gap = true
			}
			add(r, "hist_served_present", 1)
			if unsorted {
				add(r, "hist_unsorted", 1)
			}
			if later {
				add(r, "hist_with_same_or_later_version", 1)
			}
			if gap {
				add(r, "hist_gap_before_element_version", 1)
			}
			if !hasPrev {
				add(r, "hist_present_without_smaller_version", 1)
			}
		}
	}
}

// ---------------------------------------------------------------------------
// Enumeration

// orderedSubsets returns every sequence of distinct values from alphabet with
// length <= maxLen (every subset in every order), shortest first.
func orderedSubsets(alphabet []int, maxLen int) [][]int {
	out := [][]int{{}}
	var rec func(cur []int, used []bool)
	rec = func(cur []int, used []bool) {
		if len(cur) == maxLen {
			return
		}
		for i, a := range alphabet {
			if used[i] {
				continue
			}
			used[i] = true
			next := append(append([]int{}, cur...), a)
			out = append(out, next)
			rec(next, used)
			used[i] = false
		}
	}
	rec(nil, make([]bool, len(alphabet)))
	return out
}

type unit func(emit func(*Case))

type optVariant struct{ ignore, explicitOff bool }

var optVariants = []optVariant{{false, false}, {false, true}, {true, false}}

// family "single": one element; kind x action slot x version x input Visible x
// history x option x datasource.
func singleUnits(histAlphabet []int, maxLen int, elemVersions []int) ([]unit, int) {
	seqs := orderedSubsets(histAlphabet, maxLen)
	type hs struct {
		state string
		vs    []int
	}
	var hists []hs
	hists = append(hists, hs{"absent", nil}, hs{"fail", nil}, hs{"fail-nf", nil})
	for _, s := range seqs {
		hists = append(hists, hs{"present", s})
	}
	var units []unit
	for _, h := range hists {
		h := h
		units = append(units, func(emit func(*Case)) {
			for _, dsName := range []string{"osm", "custom"} {
				if dsName == "osm" && strings.HasPrefix(h.state, "fail") {
					continue
				}
				for kind := 0; kind < 3; kind++ {
					for a := 0; a < 3; a++ {
						for _, v := range elemVersions {
							for _, vis := range []bool{false, true} {
								for _, ov := range optVariants {
									c := &Case{Family: "single", DS: dsName, Ignore: ov.ignore, ExplicitOff: ov.explicitOff}
									e := Elem{Kind: kind, ID: 7, Version: v, Visible: vis, Mark: 2000 + v}
									switch a {
									case 0:
										c.Create = []Elem{e}
									case 1:
										c.Modify = []Elem{e}
									default:
										c.Delete = []Elem{e}
									}
									c.Hist = []Hist{{Kind: kind, ID: 7, State: h.state, Versions: h.vs}}
									emit(c)
								}
							}
						}
					}
				}
			}
		})
	}
	return units, len(hists)
}

// family "multi-order": every vector of 0..maxPerSlot elements for each of the nine
// (action, kind) slots; ids are shared across the action blocks (the same
// element is created, modified and deleted in one change), every history is
// unsorted, has a gap and contains later versions.
func multiOrderUnits(maxPerSlot int) []unit {
	var units []unit
	base := maxPerSlot + 1
	nvec := 1
	for i := 0; i < 9; i++ {
		nvec *= base
	}
	for vec := 0; vec < nvec; vec++ {
		vec := vec
		units = append(units, func(emit func(*Case)) {
			var counts [9]int
			x := vec
			for i := 0; i < 9; i++ {
				counts[i] = x % base
				x /= base
			}
			if vec == 0 {
				// the empty change: nil and empty blocks
				for _, eb := range []bool{false, true} {
					for _, ds := range []string{"osm", "custom"} {
						emit(&Case{Family: "multi-order", DS: ds, EmptyBlocks: eb})
					}
				}
				return
			}
			for _, dsName := range []string{"osm", "custom"} {
				for _, ign := range []bool{false, true} {
					for _, eb := range []bool{false, true} {
						c := &Case{Family: "multi-order", DS: dsName, Ignore: ign, EmptyBlocks: eb}
						for slot := 0; slot < 9; slot++ {
							a, kind := slot/3, slot%3
							for j := 0; j < counts[slot]; j++ {
								// create v1, modify v4, delete v6 of the same ids
								v := []int{1, 4, 6}[a]
								e := Elem{Kind: kind, ID: int64(10 + j), Version: v, Visible: a == 2, Mark: 2000 + slot*10 + j}
								switch a {
								case 0:
									c.Create = append(c.Create, e)
								case 1:
									c.Modify = append(c.Modify, e)
								default:
									c.Delete = append(c.Delete, e)
								}
							}
						}
						for kind := 0; kind < 3; kind++ {
							// the second id's history in another order
							c.Hist = append(c.Hist,
								Hist{Kind: kind, ID: 10, State: "present", Versions: []int{7, 2, 5, 1, 4}},
								Hist{Kind: kind, ID: 11, State: "present", Versions: []int{4, 5, 7, 1, 2}})
							if maxPerSlot > 2 {
								c.Hist = append(c.Hist, Hist{Kind: kind, ID: 12, State: "present", Versions: []int{5, 4, 2, 7, 1}})
							}
						}
						emit(c)
					}
				}
			}
		})
	}
	return units
}

// family "same-id": one element id occurs twice, with different versions, inside
// ONE action block (merged replication diffs look like this). Every version of
// it is a changed element of its own: one action each, each paired with its own
// predecessor.
func sameIDUnits() []unit {
	var units []unit
	pairs := [][2]int{{2, 4}, {4, 2}, {4, 5}, {5, 4}, {3, 7}, {7, 3}}
	for kind := 0; kind < 3; kind++ {
		for a := 1; a <= 2; a++ {
			for _, p := range pairs {
				kind, a, p := kind, a, p
				units = append(units, func(emit func(*Case)) {
					for _, dsName := range []string{"osm", "custom"} {
						for _, ign := range []bool{false, true} {
							for _, third := range []bool{false, true} {
								c := &Case{Family: "same-id", DS: dsName, Ignore: ign}
								es := []Elem{{Kind: kind, ID: 10, Version: p[0], Visible: a == 2, Mark: 3001},
									{Kind: kind, ID: 10, Version: p[1], Visible: a == 2, Mark: 3002}}
								if third {
									// another id between the two, and the same id once more in the other block
									es = []Elem{es[0], {Kind: kind, ID: 11, Version: 4, Visible: a == 2, Mark: 3003}, es[1]}
								}
								other := Elem{Kind: kind, ID: 10, Version: 6, Visible: a == 1, Mark: 3004}
								if a == 1 {
									c.Modify = es
									if third {
										c.Delete = []Elem{other}
									}
								} else {
									c.Delete = es
									if third {
										c.Modify = []Elem{other}
									}
								}
								c.Hist = append(c.Hist,
									Hist{Kind: kind, ID: 10, State: "present", Versions: []int{7, 2, 5, 1, 4, 3}},
									Hist{Kind: kind, ID: 11, State: "present", Versions: []int{4, 5, 7, 1, 2}})
								emit(c)
							}
						}
					}
				})
			}
		}
	}
	return units
}

// family "multi-status": every subset of the nine slots with one element each;
// every modified/deleted element independently has a predecessor, no history,
// a history without smaller version, or (own datasource) a failing history.
func multiStatusUnits() []unit {
	var units []unit
	for sub := 1; sub < 512; sub++ {
		sub := sub
		units = append(units, func(emit func(*Case)) {
			var upd []int
			for slot := 3; slot < 9; slot++ {
				if sub&(1<<slot) != 0 {
					upd = append(upd, slot)
				}
			}
			for _, dsName := range []string{"osm", "custom"} {
				statuses := []string{"prev", "absent", "nosmaller"}
				if dsName == "custom" {
					statuses = append(statuses, "fail")
				}
				n := 1
				for range upd {
					n *= len(statuses)
				}
				for combo := 0; combo < n; combo++ {
					for _, ign := range []bool{false, true} {
						c := &Case{Family: "multi-status", DS: dsName, Ignore: ign}
						x := combo
						for slot := 0; slot < 9; slot++ {
							if sub&(1<<slot) == 0 {
								continue
							}
							a, kind := slot/3, slot%3
							// distinct ids per slot: statuses are independent
							id := int64(20 + slot)
							e := Elem{Kind: kind, ID: id, Version: 3, Visible: a == 2, Mark: 2000 + slot}
							switch a {
							case 0:
								c.Create = append(c.Create, e)
								continue
							case 1:
								c.Modify = append(c.Modify, e)
							default:
								c.Delete = append(c.Delete, e)
							}
							st := statuses[x%len(statuses)]
							x /= len(statuses)
							switch st {
							case "prev":
								c.Hist = append(c.Hist, Hist{Kind: kind, ID: id, State: "present", Versions: []int{5, 1, 3, 2}})
							case "absent":
								c.Hist = append(c.Hist, Hist{Kind: kind, ID: id, State: "absent"})
							case "nosmaller":
								c.Hist = append(c.Hist, Hist{Kind: kind, ID: id, State: "present", Versions: []int{4, 3}})
							case "fail":
								c.Hist = append(c.Hist, Hist{Kind: kind, ID: id, State: "fail"})
							}
						}
						emit(c)
					}
				}
			}
		})
	}
	return units
}

func main() {
	kit.Main("C13", "exploration", func(r *kit.Run) {
		r.Rule("family single: one changed element; kind{node,way,relation} x block{create,modify,delete} x element version x input Visible{false,true} x " +
			"history{absent, failing(2 error types, own datasource only), every subset of the version alphabet up to the size bound in EVERY order} x " +
			"option{none, IgnoreMissingChildren(false), IgnoreMissingChildren(true)} x datasource{osm.HistoryDatasource, own HistoryDatasourcer with typed NotFound() errors}. " +
			"quick: versions {0..5}, size<=4, element version 0..4; thorough: versions {0..6}, every size, element version 0..7. " +
			"family multi-order: all vectors of 0..2 (thorough 0..3) elements per (block,kind) slot x ignore x nil/empty blocks x datasource, ids shared between blocks, unsorted gapped histories. " +
			"family multi-status: every non-empty subset of the 9 slots, each modified/deleted element independently {has predecessor, no history, no smaller version, failing history} x ignore x datasource. " +
			"History elements carry the version in changeset id, user, tags, geometry/members and Visible (odd versions visible) so the picked version is observable. " +
			"A case is non-trivial when it has >=2 elements or a modified/deleted element whose served history has >=2 versions; fingerprint = the full case description.")
		r.Assume("Go runtime, reflect-free comparison code in this file; the reference model predecessor() walks version numbers downward from v-1 (independent of the list scan in /repo)")
		r.Assume("Histories contain each version at most once (with duplicates 'the history version with the greatest number below' is ambiguous) and no negative versions")
		r.Assume("Order of elements of the same kind inside one block is not fixed by the property: compared as a multiset (counted in groups_permuted_within_kind); " +
			"when several elements lack a predecessor the NoVisibleChildError may name any of them; when missing and failing histories coexist either error is accepted")

		for _, n := range ctrNames {
			ctr[n] = r.Counter(n)
		}
		if r.ReplayPath != "" {
			var c Case
			r.LoadReplay(&c)
			checkCase(r, &c)
			return
		}

		var alphabet, elemVersions []int
		maxLen := 4
		if r.Quick() {
			alphabet = []int{0, 1, 2, 3, 4, 5}
			elemVersions = []int{0, 1, 2, 3, 4}
		} else {
			alphabet = []int{0, 1, 2, 3, 4, 5, 6}
			elemVersions = []int{0, 1, 2, 3, 4, 5, 6, 7}
			maxLen = 7
		}
		single, nh := singleUnits(alphabet, maxLen, elemVersions)
		r.Set("single_histories", nh)
		families := []struct {
			name  string
			units []unit
		}{{"single", single}, {"multi-order", multiOrderUnits(r.Pick(2, 3))}, {"multi-status", multiStatusUnits()}, {"same-id", sameIDUnits()}}
		for _, f := range families {
			f := f
			before := r.Evals()
			r.Par(len(f.units), func(i int) {
				f.units[i](func(c *Case) { checkCase(r, c) })
			})
			r.Set("cases_"+f.name, r.Evals()-before)
		}
	})
}
