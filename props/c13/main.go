// C13 — annotating an osmChange against element histories yields the exact
// old/new diff.
//
// Bounded-exhaustive enumeration of (change, histories, option, datasource)
// against a reference model written here. The real code is only reached through
// the public API: annotate.Change, osm.HistoryDatasource (or an own
// implementation of osm.HistoryDatasourcer), osm.Diff.
//
// Families: single, multi-order, multi-status, same-id (small alphabets, full
// products) and the boundary families wide-version, wide-id, content, options,
// long, sequence (values and situations outside those alphabets: integer widths,
// the 40 id bits of osm.FeatureID, timestamps against the version order, bare
// elements, option lists nobody passes, long histories and big changes, a second
// change against the same datasource object while the first diff is retained).
package main

import (
	"context"
	"encoding/json"
	"errors"
	"fmt"
	"reflect"
	"sort"
	"strings"
	"sync/atomic"
	"time"

	"github.com/paulmach/osm"
	"github.com/paulmach/osm/annotate"

	"verif/kit"
)

// ---------------------------------------------------------------------------
// Case description (pure data, JSON round-trips for -replay)

var kinds = [3]string{"node", "way", "relation"}
var acts = [3]string{"create", "modify", "delete"}

// Elem is one element of the change as handed to annotate.Change.
type Elem struct {
	Kind    int   `json:"kind"` // 0 node, 1 way, 2 relation
	ID      int64 `json:"id"`
	Version int   `json:"version"`
	Visible bool  `json:"visible"` // the Visible flag of the input before the call
	Mark    int   `json:"mark"`    // unique marker (changeset id, tag, geometry derive from it)
}

// Hist is what the datasource serves for (Kind, ID).
//
//	absent:  not-found error
//	present: the versions in Versions, in that order (may be empty)
//	fail:    a plain error the datasource does not call not-found
//	fail-nf: an error with a NotFound() method that returns false
type Hist struct {
	Kind     int    `json:"kind"`
	ID       int64  `json:"id"`
	State    string `json:"state"`
	Versions []int  `json:"versions,omitempty"`
}

// Case is one point of the enumerated space.
type Case struct {
	Family      string `json:"family"`
	DS          string `json:"ds"`           // "osm" = osm.HistoryDatasource, "custom" = own HistoryDatasourcer, "list-split" / "list-rr" = OSM.HistoryDatasource() of one element list in which the versions of an id are not adjacent
	Ignore      bool   `json:"ignore"`       // IgnoreMissingChildren(true)
	ExplicitOff bool   `json:"explicit_off"` // pass IgnoreMissingChildren(false) instead of no option
	EmptyBlocks bool   `json:"empty_blocks"` // element-less blocks are &osm.OSM{} instead of nil
	Create      []Elem `json:"create,omitempty"`
	Modify      []Elem `json:"modify,omitempty"`
	Delete      []Elem `json:"delete,omitempty"`
	Hist        []Hist `json:"hist,omitempty"`
	// Opts, when not empty, is the exact option list handed to annotate.Change
	// (see optionFor); Ignore then states what the list amounts to: the value of
	// the LAST IgnoreMissingChildren in it, off when there is none.
	Opts []string `json:"opts,omitempty"`
	// Content: "" = marked elements with zero timestamps; "times" = timestamps and
	// Committed set, running AGAINST the version order (see tsFor); "bare" = the
	// elements of the change and the invisible history versions carry nothing but
	// id, version, changeset (what deleted elements look like in real data).
	Content string `json:"content,omitempty"`
	// Then: a second, different change annotated against the SAME datasource object
	// right after this one, while this one's diff is retained (Then.Hist == Hist).
	Then *Case `json:"then,omitempty"`
}

// content bits handed to the element builders
const (
	ctTimes = 1
	ctBare  = 2
)

// ctElem / ctHist: the content of an element of the change / of history version u.
func (c *Case) ctElem() int {
	switch c.Content {
	case "times":
		return ctTimes
	case "bare":
		return ctBare
	}
	return 0
}

func (c *Case) ctHist(u int) int {
	switch c.Content {
	case "times":
		return ctTimes
	case "bare":
		if !histVisible(u) {
			return ctBare
		}
	}
	return 0
}

// tsTable: the timestamp of version u in content "times". It DEcreases with the
// version (a predecessor picked by time instead of by version number is a
// different element) and walks through the boundary classes of time: after 2262
// (UnixNano overflows), sub-second in another zone, either side of
// osm.CommitInfoStart, unix 0, before 1970, the zero time.
var tsTable = []time.Time{
	time.Date(2300, 1, 1, 0, 0, 0, 0, time.UTC),
	time.Date(2030, 6, 1, 12, 0, 0, 500000000, time.FixedZone("", 5*3600)),
	osm.CommitInfoStart.Add(time.Second),
	osm.CommitInfoStart.Add(-time.Second),
	time.Date(2005, 1, 1, 0, 0, 0, 0, time.UTC),
	time.Unix(0, 0).UTC(),
	time.Unix(-1, 0).UTC(),
}

func tsFor(version int) time.Time {
	if version >= 0 && version < len(tsTable) {
		return tsTable[version]
	}
	return time.Time{}
}

// committedFor: odd versions carry a Committed time, even ones none.
func committedFor(version int) *time.Time {
	if version%2 == 0 {
		return nil
	}
	t := tsFor(version).Add(time.Minute)
	return &t
}

func (c *Case) block(a int) []Elem {
	switch a {
	case 0:
		return c.Create
	case 1:
		return c.Modify
	}
	return c.Delete
}

func (c *Case) hist(kind int, id int64) *Hist {
	for i := range c.Hist {
		if c.Hist[i].Kind == kind && c.Hist[i].ID == id {
			return &c.Hist[i]
		}
	}
	return nil // nothing said about it: absent
}

func (c *Case) Fingerprint() string {
	b, _ := json.Marshal(c)
	return string(b)
}

func (c *Case) elems() int { return len(c.Create) + len(c.Modify) + len(c.Delete) }

// NonTrivial: the case exercises either the max-below search on a history with
// at least two versions (for a modified/deleted element), or the ordering of at
// least two elements.
func (c *Case) NonTrivial() bool {
	if c.elems() >= 2 {
		return true
	}
	for a := 1; a <= 2; a++ {
		for _, e := range c.block(a) {
			if h := c.hist(e.Kind, e.ID); h != nil && h.State == "present" && len(h.Versions) >= 2 {
				return true
			}
		}
	}
	return false
}

// marker conventions for history elements: which version was picked is
// observable in every field.
func histMark(version int) int     { return 1000 + version }
func histVisible(version int) bool { return version%2 == 1 }

// ---------------------------------------------------------------------------
// Abstract result: what is compared between model and real code.

// ES is the value of one element (or the fact that there is none).
type ES struct {
	Present   bool
	Malformed string // container did not hold exactly one element of one kind
	Kind      int
	ID        int64
	Version   int
	Visible   bool
	Rest      string // every other field, canonical
}

type Act struct {
	Type   string
	Single ES // the embedded *osm.OSM of the action
	Old    ES
	New    ES
}

func (a Act) String() string {
	return fmt.Sprintf("{%s single=%s old=%s new=%s}", a.Type, a.Single, a.Old, a.New)
}

func (e ES) String() string {
	if e.Malformed != "" {
		return "MALFORMED(" + e.Malformed + ")"
	}
	if !e.Present {
		return "-"
	}
	return fmt.Sprintf("%s/%d v%d visible=%v [%s]", kinds[e.Kind], e.ID, e.Version, e.Visible, e.Rest)
}

// Expect is the reference model's verdict for a case.
type Expect struct {
	// success: Groups[a*3+k] = expected actions of block a, kind k, in input order
	Groups [9][]Act
	// error: non-empty Missing and/or Failing
	Missing []osm.FeatureID // elements whose predecessor does not exist (and Ignore is off)
	Failing bool            // some consulted history returns a non-not-found error
}

// ---------------------------------------------------------------------------
// Building real objects from the description

func tagsFor(mark int) osm.Tags { return osm.Tags{{Key: "mark", Value: fmt.Sprint(mark)}} }

// The builders: ct == 0 is a fully marked element with zero timestamp; ctTimes
// adds Timestamp/Committed as a function of the version; ctBare leaves nothing
// but id, version, visible and the changeset id (= mark).
func buildNode(id int64, version int, visible bool, mark int, ct int) *osm.Node {
	if ct&ctBare != 0 {
		return &osm.Node{ID: osm.NodeID(id), Version: version, Visible: visible, ChangesetID: osm.ChangesetID(mark)}
	}
	n := &osm.Node{ID: osm.NodeID(id), Version: version, Visible: visible,
		ChangesetID: osm.ChangesetID(mark), Lat: float64(mark) / 100, Lon: -float64(mark) / 100,
		UserID: osm.UserID(mark + 1), User: fmt.Sprintf("u%d", mark), Tags: tagsFor(mark)}
	if ct&ctTimes != 0 {
		n.Timestamp, n.Committed = tsFor(version), committedFor(version)
	}
	return n
}

func buildWay(id int64, version int, visible bool, mark int, ct int) *osm.Way {
	if ct&ctBare != 0 {
		return &osm.Way{ID: osm.WayID(id), Version: version, Visible: visible, ChangesetID: osm.ChangesetID(mark)}
	}
	w := &osm.Way{ID: osm.WayID(id), Version: version, Visible: visible,
		ChangesetID: osm.ChangesetID(mark), UserID: osm.UserID(mark + 1), User: fmt.Sprintf("u%d", mark),
		Tags:  tagsFor(mark),
		Nodes: osm.WayNodes{{ID: osm.NodeID(mark)}, {ID: osm.NodeID(mark + 1)}}}
	if ct&ctTimes != 0 {
		w.Timestamp, w.Committed = tsFor(version), committedFor(version)
		w.Updates = osm.Updates{{Index: 1, Version: version + 1, Timestamp: tsFor(version + 1), ChangesetID: osm.ChangesetID(mark + 2)}}
	}
	return w
}

func buildRelation(id int64, version int, visible bool, mark int, ct int) *osm.Relation {
	if ct&ctBare != 0 {
		return &osm.Relation{ID: osm.RelationID(id), Version: version, Visible: visible, ChangesetID: osm.ChangesetID(mark)}
	}
	r := &osm.Relation{ID: osm.RelationID(id), Version: version, Visible: visible,
		ChangesetID: osm.ChangesetID(mark), UserID: osm.UserID(mark + 1), User: fmt.Sprintf("u%d", mark),
		Tags:    tagsFor(mark),
		Members: osm.Members{{Type: osm.TypeNode, Ref: int64(mark), Role: "m"}}}
	if ct&ctTimes != 0 {
		r.Timestamp, r.Committed = tsFor(version), committedFor(version)
		r.Updates = osm.Updates{{Index: 0, Version: version + 1, Timestamp: tsFor(version + 1), ChangesetID: osm.ChangesetID(mark + 2)}}
	}
	return r
}

// expected value of an element built by the functions above
func valueOf(kind int, id int64, version int, visible bool, mark int, ct int) ES {
	switch kind {
	case 0:
		return nodeES(buildNode(id, version, visible, mark, ct))
	case 1:
		return wayES(buildWay(id, version, visible, mark, ct))
	}
	return relationES(buildRelation(id, version, visible, mark, ct))
}

func tagStr(t osm.Tags) string {
	s := make([]string, 0, len(t))
	for _, kv := range t {
		s = append(s, kv.Key+"="+kv.Value)
	}
	sort.Strings(s)
	return strings.Join(s, ",")
}

// timeStr keeps the instant to the nanosecond AND the zone; the zero time (the
// bulk of the enumeration) takes the short path.
func timeStr(t time.Time, committed *time.Time) string {
	if committed == nil && t.IsZero() && t.Location() == time.UTC {
		return "0/-"
	}
	c := "-"
	if committed != nil {
		c = committed.Format(time.RFC3339Nano)
	}
	return t.Format(time.RFC3339Nano) + "/" + c
}

func updStr(us osm.Updates) string {
	if len(us) == 0 {
		return "0"
	}
	s := make([]string, 0, len(us))
	for _, u := range us {
		s = append(s, fmt.Sprintf("%d.%d.%s.%d.%v.%v.%v", u.Index, u.Version, u.Timestamp.Format(time.RFC3339Nano), u.ChangesetID, u.Lat, u.Lon, u.Reverse))
	}
	return strings.Join(s, ";")
}

func nodeES(n *osm.Node) ES {
	if n == nil {
		return ES{Malformed: "nil node"}
	}
	return ES{Present: true, Kind: 0, ID: int64(n.ID), Version: n.Version, Visible: n.Visible,
		Rest: fmt.Sprintf("cs=%d uid=%d user=%s ts=%s lat=%v lon=%v tags=%s", n.ChangesetID, n.UserID, n.User,
			timeStr(n.Timestamp, n.Committed), n.Lat, n.Lon, tagStr(n.Tags))}
}

func wayES(w *osm.Way) ES {
	if w == nil {
		return ES{Malformed: "nil way"}
	}
	ns := make([]string, 0, len(w.Nodes))
	for _, wn := range w.Nodes {
		ns = append(ns, fmt.Sprintf("%d.%d.%d.%v.%v", wn.ID, wn.Version, wn.ChangesetID, wn.Lat, wn.Lon))
	}
	return ES{Present: true, Kind: 1, ID: int64(w.ID), Version: w.Version, Visible: w.Visible,
		Rest: fmt.Sprintf("cs=%d uid=%d user=%s ts=%s tags=%s nodes=%s upd=%s", w.ChangesetID, w.UserID, w.User,
			timeStr(w.Timestamp, w.Committed), tagStr(w.Tags), strings.Join(ns, ";"), updStr(w.Updates))}
}

func relationES(r *osm.Relation) ES {
	if r == nil {
		return ES{Malformed: "nil relation"}
	}
	ms := make([]string, 0, len(r.Members))
	for _, m := range r.Members {
		ms = append(ms, fmt.Sprintf("%s.%d.%s.%d.%d", m.Type, m.Ref, m.Role, m.Version, m.ChangesetID))
	}
	return ES{Present: true, Kind: 2, ID: int64(r.ID), Version: r.Version, Visible: r.Visible,
		Rest: fmt.Sprintf("cs=%d uid=%d user=%s ts=%s tags=%s members=%s upd=%s", r.ChangesetID, r.UserID, r.User,
			timeStr(r.Timestamp, r.Committed), tagStr(r.Tags), strings.Join(ms, ";"), updStr(r.Updates))}
}

// containerES turns an *osm.OSM that must hold exactly one element into its value.
func containerES(o *osm.OSM) ES {
	if o == nil {
		return ES{}
	}
	n := len(o.Nodes) + len(o.Ways) + len(o.Relations)
	extra := len(o.Users) + len(o.Notes) + len(o.Changesets)
	if n != 1 || extra != 0 || o.Bounds != nil {
		return ES{Malformed: fmt.Sprintf("%d nodes %d ways %d relations %d other, bounds=%v",
			len(o.Nodes), len(o.Ways), len(o.Relations), extra, o.Bounds != nil)}
	}
	switch {
	case len(o.Nodes) == 1:
		return nodeES(o.Nodes[0])
	case len(o.Ways) == 1:
		return wayES(o.Ways[0])
	}
	return relationES(o.Relations[0])
}

func buildBlock(es []Elem, emptyBlocks bool, ct int) *osm.OSM {
	if len(es) == 0 {
		if emptyBlocks {
			return &osm.OSM{}
		}
		return nil
	}
	o := &osm.OSM{}
	for _, e := range es {
		switch e.Kind {
		case 0:
			o.Nodes = append(o.Nodes, buildNode(e.ID, e.Version, e.Visible, e.Mark, ct))
		case 1:
			o.Ways = append(o.Ways, buildWay(e.ID, e.Version, e.Visible, e.Mark, ct))
		default:
			o.Relations = append(o.Relations, buildRelation(e.ID, e.Version, e.Visible, e.Mark, ct))
		}
	}
	return o
}

// --- own datasource ---------------------------------------------------------

type lookupErr struct {
	what string
	nf   bool
}

func (e *lookupErr) Error() string  { return e.what }
func (e *lookupErr) NotFound() bool { return e.nf }

type histEntry struct {
	err       error
	nodes     osm.Nodes
	ways      osm.Ways
	relations osm.Relations
}

// dsKey: the exact (kind, id) - an osm.FeatureID keeps only 40 bits of the id
type dsKey struct {
	kind int
	id   int64
}

type customDS struct {
	m map[dsKey]*histEntry
}

func (d *customDS) get(kind int, id int64) *histEntry {
	if h := d.m[dsKey{kind, id}]; h != nil {
		return h
	}
	return &histEntry{err: &lookupErr{what: fmt.Sprintf("custom: %s %d not found", kinds[kind], id), nf: true}}
}

func (d *customDS) NodeHistory(_ context.Context, id osm.NodeID) (osm.Nodes, error) {
	h := d.get(0, int64(id))
	return h.nodes, h.err
}

func (d *customDS) WayHistory(_ context.Context, id osm.WayID) (osm.Ways, error) {
	h := d.get(1, int64(id))
	return h.ways, h.err
}

func (d *customDS) RelationHistory(_ context.Context, id osm.RelationID) (osm.Relations, error) {
	h := d.get(2, int64(id))
	return h.relations, h.err
}

func (d *customDS) NotFound(err error) bool {
	if e, ok := err.(interface{ NotFound() bool }); ok {
		return e.NotFound()
	}
	return false
}

var errBoom = errors.New("c13: datasource is down")
var errBoomNF = &lookupErr{what: "c13: datasource is down (typed)", nf: false}

func featureID(kind int, id int64) osm.FeatureID {
	switch kind {
	case 0:
		return osm.NodeID(id).FeatureID()
	case 1:
		return osm.WayID(id).FeatureID()
	}
	return osm.RelationID(id).FeatureID()
}

// listDS builds the datasource the way applications do that have the histories as
// one element list (a history file, a downloaded extract): an osm.OSM whose node,
// way and relation lists hold every version, handed to OSM.HistoryDatasource().
// The versions of one id keep their relative order but need not be adjacent:
// "split" lists the first half of every history and then the second halves,
// "rr" deals the histories out one version at a time.
func listDS(c *Case) (osm.HistoryDatasourcer, error) {
	var hs [3][]int
	for i, h := range c.Hist {
		switch h.State {
		case "absent":
			continue
		case "present":
			hs[h.Kind] = append(hs[h.Kind], i)
		default:
			return nil, fmt.Errorf("an element list cannot serve state %q", h.State)
		}
	}
	o := &osm.OSM{}
	add := func(hi, vi int) {
		h := c.Hist[hi]
		u := h.Versions[vi]
		switch h.Kind {
		case 0:
			o.Nodes = append(o.Nodes, buildNode(h.ID, u, histVisible(u), histMark(u), c.ctHist(u)))
		case 1:
			o.Ways = append(o.Ways, buildWay(h.ID, u, histVisible(u), histMark(u), c.ctHist(u)))
		default:
			o.Relations = append(o.Relations, buildRelation(h.ID, u, histVisible(u), histMark(u), c.ctHist(u)))
		}
	}
	for kind := 0; kind < 3; kind++ {
		if c.DS == "list-split" {
			for _, hi := range hs[kind] {
				n := len(c.Hist[hi].Versions)
				for vi := 0; vi < (n+1)/2; vi++ {
					add(hi, vi)
				}
			}
			for _, hi := range hs[kind] {
				n := len(c.Hist[hi].Versions)
				for vi := (n + 1) / 2; vi < n; vi++ {
					add(hi, vi)
				}
			}
			continue
		}
		for vi := 0; ; vi++ {
			any := false
			for _, hi := range hs[kind] {
				if vi < len(c.Hist[hi].Versions) {
					add(hi, vi)
					any = true
				}
			}
			if !any {
				break
			}
		}
	}
	return o.HistoryDatasource(), nil
}

func buildDS(c *Case) (osm.HistoryDatasourcer, error) {
	if c.DS == "list-split" || c.DS == "list-rr" {
		return listDS(c)
	}
	if c.DS == "osm" {
		ds := &osm.HistoryDatasource{}
		for _, h := range c.Hist {
			switch h.State {
			case "absent":
				continue
			case "present":
			default:
				return nil, fmt.Errorf("osm.HistoryDatasource cannot serve state %q", h.State)
			}
			switch h.Kind {
			case 0:
				if ds.Nodes == nil {
					ds.Nodes = map[osm.NodeID]osm.Nodes{}
				}
				l := make(osm.Nodes, 0, len(h.Versions))
				for _, u := range h.Versions {
					l = append(l, buildNode(h.ID, u, histVisible(u), histMark(u), c.ctHist(u)))
				}
				ds.Nodes[osm.NodeID(h.ID)] = l
			case 1:
				if ds.Ways == nil {
					ds.Ways = map[osm.WayID]osm.Ways{}
				}
				l := make(osm.Ways, 0, len(h.Versions))
				for _, u := range h.Versions {
					l = append(l, buildWay(h.ID, u, histVisible(u), histMark(u), c.ctHist(u)))
				}
				ds.Ways[osm.WayID(h.ID)] = l
			default:
				if ds.Relations == nil {
					ds.Relations = map[osm.RelationID]osm.Relations{}
				}
				l := make(osm.Relations, 0, len(h.Versions))
				for _, u := range h.Versions {
					l = append(l, buildRelation(h.ID, u, histVisible(u), histMark(u), c.ctHist(u)))
				}
				ds.Relations[osm.RelationID(h.ID)] = l
			}
		}
		return ds, nil
	}
	if c.DS != "custom" {
		return nil, fmt.Errorf("unknown datasource %q", c.DS)
	}
	ds := &customDS{m: map[dsKey]*histEntry{}}
	for _, h := range c.Hist {
		e := &histEntry{}
		switch h.State {
		case "absent":
			continue
		case "fail":
			e.err = errBoom
		case "fail-nf":
			e.err = errBoomNF
		case "present":
			for _, u := range h.Versions {
				switch h.Kind {
				case 0:
					e.nodes = append(e.nodes, buildNode(h.ID, u, histVisible(u), histMark(u), c.ctHist(u)))
				case 1:
					e.ways = append(e.ways, buildWay(h.ID, u, histVisible(u), histMark(u), c.ctHist(u)))
				default:
					e.relations = append(e.relations, buildRelation(h.ID, u, histVisible(u), histMark(u), c.ctHist(u)))
				}
			}
		default:
			return nil, fmt.Errorf("unknown history state %q", h.State)
		}
		ds.m[dsKey{h.Kind, h.ID}] = e
	}
	return ds, nil
}

// ---------------------------------------------------------------------------
// Reference model (uses only the Case description)

// predecessor: the greatest version below v that occurs in versions, by value.
// Formulated on a sorted copy (descending: the first entry below v), not as the
// running-maximum scan of the list in /repo; version numbers may be as large as
// an int can hold, so no walk over the numbers themselves.
func predecessor(versions []int, v int) (int, bool) {
	sorted := append([]int{}, versions...)
	sort.Sort(sort.Reverse(sort.IntSlice(sorted)))
	for _, u := range sorted {
		if u < v {
			return u, true
		}
	}
	return 0, false
}

func model(c *Case) Expect {
	var x Expect
	for _, e := range c.Create {
		x.Groups[e.Kind] = append(x.Groups[e.Kind],
			Act{Type: "create", Single: valueOf(e.Kind, e.ID, e.Version, true, e.Mark, c.ctElem())})
	}
	for a := 1; a <= 2; a++ {
		for _, e := range c.block(a) {
			g := a*3 + e.Kind
			h := c.hist(e.Kind, e.ID)
			state := "absent"
			if h != nil {
				state = h.State
			}
			if state == "fail" || state == "fail-nf" {
				x.Failing = true
				continue
			}
			u, ok := 0, false
			if state == "present" {
				u, ok = predecessor(h.Versions, e.Version)
			}
			if !ok {
				if c.Ignore {
					x.Groups[g] = append(x.Groups[g],
						Act{Type: "create", Single: valueOf(e.Kind, e.ID, e.Version, true, e.Mark, c.ctElem())})
				} else {
					x.Missing = append(x.Missing, featureID(e.Kind, e.ID))
				}
				continue
			}
			x.Groups[g] = append(x.Groups[g], Act{Type: acts[a],
				Old: valueOf(e.Kind, e.ID, u, histVisible(u), histMark(u), c.ctHist(u)),
				New: valueOf(e.Kind, e.ID, e.Version, a == 1, e.Mark, c.ctElem())})
		}
	}
	return x
}

// ---------------------------------------------------------------------------
// Running the real code

type Got struct {
	Panic string
	Err   error
	Nil   bool // nil diff without error
	Acts  []Act
	Other string // diff carries something besides actions
	// the call itself: the change handed in is left as it was, and asking again
	// (same change, same datasource) gives the same answer
	InputModified bool
	Second        string
	// Retained: what became of this call's diff while the next call (Case.Then) ran
	Retained string
}

// optionFor turns one entry of Case.Opts into the library's option. The options
// other than IgnoreMissingChildren belong to the other annotate functions; the
// property gives them no say in annotate.Change.
func optionFor(name string) (annotate.Option, error) {
	switch name {
	case "imc-true":
		return annotate.IgnoreMissingChildren(true), nil
	case "imc-false":
		return annotate.IgnoreMissingChildren(false), nil
	case "inc-true":
		return annotate.IgnoreInconsistency(true), nil
	case "inc-false":
		return annotate.IgnoreInconsistency(false), nil
	case "threshold-0":
		return annotate.Threshold(0), nil
	case "threshold-1h":
		return annotate.Threshold(time.Hour), nil
	case "filter-none":
		return annotate.ChildFilter(func(osm.FeatureID) bool { return false }), nil
	case "filter-all":
		return annotate.ChildFilter(func(osm.FeatureID) bool { return true }), nil
	}
	return nil, fmt.Errorf("unknown option %q", name)
}

func buildOpts(c *Case) ([]annotate.Option, error) {
	var opts []annotate.Option
	if len(c.Opts) > 0 {
		// what the list amounts to, folded here from the names alone
		eff := false
		for _, name := range c.Opts {
			o, err := optionFor(name)
			if err != nil {
				return nil, err
			}
			opts = append(opts, o)
			if strings.HasPrefix(name, "imc-") {
				eff = name == "imc-true"
			}
		}
		if eff != c.Ignore {
			return nil, fmt.Errorf("case says ignore=%v, its option list %v amounts to %v", c.Ignore, c.Opts, eff)
		}
		return opts, nil
	}
	if c.Ignore {
		opts = append(opts, annotate.IgnoreMissingChildren(true))
	} else if c.ExplicitOff {
		opts = append(opts, annotate.IgnoreMissingChildren(false))
	}
	return opts, nil
}

func buildChange(c *Case) *osm.Change {
	return &osm.Change{
		Create: buildBlock(c.Create, c.EmptyBlocks, c.ctElem()),
		Modify: buildBlock(c.Modify, c.EmptyBlocks, c.ctElem()),
		Delete: buildBlock(c.Delete, c.EmptyBlocks, c.ctElem()),
	}
}

func actsOf(diff *osm.Diff) []Act {
	var as []Act
	for _, a := range diff.Actions {
		as = append(as, Act{Type: string(a.Type),
			Single: containerES(a.OSM), Old: containerES(a.Old), New: containerES(a.New)})
	}
	return as
}

// invoke calls annotate.Change once and describes the outcome.
func invoke(change *osm.Change, ds osm.HistoryDatasourcer, opts []annotate.Option) (g Got, diff *osm.Diff) {
	defer func() {
		if p := recover(); p != nil {
			g.Panic = fmt.Sprint(p)
		}
	}()
	diff, err := annotate.Change(context.Background(), change, ds, opts...)
	g.Err = err
	if err != nil {
		return g, nil
	}
	if diff == nil {
		g.Nil = true
		return g, nil
	}
	if len(diff.Changesets) != 0 {
		g.Other = fmt.Sprintf("%d changesets", len(diff.Changesets))
	}
	g.Acts = actsOf(diff)
	return g, diff
}

// runReal runs the case; then is the outcome of c.Then (nil without one).
func runReal(c *Case) (g Got, then *Got, harness error) {
	ds, err := buildDS(c)
	if err != nil {
		return g, nil, err
	}
	opts, err := buildOpts(c)
	if err != nil {
		return g, nil, err
	}
	change := buildChange(c)
	before := kit.DeepCopy(change)
	g, diff := invoke(change, ds, opts)
	g.InputModified = !reflect.DeepEqual(before, change)
	// a diff of its own for the caller to write into: an element appended to every old / new
	// list of it (the lists are the caller's) must not reach the datasource or the next call
	if _, dx := invoke(change, ds, opts); dx != nil {
		// (and an action of the caller's own appended to the diff itself)
		extra := osm.Action{Type: osm.ActionCreate, OSM: &osm.OSM{Nodes: osm.Nodes{{ID: -8, Version: 1, Visible: true}}}}
		for i := range dx.Actions {
			for _, o := range []*osm.OSM{dx.Actions[i].Old, dx.Actions[i].New} {
				if o == nil {
					continue
				}
				if len(o.Nodes) > 0 {
					o.Nodes = append(o.Nodes, &osm.Node{ID: -9, Version: 99, Visible: true})
				}
				if len(o.Ways) > 0 {
					o.Ways = append(o.Ways, &osm.Way{ID: -9, Version: 99, Visible: true})
				}
				if len(o.Relations) > 0 {
					o.Relations = append(o.Relations, &osm.Relation{ID: -9, Version: 99, Visible: true})
				}
			}
		}
		dx.Actions = append(dx.Actions, extra)
		if !reflect.DeepEqual(before, change) {
			g.InputModified = true
		}
	}
	g2, _ := invoke(change, ds, opts)
	switch {
	case g2.Panic != g.Panic:
		g.Second = fmt.Sprintf("panic %q vs %q", g2.Panic, g.Panic)
	case (g2.Err == nil) != (g.Err == nil) || (g.Err != nil && g2.Err.Error() != g.Err.Error()):
		g.Second = fmt.Sprintf("error %v vs %v", g2.Err, g.Err)
	case g2.Nil != g.Nil || !reflect.DeepEqual(g2.Acts, g.Acts):
		g.Second = fmt.Sprintf("%d actions vs %d, or different ones", len(g2.Acts), len(g.Acts))
	}
	rolling := func() {
		// the datasource is the caller's: after every history in it was replaced by another one of
		// the same length (a rolling window: every version number one higher), the same call
		// gives what it gives on a datasource that was built with those histories
		if hd, ok := ds.(*osm.HistoryDatasource); ok && g.Panic == "" {
			shifted := *c
			shifted.Hist = nil
			for _, h := range c.Hist {
				h2 := h
				h2.Versions = make([]int, len(h.Versions))
				for i, v := range h.Versions {
					h2.Versions[i] = v + 1
				}
				shifted.Hist = append(shifted.Hist, h2)
			}
			d1, e1 := buildDS(&shifted)
			d2, e2 := buildDS(&shifted)
			if e1 == nil && e2 == nil {
				src := d1.(*osm.HistoryDatasource)
				for id, h := range src.Nodes {
					hd.Nodes[id] = h
				}
				for id, h := range src.Ways {
					hd.Ways[id] = h
				}
				for id, h := range src.Relations {
					hd.Relations[id] = h
				}
				ga, _ := invoke(change, hd, opts)
				gb, _ := invoke(change, d2, opts)
				if ga.Panic != gb.Panic || (ga.Err == nil) != (gb.Err == nil) || (ga.Err != nil && ga.Err.Error() != gb.Err.Error()) || ga.Nil != gb.Nil || !reflect.DeepEqual(ga.Acts, gb.Acts) {
					g.Second = fmt.Sprintf("after the histories in the datasource were replaced by others of the same length: %d actions err=%v, on a datasource built with those histories: %d actions err=%v", len(ga.Acts), ga.Err, len(gb.Acts), gb.Err)
				}
			}
		}
	}
	if c.Then == nil {
		rolling()
		return g, nil, nil
	}
	// a different change (fresh elements: nothing of it is shared with the first
	// change) against the same datasource object, the first diff still in hand
	topts, err := buildOpts(c.Then)
	if err != nil {
		return g, nil, err
	}
	t, _ := invoke(buildChange(c.Then), ds, topts)
	if diff != nil && t.Panic == "" {
		if now := actsOf(diff); !reflect.DeepEqual(now, g.Acts) {
			g.Retained = fmt.Sprintf("was %v, is %v after the next call", g.Acts, now)
		}
	}
	rolling()
	return g, &t, nil
}

// ---------------------------------------------------------------------------
// Comparison

func shapeOf(c *Case) string {
	if c.elems() == 1 {
		for a := 0; a < 3; a++ {
			for _, e := range c.block(a) {
				st := "absent"
				if h := c.hist(e.Kind, e.ID); h != nil {
					st = h.State
				}
				return fmt.Sprintf("%s-%s/hist-%s/ignore=%v", acts[a], kinds[e.Kind], st, c.Ignore)
			}
		}
	}
	return fmt.Sprintf("%s/ignore=%v", c.Family, c.Ignore)
}

func sortedStrings(as []Act) []string {
	s := make([]string, len(as))
	for i, a := range as {
		s[i] = a.String()
	}
	sort.Strings(s)
	return s
}

func equalStrings(a, b []string) bool {
	if len(a) != len(b) {
		return false
	}
	for i := range a {
		if a[i] != b[i] {
			return false
		}
	}
	return true
}

// diagnose names the first clause in which got differs from want.
func diagnose(want, got Act, group int) string {
	where := fmt.Sprintf("%s-%s", acts[group/3], kinds[group%3])
	if got.Single.Malformed != "" || got.Old.Malformed != "" || got.New.Malformed != "" {
		return "action-shape/" + where
	}
	if want.Type != got.Type {
		return fmt.Sprintf("action-type/%s/want-%s-got-%s", where, want.Type, got.Type)
	}
	if want.Single.Present != got.Single.Present || want.Old.Present != got.Old.Present || want.New.Present != got.New.Present {
		return "action-shape/" + where
	}
	if want.Old != got.Old {
		w, g := want.Old, got.Old
		switch {
		case g.Kind != w.Kind || g.ID != w.ID:
			return "old-other-element/" + where
		case g.Version > w.Version:
			return "old-version-too-high/" + where
		case g.Version < w.Version:
			return "old-version-not-greatest/" + where
		}
		return "old-value-changed/" + where
	}
	for _, p := range [2][2]ES{{want.Single, got.Single}, {want.New, got.New}} {
		w, g := p[0], p[1]
		if w == g {
			continue
		}
		vis := w.Visible
		w.Visible, g.Visible = false, false
		if w == g {
			return fmt.Sprintf("new-visible/%s/%s/want-%v", where, want.Type, vis)
		}
		return "new-value/" + where
	}
	return "action/" + where
}

func checkCase(r *kit.Run, c *Case) {
	nt := c.NonTrivial()
	r.Case(c.Fingerprint(), nt)
	if nt {
		// two samples per family, picked deterministically (fixed positions in the enumeration)
		if c.sampleWorthy() {
			r.Sample(c)
		}
	}
	classify(r, c)
	got, then, herr := runReal(c)
	if herr != nil {
		kit.Fatalf("cannot build case %s: %v", c.Fingerprint(), herr)
	}
	judge(r, c, c, got)
	if c.Then != nil {
		add(r, "sequence_second_change", 1)
		if got.Retained != "" {
			r.Violation("retained-diff-changed/"+shapeOf(c), "the diff of the first annotate.Change "+got.Retained+"; case "+c.Fingerprint(), c)
		}
		classify(r, c.Then)
		judge(r, c.Then, c, *then)
	}
}

// idRepresentable: an osm.FeatureID keeps 40 bits of the id; for ids outside
// [0, 2^40) the id inside a NoVisibleChildError cannot be the element's and is
// not judged (the error's type still is).
func idRepresentable(c *Case) bool {
	for a := 0; a < 3; a++ {
		for _, e := range c.block(a) {
			if e.ID < 0 || e.ID >= 1<<40 {
				return false
			}
		}
	}
	return true
}

// judge compares what one annotate.Change returned for c with the reference
// model; root is the case to replay (c itself, or the case c is the Then of).
func judge(r *kit.Run, c, root *Case, got Got) {
	want := model(c)
	shape := shapeOf(c)
	if got.Panic != "" {
		r.Violation("panic/"+shape, fmt.Sprintf("annotate.Change panicked: %s; case %s", got.Panic, root.Fingerprint()), root)
		return
	}

	// --- error outcomes
	if want.Failing || len(want.Missing) > 0 {
		add(r, "outcome_error_expected", 1)
		if got.Err == nil {
			clause := "missing-not-reported/"
			if want.Failing && len(want.Missing) == 0 {
				clause = "datasource-error-swallowed/"
			}
			r.Violation(clause+shape, fmt.Sprintf("no error returned (got %d actions %v); missing=%v failing=%v; case %s",
				len(got.Acts), got.Acts, want.Missing, want.Failing, root.Fingerprint()), root)
			return
		}
		if want.Failing && (errors.Is(got.Err, errBoom) || errors.Is(got.Err, error(errBoomNF))) {
			add(r, "outcome_error_passthrough", 1)
			return
		}
		var nv *annotate.NoVisibleChildError
		if len(want.Missing) > 0 && errors.As(got.Err, &nv) && nv != nil {
			for _, id := range want.Missing {
				if id == nv.ID {
					add(r, "outcome_error_no_visible_child", 1)
					return
				}
			}
			if !idRepresentable(c) {
				add(r, "outcome_error_id_not_judged", 1)
				return
			}
			r.Violation("missing-error-wrong-id/"+shape, fmt.Sprintf("NoVisibleChildError names %v, elements without predecessor are %v; case %s",
				nv.ID, want.Missing, root.Fingerprint()), root)
			return
		}
		clause := "missing-error-wrong-type/"
		if want.Failing && len(want.Missing) == 0 {
			clause = "datasource-error-not-passed-through/"
		}
		r.Violation(clause+shape, fmt.Sprintf("got error %T %q; missing=%v failing=%v; case %s",
			got.Err, got.Err.Error(), want.Missing, want.Failing, root.Fingerprint()), root)
		return
	}

	// --- success outcomes
	if got.Err != nil {
		r.Violation("unexpected-error/"+shape, fmt.Sprintf("got error %T %q, expected a diff; case %s", got.Err, got.Err.Error(), root.Fingerprint()), root)
		return
	}
	if got.Nil {
		r.Violation("nil-diff/"+shape, "nil diff and nil error; case "+root.Fingerprint(), root)
		return
	}
	// (annotate.Change sets Visible on the elements of the change it is given, by
	// design; the property does not promise an untouched input, so InputModified
	// is recorded and not judged)
	if got.Second != "" {
		r.Violation("second-call-differs/"+shape, "a second annotate.Change with the same change and datasource: "+got.Second+"; case "+root.Fingerprint(), root)
	}
	if got.Other != "" {
		r.Violation("diff-extra-content/"+shape, got.Other+"; case "+root.Fingerprint(), root)
		return
	}
	total := 0
	for _, g := range want.Groups {
		total += len(g)
	}
	if len(got.Acts) != total {
		r.Violation("action-count/"+shape, fmt.Sprintf("%d actions for %d changed elements: %v; case %s",
			len(got.Acts), total, got.Acts, root.Fingerprint()), root)
		return
	}
	pos := 0
	for gi, wg := range want.Groups {
		gg := got.Acts[pos : pos+len(wg)]
		pos += len(wg)
		same := true
		for i := range wg {
			if wg[i] != gg[i] {
				same = false
			}
		}
		if same {
			if len(wg) > 1 {
				add(r, "groups_in_input_order", 1)
			}
			continue
		}
		// the property fixes the order of blocks and of kinds, not the order
		// of elements of one kind inside one block: compare as a multiset
		if equalStrings(sortedStrings(wg), sortedStrings(gg)) {
			add(r, "groups_permuted_within_kind", 1)
			continue
		}
		// is the multiset of all actions right, i.e. is it only the order?
		all := []Act{}
		for _, g := range want.Groups {
			all = append(all, g...)
		}
		if equalStrings(sortedStrings(all), sortedStrings(got.Acts)) {
			r.Violation("action-order/"+shape, fmt.Sprintf("actions are not in create,modify,delete / node,way,relation order: got %v; case %s",
				got.Acts, root.Fingerprint()), root)
			return
		}
		for i := range wg {
			if wg[i] != gg[i] {
				r.Violation(diagnose(wg[i], gg[i], gi)+"/ignore="+fmt.Sprint(c.Ignore),
					fmt.Sprintf("action %d: got %v want %v; case %s", pos-len(wg)+i, gg[i], wg[i], root.Fingerprint()), root)
				return
			}
		}
	}
	for gi, wg := range want.Groups {
		for _, a := range wg {
			switch {
			case a.Type == "create" && gi >= 3:
				add(r, "outcome_create_fallback", 1)
			default:
				add(r, "outcome_"+a.Type, 1)
			}
		}
	}
}

// counters are registered once (kit.Run.Add takes the run's mutex on every call)
var ctr = map[string]*int64{}

var ctrNames = []string{"outcome_error_expected", "outcome_error_passthrough", "outcome_error_no_visible_child",
	"outcome_create", "outcome_modify", "outcome_delete", "outcome_create_fallback",
	"groups_in_input_order", "groups_permuted_within_kind",
	"hist_served_absent", "hist_served_present", "hist_served_fail", "hist_served_fail-nf",
	"sequence_second_change", "outcome_error_id_not_judged",
	"hist_unsorted", "hist_with_same_or_later_version", "hist_gap_before_element_version", "hist_present_without_smaller_version"}

func add(r *kit.Run, name string, n int64) {
	if p := ctr[name]; p != nil {
		atomic.AddInt64(p, n)
		return
	}
	r.Add(name, n)
}

// sampleWorthy picks a few fixed, illustrative points of each family.
func (c *Case) sampleWorthy() bool {
	switch c.Family {
	case "single":
		if len(c.Hist) != 1 || c.DS != "osm" || c.ExplicitOff {
			return false
		}
		v := c.Hist[0].Versions
		if len(v) == 4 && v[0] == 5 && v[1] == 1 && v[2] == 4 && v[3] == 2 {
			return (len(c.Modify) == 1 && c.Modify[0].Kind == 1 && c.Modify[0].Version == 4 && !c.Modify[0].Visible && !c.Ignore) ||
				(len(c.Delete) == 1 && c.Delete[0].Kind == 2 && c.Delete[0].Version == 1 && c.Delete[0].Visible && c.Ignore)
		}
	case "multi-order":
		return c.DS == "custom" && !c.EmptyBlocks && len(c.Create) == 3 && len(c.Modify) == 4 && len(c.Delete) == 2 &&
			c.Create[0].Kind == 1 && c.Create[1].Kind == 1 && c.Create[2].Kind == 2 &&
			c.Modify[0].Kind == 0 && c.Modify[1].Kind == 0 && c.Modify[2].Kind == 1 && c.Modify[3].Kind == 2 &&
			c.Delete[0].Kind == 1 && c.Delete[1].Kind == 1
	case "multi-status":
		if c.DS != "custom" || len(c.Create) != 1 || len(c.Modify) != 2 || len(c.Delete) != 1 || len(c.Hist) != 3 {
			return false
		}
		return c.Create[0].Kind == 0 && c.Modify[0].Kind == 1 && c.Delete[0].Kind == 0 &&
			c.Hist[0].State == "present" && len(c.Hist[0].Versions) == 4 && c.Hist[1].State == "absent" && c.Hist[2].State == "present" && len(c.Hist[2].Versions) == 2
	case "wide-version":
		v := c.Hist[0].Versions
		return c.DS == "osm" && !c.Ignore && len(c.Modify) == 1 && c.Modify[0].Kind == 1 && c.Modify[0].Version == 1<<32 &&
			len(v) == 3 && v[0] == 1<<32+1 && v[1] == 1 && v[2] == 1<<32-1
	case "wide-id":
		return c.DS == "osm" && c.Ignore && len(c.Delete) == 2 && c.Delete[0].Kind == 0 && c.Delete[1].ID == 7+1<<40 &&
			len(c.Hist[0].Versions) == 4 && c.Hist[1].State == "absent"
	case "content":
		v := c.Hist[0].Versions
		return !c.Ignore && len(c.Delete) == 1 && c.Delete[0].Kind == 2 && c.Delete[0].Version == 3 &&
			len(v) == 3 && v[0] == 4 && v[1] == 0 && v[2] == 2
	case "options":
		return c.DS == "custom" && len(c.Opts) == 5 && len(c.Modify) == 1 && c.Modify[0].Kind == 0 && c.Hist[0].State == "absent"
	case "sequence":
		return c.DS == "custom" && len(c.Modify) == 2 && len(c.Delete) == 1 && c.Then != nil && len(c.Then.Delete) == 2 && c.Then.Ignore
	}
	return false
}

// classify counts which history shapes the quantifier names were served to a
// modified/deleted element.
func classify(r *kit.Run, c *Case) {
	for a := 1; a <= 2; a++ {
		for _, e := range c.block(a) {
			h := c.hist(e.Kind, e.ID)
			if h == nil || h.State != "present" {
				add(r, "hist_served_"+func() string {
					if h == nil {
						return "absent"
					}
					return h.State
				}(), 1)
				continue
			}
			unsorted, later, gap := false, false, false
			_, hasPrev := predecessor(h.Versions, e.Version)
			for i, u := range h.Versions {
				if i > 0 && h.Versions[i-1] > u {
					unsorted = true
				}
				if u >= e.Version {
					later = true
				}
			}
			if p, ok := predecessor(h.Versions, e.Version); ok && p < e.Version-1 {
				gap = true
			}
			add(r, "hist_served_present", 1)
			if unsorted {
				add(r, "hist_unsorted", 1)
			}
			if later {
				add(r, "hist_with_same_or_later_version", 1)
			}
			if gap {
				add(r, "hist_gap_before_element_version", 1)
			}
			if !hasPrev {
				add(r, "hist_present_without_smaller_version", 1)
			}
		}
	}
}

// ---------------------------------------------------------------------------
// Enumeration

// orderedSubsets returns every sequence of distinct values from alphabet with
// length <= maxLen (every subset in every order), shortest first.
func orderedSubsets(alphabet []int, maxLen int) [][]int {
	out := [][]int{{}}
	var rec func(cur []int, used []bool)
	rec = func(cur []int, used []bool) {
		if len(cur) == maxLen {
			return
		}
		for i, a := range alphabet {
			if used[i] {
				continue
			}
			used[i] = true
			next := append(append([]int{}, cur...), a)
			out = append(out, next)
			rec(next, used)
			used[i] = false
		}
	}
	rec(nil, make([]bool, len(alphabet)))
	return out
}

type unit func(emit func(*Case))

type optVariant struct{ ignore, explicitOff bool }

var optVariants = []optVariant{{false, false}, {false, true}, {true, false}}

// family "single": one element; kind x action slot x version x input Visible x
// history x option x datasource.
func singleUnits(histAlphabet []int, maxLen int, elemVersions []int) ([]unit, int) {
	seqs := orderedSubsets(histAlphabet, maxLen)
	type hs struct {
		state string
		vs    []int
	}
	var hists []hs
	hists = append(hists, hs{"absent", nil}, hs{"fail", nil}, hs{"fail-nf", nil})
	for _, s := range seqs {
		hists = append(hists, hs{"present", s})
	}
	var units []unit
	for _, h := range hists {
		h := h
		units = append(units, func(emit func(*Case)) {
			for _, dsName := range []string{"osm", "custom"} {
				if dsName == "osm" && strings.HasPrefix(h.state, "fail") {
					continue
				}
				for kind := 0; kind < 3; kind++ {
					for a := 0; a < 3; a++ {
						for _, v := range elemVersions {
							for _, vis := range []bool{false, true} {
								for _, ov := range optVariants {
									c := &Case{Family: "single", DS: dsName, Ignore: ov.ignore, ExplicitOff: ov.explicitOff}
									e := Elem{Kind: kind, ID: 7, Version: v, Visible: vis, Mark: 2000 + v}
									switch a {
									case 0:
										c.Create = []Elem{e}
									case 1:
										c.Modify = []Elem{e}
									default:
										c.Delete = []Elem{e}
									}
									c.Hist = []Hist{{Kind: kind, ID: 7, State: h.state, Versions: h.vs}}
									emit(c)
								}
							}
						}
					}
				}
			}
		})
	}
	return units, len(hists)
}

// family "multi-order": every vector of 0..maxPerSlot elements for each of the nine
// (action, kind) slots; ids are shared across the action blocks (the same
// element is created, modified and deleted in one change), every history is
// unsorted, has a gap and contains later versions.
func multiOrderUnits(maxPerSlot int) []unit {
	var units []unit
	base := maxPerSlot + 1
	nvec := 1
	for i := 0; i < 9; i++ {
		nvec *= base
	}
	for vec := 0; vec < nvec; vec++ {
		vec := vec
		units = append(units, func(emit func(*Case)) {
			var counts [9]int
			x := vec
			for i := 0; i < 9; i++ {
				counts[i] = x % base
				x /= base
			}
			if vec == 0 {
				// the empty change: nil and empty blocks
				for _, eb := range []bool{false, true} {
					for _, ds := range []string{"osm", "custom"} {
						emit(&Case{Family: "multi-order", DS: ds, EmptyBlocks: eb})
					}
				}
				return
			}
			for _, dsName := range []string{"osm", "custom", "list-split", "list-rr"} {
				for _, ign := range []bool{false, true} {
					for _, eb := range []bool{false, true} {
						if dsName[0] == 'l' && eb {
							continue
						}
						c := &Case{Family: "multi-order", DS: dsName, Ignore: ign, EmptyBlocks: eb}
						for slot := 0; slot < 9; slot++ {
							a, kind := slot/3, slot%3
							for j := 0; j < counts[slot]; j++ {
								// create v1, modify v4, delete v6 of the same ids
								v := []int{1, 4, 6}[a]
								e := Elem{Kind: kind, ID: int64(10 + j), Version: v, Visible: a == 2, Mark: 2000 + slot*10 + j}
								switch a {
								case 0:
									c.Create = append(c.Create, e)
								case 1:
									c.Modify = append(c.Modify, e)
								default:
									c.Delete = append(c.Delete, e)
								}
							}
						}
						for kind := 0; kind < 3; kind++ {
							// the second id's history in another order
							c.Hist = append(c.Hist,
								Hist{Kind: kind, ID: 10, State: "present", Versions: []int{7, 2, 5, 1, 4}},
								Hist{Kind: kind, ID: 11, State: "present", Versions: []int{4, 5, 7, 1, 2}})
							if maxPerSlot > 2 {
								c.Hist = append(c.Hist, Hist{Kind: kind, ID: 12, State: "present", Versions: []int{5, 4, 2, 7, 1}})
							}
						}
						emit(c)
					}
				}
			}
		})
	}
	return units
}

// family "same-id": one element id occurs twice, with different versions, inside
// ONE action block (merged replication diffs look like this). Every version of
// it is a changed element of its own: one action each, each paired with its own
// predecessor.
func sameIDUnits() []unit {
	var units []unit
	// {1,4} / {4,1}: version 1 has no predecessor in the history below - one of the two
	// occurrences is an error (or, ignoring, a create), the other a plain modify/delete
	pairs := [][2]int{{2, 4}, {4, 2}, {4, 5}, {5, 4}, {3, 7}, {7, 3}, {1, 4}, {4, 1}}
	for kind := 0; kind < 3; kind++ {
		for a := 1; a <= 2; a++ {
			for _, p := range pairs {
				kind, a, p := kind, a, p
				units = append(units, func(emit func(*Case)) {
					for _, dsName := range []string{"osm", "custom", "list-split", "list-rr"} {
						for _, ign := range []bool{false, true} {
							for _, third := range []bool{false, true} {
								c := &Case{Family: "same-id", DS: dsName, Ignore: ign}
								es := []Elem{{Kind: kind, ID: 10, Version: p[0], Visible: a == 2, Mark: 3001},
									{Kind: kind, ID: 10, Version: p[1], Visible: a == 2, Mark: 3002}}
								if third {
									// another id between the two, and the same id once more in the other block
									es = []Elem{es[0], {Kind: kind, ID: 11, Version: 4, Visible: a == 2, Mark: 3003}, es[1]}
								}
								other := Elem{Kind: kind, ID: 10, Version: 6, Visible: a == 1, Mark: 3004}
								if a == 1 {
									c.Modify = es
									if third {
										c.Delete = []Elem{other}
									}
								} else {
									c.Delete = es
									if third {
										c.Modify = []Elem{other}
									}
								}
								c.Hist = append(c.Hist,
									Hist{Kind: kind, ID: 10, State: "present", Versions: []int{7, 2, 5, 1, 4, 3}},
									Hist{Kind: kind, ID: 11, State: "present", Versions: []int{4, 5, 7, 1, 2}})
								emit(c)
							}
						}
					}
				})
			}
		}
	}
	return units
}

// family "multi-status": every subset of the nine slots with one element each;
// every modified/deleted element independently has a predecessor, no history,
// a history without smaller version, or (own datasource) a failing history.
func multiStatusUnits() []unit {
	var units []unit
	for sub := 1; sub < 512; sub++ {
		sub := sub
		units = append(units, func(emit func(*Case)) {
			var upd []int
			for slot := 3; slot < 9; slot++ {
				if sub&(1<<slot) != 0 {
					upd = append(upd, slot)
				}
			}
			for _, dsName := range []string{"osm", "custom"} {
				statuses := []string{"prev", "absent", "nosmaller"}
				if dsName == "custom" {
					statuses = append(statuses, "fail")
				}
				n := 1
				for range upd {
					n *= len(statuses)
				}
				for combo := 0; combo < n; combo++ {
					for _, ign := range []bool{false, true} {
						c := &Case{Family: "multi-status", DS: dsName, Ignore: ign}
						x := combo
						for slot := 0; slot < 9; slot++ {
							if sub&(1<<slot) == 0 {
								continue
							}
							a, kind := slot/3, slot%3
							// distinct ids per slot: statuses are independent
							id := int64(20 + slot)
							e := Elem{Kind: kind, ID: id, Version: 3, Visible: a == 2, Mark: 2000 + slot}
							switch a {
							case 0:
								c.Create = append(c.Create, e)
								continue
							case 1:
								c.Modify = append(c.Modify, e)
							default:
								c.Delete = append(c.Delete, e)
							}
							st := statuses[x%len(statuses)]
							x /= len(statuses)
							switch st {
							case "prev":
								c.Hist = append(c.Hist, Hist{Kind: kind, ID: id, State: "present", Versions: []int{5, 1, 3, 2}})
							case "absent":
								c.Hist = append(c.Hist, Hist{Kind: kind, ID: id, State: "absent"})
							case "nosmaller":
								c.Hist = append(c.Hist, Hist{Kind: kind, ID: id, State: "present", Versions: []int{4, 3}})
							case "fail":
								c.Hist = append(c.Hist, Hist{Kind: kind, ID: id, State: "fail"})
							}
						}
						emit(c)
					}
				}
			}
		})
	}
	return units
}

// ---------------------------------------------------------------------------
// Boundary families: values and situations outside the small alphabets above.

func setBlock(c *Case, a int, es ...Elem) {
	switch a {
	case 0:
		c.Create = append(c.Create, es...)
	case 1:
		c.Modify = append(c.Modify, es...)
	default:
		c.Delete = append(c.Delete, es...)
	}
}

const maxInt = int(^uint(0) >> 1)

// family "wide-version": version numbers around the widths at which an integer
// encoding changes. For every edge b: history = every ordered subset (size bound)
// of {1, b-1, b, b+1}, element version from the same values.
func wideVersionUnits(quick bool) []unit {
	edges := []int{128, 256, 32768, 65536, 1 << 31, 1 << 32, 1 << 53, maxInt}
	maxLen := 3
	if !quick {
		edges = append(edges, 2, 1<<16+1, 1<<24, 1<<40, 1<<62)
		maxLen = 4
	}
	var units []unit
	for _, b := range edges {
		local := []int{1, b - 1, b}
		if b < maxInt {
			local = append(local, b+1)
		}
		ev := append([]int{}, local...)
		if !quick && b < maxInt-1 {
			ev = append(ev, b+2)
		}
		for _, h := range orderedSubsets(local, maxLen) {
			h := h
			units = append(units, func(emit func(*Case)) {
				for _, dsName := range []string{"osm", "custom"} {
					for kind := 0; kind < 3; kind++ {
						for a := 0; a < 3; a++ {
							if a == 0 && len(h) != len(local) && len(h) != 0 {
								continue // a created element never looks at the history: two histories are enough
							}
							for _, v := range ev {
								for _, ign := range []bool{false, true} {
									c := &Case{Family: "wide-version", DS: dsName, Ignore: ign}
									setBlock(c, a, Elem{Kind: kind, ID: 7, Version: v, Visible: a == 2, Mark: 5000 + a})
									c.Hist = []Hist{{Kind: kind, ID: 7, State: "present", Versions: h}}
									emit(c)
								}
							}
						}
					}
				}
			})
		}
	}
	return units
}

// family "wide-id": element ids at 0, negative (editor placeholders), around 2^31,
// 2^32, the 40 ref bits of osm.FeatureID, 2^53, the ends of int64 - alone, and two
// elements of one block whose ids agree in the low 32 / low 40 bits, each with a
// history of its own (taking one id for the other gives another predecessor or none).
func wideIDUnits() []unit {
	ids := []int64{0, 1, -1, -7, 1<<31 - 1, 1 << 31, 1 << 32, 1<<32 + 7, 1<<40 - 1, 1 << 40, 1<<40 + 7, 1 << 47, 1<<53 + 1, 1<<63 - 1, -1 << 63}
	pairs := [][2]int64{{7, 7 + 1<<32}, {7, 7 + 1<<40}, {0, 1 << 40}, {1, -1}, {7, 7 - 1<<63}, {1<<40 - 1, -1}, {5, 5 + 1<<56}}
	statuses := []string{"prev", "absent", "nosmaller", "empty"}
	histFor := func(kind int, id int64, st string, alt bool) Hist {
		switch st {
		case "prev":
			if alt {
				return Hist{Kind: kind, ID: id, State: "present", Versions: []int{6, 4, 1}} // predecessor of 3 is 1
			}
			return Hist{Kind: kind, ID: id, State: "present", Versions: []int{5, 1, 3, 2}} // predecessor of 3 is 2
		case "nosmaller":
			return Hist{Kind: kind, ID: id, State: "present", Versions: []int{4, 3}}
		case "empty":
			return Hist{Kind: kind, ID: id, State: "present"}
		}
		return Hist{Kind: kind, ID: id, State: "absent"}
	}
	var units []unit
	for _, id := range ids {
		id := id
		units = append(units, func(emit func(*Case)) {
			for _, dsName := range []string{"osm", "custom"} {
				for kind := 0; kind < 3; kind++ {
					for a := 0; a < 3; a++ {
						for _, st := range statuses {
							for _, ign := range []bool{false, true} {
								c := &Case{Family: "wide-id", DS: dsName, Ignore: ign}
								setBlock(c, a, Elem{Kind: kind, ID: id, Version: 3, Visible: a == 2, Mark: 5100 + a})
								c.Hist = []Hist{histFor(kind, id, st, false)}
								// the same number as an id of the other two kinds has another history
								c.Hist = append(c.Hist, histFor((kind+1)%3, id, "nosmaller", false), histFor((kind+2)%3, id, "prev", true))
								emit(c)
							}
						}
					}
				}
			}
		})
	}
	for _, p := range pairs {
		p := p
		units = append(units, func(emit func(*Case)) {
			for _, dsName := range []string{"osm", "custom"} {
				for kind := 0; kind < 3; kind++ {
					for a := 1; a <= 2; a++ {
						for _, st0 := range statuses {
							for _, st1 := range statuses {
								for _, ign := range []bool{false, true} {
									c := &Case{Family: "wide-id", DS: dsName, Ignore: ign}
									setBlock(c, a, Elem{Kind: kind, ID: p[0], Version: 3, Visible: a == 2, Mark: 5200},
										Elem{Kind: kind, ID: p[1], Version: 3, Visible: a == 2, Mark: 5201})
									c.Hist = []Hist{histFor(kind, p[0], st0, false), histFor(kind, p[1], st1, true)}
									emit(c)
								}
							}
						}
					}
				}
			}
		})
	}
	return units
}

// family "content": what the elements carry. "times": timestamps and Committed
// that run against the version order and sit on the boundary classes of time;
// "bare": elements of the change and invisible history versions without tags,
// nodes, members, user, position. One element; small version alphabet.
func contentUnits(quick bool) []unit {
	alphabet, maxLen, elemVersions := []int{0, 1, 2, 3, 4, 5}, 3, []int{0, 1, 2, 3, 4, 5}
	if !quick {
		alphabet, maxLen, elemVersions = []int{0, 1, 2, 3, 4, 5, 6, 7}, 4, []int{0, 1, 2, 3, 4, 5, 6, 7, 8}
	}
	type hs struct {
		state string
		vs    []int
	}
	hists := []hs{{"absent", nil}}
	for _, s := range orderedSubsets(alphabet, maxLen) {
		hists = append(hists, hs{"present", s})
	}
	var units []unit
	for hi, h := range hists {
		hi, h := hi, h
		units = append(units, func(emit func(*Case)) {
			for _, content := range []string{"times", "bare"} {
				for kind := 0; kind < 3; kind++ {
					for a := 0; a < 3; a++ {
						if a == 0 && hi > 1 {
							continue
						}
						for _, v := range elemVersions {
							for _, ign := range []bool{false, true} {
								c := &Case{Family: "content", DS: []string{"osm", "custom"}[(hi+v)%2], Ignore: ign, Content: content}
								setBlock(c, a, Elem{Kind: kind, ID: 7, Version: v, Visible: a == 2, Mark: 5300 + v})
								c.Hist = []Hist{{Kind: kind, ID: 7, State: h.state, Versions: h.vs}}
								emit(c)
							}
						}
					}
				}
			}
		})
	}
	return units
}

// family "options": option lists nobody passes - IgnoreMissingChildren given
// twice (the last one counts), and next to the options of the other annotate
// functions, which have no say here.
func optionUnits() []unit {
	lists := []struct {
		opts []string
		eff  bool
	}{
		{[]string{"imc-true", "imc-false"}, false},
		{[]string{"imc-false", "imc-true"}, true},
		{[]string{"imc-true", "imc-true"}, true},
		{[]string{"imc-false", "imc-false"}, false},
		{[]string{"inc-true"}, false},
		{[]string{"inc-false"}, false},
		{[]string{"inc-true", "imc-true"}, true},
		{[]string{"imc-true", "inc-true"}, true},
		{[]string{"imc-true", "inc-false"}, true},
		{[]string{"imc-false", "inc-true"}, false},
		{[]string{"threshold-0"}, false},
		{[]string{"threshold-1h", "imc-true"}, true},
		{[]string{"filter-none"}, false},
		{[]string{"filter-all"}, false},
		{[]string{"filter-none", "imc-true"}, true},
		{[]string{"inc-true", "threshold-0", "filter-all"}, false},
		{[]string{"inc-true", "threshold-1h", "filter-none", "imc-true"}, true},
		{[]string{"imc-true", "inc-true", "threshold-0", "filter-all", "imc-false"}, false},
	}
	statuses := []string{"prev", "absent", "nosmaller", "empty", "fail"}
	var units []unit
	for _, l := range lists {
		l := l
		units = append(units, func(emit func(*Case)) {
			for _, dsName := range []string{"osm", "custom"} {
				for kind := 0; kind < 3; kind++ {
					for a := 0; a < 3; a++ {
						for _, st := range statuses {
							if st == "fail" && dsName == "osm" {
								continue
							}
							c := &Case{Family: "options", DS: dsName, Ignore: l.eff, Opts: l.opts}
							setBlock(c, a, Elem{Kind: kind, ID: 7, Version: 3, Visible: a == 2, Mark: 5400 + a})
							switch st {
							case "prev":
								c.Hist = []Hist{{Kind: kind, ID: 7, State: "present", Versions: []int{5, 1, 3, 2}}}
							case "nosmaller":
								c.Hist = []Hist{{Kind: kind, ID: 7, State: "present", Versions: []int{4, 3}}}
							case "empty":
								c.Hist = []Hist{{Kind: kind, ID: 7, State: "present"}}
							case "fail":
								c.Hist = []Hist{{Kind: kind, ID: 7, State: "fail"}}
							default:
								c.Hist = []Hist{{Kind: kind, ID: 7, State: "absent"}}
							}
							// a second element with a predecessor, after the first
							setBlock(c, 2, Elem{Kind: (kind + 1) % 3, ID: 8, Version: 6, Visible: true, Mark: 5410})
							c.Hist = append(c.Hist, Hist{Kind: (kind + 1) % 3, ID: 8, State: "present", Versions: []int{7, 2, 5, 1, 4}})
							emit(c)
						}
					}
				}
			}
		})
	}
	return units
}

// family "long": histories of n versions (1..n, or every third number) in
// ascending, descending and scattered order, element version at both ends, in the
// middle and beyond; and changes with many elements per (block, kind) slot.
func longUnits(quick bool) []unit {
	lengths := []int{64, 300}
	perSlot := []int{40}
	if !quick {
		lengths = []int{64, 257, 1000, 5000}
		perSlot = []int{40, 1000}
	}
	var units []unit
	for _, n := range lengths {
		for step := 1; step <= 3; step += 2 {
			for order := 0; order < 3; order++ {
				n, step, order := n, step, order
				units = append(units, func(emit func(*Case)) {
					vs := make([]int, n)
					for i := range vs {
						j := i
						switch order {
						case 1:
							j = n - 1 - i
						case 2:
							j = (i*7 + 3) % n // n is never a multiple of 7: a permutation
						}
						vs[i] = 1 + j*step
					}
					top := 1 + (n-1)*step
					for _, v := range []int{0, 1, 2, 3, top / 2, top - 1, top, top + 1, top + 50} {
						for kind := 0; kind < 3; kind++ {
							for a := 1; a <= 2; a++ {
								for _, ign := range []bool{false, true} {
									c := &Case{Family: "long", DS: []string{"osm", "custom"}[(kind+a)%2], Ignore: ign}
									setBlock(c, a, Elem{Kind: kind, ID: 7, Version: v, Visible: a == 2, Mark: 5500})
									c.Hist = []Hist{{Kind: kind, ID: 7, State: "present", Versions: vs}}
									emit(c)
								}
							}
						}
					}
				})
			}
		}
	}
	for _, m := range perSlot {
		m := m
		units = append(units, func(emit func(*Case)) {
			rot := [][]int{{7, 2, 5, 1, 4}, {4, 5, 7, 1, 2}, {5, 4, 2, 7, 1}, {1, 2, 4, 5, 7}}
			for _, dsName := range []string{"osm", "custom"} {
				for _, ign := range []bool{false, true} {
					for _, missing := range []bool{false, true} {
						c := &Case{Family: "long", DS: dsName, Ignore: ign}
						for slot := 0; slot < 9; slot++ {
							a, kind := slot/3, slot%3
							for j := 0; j < m; j++ {
								// ids shared between blocks and kinds, as in multi-order
								setBlock(c, a, Elem{Kind: kind, ID: int64(1000 + j), Version: []int{1, 4, 6}[a], Visible: a == 2, Mark: 10000 + slot*m + j})
							}
						}
						for kind := 0; kind < 3; kind++ {
							for j := 0; j < m; j++ {
								if missing && kind == 1 && j == m-1 {
									continue // the last way has no history
								}
								c.Hist = append(c.Hist, Hist{Kind: kind, ID: int64(1000 + j), State: "present", Versions: rot[(j+kind)%len(rot)]})
							}
						}
						emit(c)
					}
				}
			}
		})
	}
	return units
}

// family "sequence": every ordered pair (first, then) of a pool of changes run
// back to back against ONE datasource object: `then` sees whatever the first call
// left behind (after an error, after a fallback create, after the same ids), and
// the first call's diff must still be what it was once `then` has run.
func sequenceUnits() []unit {
	type pc struct {
		ign    bool
		custom bool // needs the own datasource
		build  func(c *Case)
	}
	el := func(kind int, id int64, v int, a int, mark int) Elem {
		return Elem{Kind: kind, ID: id, Version: v, Visible: a == 2, Mark: mark}
	}
	pool := []pc{
		{false, false, func(c *Case) { setBlock(c, 0, el(0, 30, 1, 0, 1)) }},
		{false, false, func(c *Case) { setBlock(c, 1, el(1, 30, 4, 1, 2)) }},
		{true, false, func(c *Case) { setBlock(c, 2, el(2, 30, 6, 2, 3), el(0, 30, 3, 2, 4)) }},
		{false, false, func(c *Case) { setBlock(c, 1, el(0, 31, 3, 1, 5)) }},                                    // no history: error
		{true, false, func(c *Case) { setBlock(c, 1, el(0, 31, 3, 1, 6)) }},                                     // no history: create
		{true, false, func(c *Case) { setBlock(c, 1, el(1, 32, 3, 1, 7)); setBlock(c, 2, el(0, 30, 4, 2, 8)) }}, // no smaller version: create
		{false, true, func(c *Case) { setBlock(c, 2, el(0, 33, 3, 2, 9)) }},                                     // failing history
		{false, false, func(c *Case) {
			setBlock(c, 0, el(1, 30, 1, 0, 10))
			setBlock(c, 1, el(0, 30, 4, 1, 11), el(2, 30, 2, 1, 12))
			setBlock(c, 2, el(1, 30, 6, 2, 13))
		}},
		{false, false, func(c *Case) {}}, // the empty change
		{false, false, func(c *Case) { setBlock(c, 1, el(0, 30, 5, 1, 14), el(0, 30, 2, 1, 15)) }},
		{false, false, func(c *Case) { setBlock(c, 2, el(0, 30, 4, 2, 16), el(1, 30, 4, 2, 17), el(2, 30, 4, 2, 18)) }},
	}
	mk := func(p pc, dsName string, fam string, markBase int) *Case {
		c := &Case{Family: fam, DS: dsName, Ignore: p.ign}
		p.build(c)
		for a := 0; a < 3; a++ {
			es := c.block(a)
			for i := range es {
				es[i].Mark += markBase
			}
		}
		for kind := 0; kind < 3; kind++ {
			c.Hist = append(c.Hist,
				Hist{Kind: kind, ID: 30, State: "present", Versions: []int{7, 2, 5, 1, 4}},
				Hist{Kind: kind, ID: 31, State: "absent"},
				Hist{Kind: kind, ID: 32, State: "present", Versions: []int{4, 3}})
			if dsName == "custom" {
				c.Hist = append(c.Hist, Hist{Kind: kind, ID: 33, State: "fail"})
			}
		}
		return c
	}
	var units []unit
	for i := range pool {
		i := i
		units = append(units, func(emit func(*Case)) {
			for _, dsName := range []string{"osm", "custom"} {
				for j := range pool {
					if dsName == "osm" && (pool[i].custom || pool[j].custom) {
						continue
					}
					c := mk(pool[i], dsName, "sequence", 6000)
					c.Then = mk(pool[j], dsName, "sequence-then", 6100)
					emit(c)
				}
			}
		})
	}
	return units
}

func main() {
	kit.Main("C13", "exploration", func(r *kit.Run) {
		r.Rule("family single: one changed element; kind{node,way,relation} x block{create,modify,delete} x element version x input Visible{false,true} x " +
			"history{absent, failing(2 error types, own datasource only), every subset of the version alphabet up to the size bound in EVERY order} x " +
			"option{none, IgnoreMissingChildren(false), IgnoreMissingChildren(true)} x datasource{osm.HistoryDatasource, own HistoryDatasourcer with typed NotFound() errors}. " +
			"quick: versions {0..5}, size<=4, element version 0..4; thorough: versions {0..6}, every size, element version 0..7. " +
			"family multi-order: all vectors of 0..2 (thorough 0..3) elements per (block,kind) slot x ignore x nil/empty blocks x datasource, ids shared between blocks, unsorted gapped histories. " +
			"family multi-status: every non-empty subset of the 9 slots, each modified/deleted element independently {has predecessor, no history, no smaller version, failing history} x ignore x datasource. " +
			"History elements carry the version in changeset id, user, tags, geometry/members and Visible (odd versions visible) so the picked version is observable. " +
			"family same-id: one id twice (different versions) in one modify/delete block. " +
			"BOUNDARY families - wide-version: for every edge b in {128,256,2^15,2^16,2^31,2^32,2^53,MaxInt} (thorough: + 2, 2^16+1, 2^24, 2^40, 2^62) history = every ordered subset (size<=3, thorough <=4) of {1,b-1,b,b+1}, element version from the same values (thorough + b+2) x kind x block x ignore x datasource. " +
			"wide-id: element id in {0,1,-1,-7,2^31-1,2^31,2^32,2^32+7,2^40-1,2^40,2^40+7,2^47,2^53+1,MaxInt64,MinInt64} x kind x block x history{predecessor,absent,no smaller,empty} x ignore x datasource, the same number carrying another history as an id of the other kinds; " +
			"pairs of ids in one block that agree in the low 32 / low 40 bits (the ref bits of osm.FeatureID) or differ in sign, each with its own history status (16 combinations). " +
			"content: elements with Timestamp/Committed/Updates set, the times running AGAINST the version order through {year 2300, sub-second in +05:00, CommitInfoStart+-1s, 2005, unix 0, unix -1, zero time}, and bare elements (id, version, changeset only: no tags, nodes, members, user, position) x kind x block x element version 0..5 x history{absent, every ordered subset of 0..5 of size<=3} x ignore (thorough: 0..7/0..8, size<=4). " +
			"options: 18 option lists (IgnoreMissingChildren twice in both orders, next to IgnoreInconsistency/Threshold/ChildFilter, those alone) x kind x block x history{predecessor,absent,no smaller,empty,failing} x datasource. " +
			"long: histories of 64 and 300 versions (thorough 64,257,1000,5000), dense and every third number, ascending/descending/scattered x element version {0,1,2,3,middle,top-1,top,top+1,top+50}; changes with 40 (thorough also 1000) elements in each of the 9 slots, with and without one missing history. " +
			"sequence: all ordered pairs of 11 changes (creates, predecessors, error, fallback creates, failing history, empty change, same id twice) annotated back to back against ONE datasource object; the first diff is read again after the second call. " +
			"A case is non-trivial when it has >=2 elements or a modified/deleted element whose served history has >=2 versions; fingerprint = the full case description.")
		r.Assume("Go runtime, reflect-free comparison code in this file; the reference model predecessor() sorts a copy of the history's version numbers in descending order and takes the first one below v (independent of the running-maximum list scan in /repo)")
		r.Assume("Element values are compared on id, version, visible, changeset, user, uid, timestamp (instant and zone), committed, position, tags, way nodes, members (type, ref, role, version, changeset), updates; the expected value comes from this file's own builders, never from the library")
		r.Assume("Options other than IgnoreMissingChildren have no say in annotate.Change (the property names only the ignore-missing option); of several IgnoreMissingChildren the last one counts (each option is a setter applied in order)")
		r.Assume("For element ids outside [0, 2^40) an osm.FeatureID cannot hold the id: the id inside NoVisibleChildError is not judged there (counted in outcome_error_id_not_judged), its type is")
		r.Assume("Not judged because the property text does not decide them: a cancelled or expiring context, options that return an error, blocks carrying changesets/notes/users/bounds, nil elements or a nil change, a datasource answering a list together with an error")
		r.Assume("Histories contain each version at most once (with duplicates 'the history version with the greatest number below' is ambiguous) and no negative versions")
		r.Assume("Order of elements of the same kind inside one block is not fixed by the property: compared as a multiset (counted in groups_permuted_within_kind); " +
			"when several elements lack a predecessor the NoVisibleChildError may name any of them; when missing and failing histories coexist either error is accepted")

		for _, n := range ctrNames {
			ctr[n] = r.Counter(n)
		}
		if r.ReplayPath != "" {
			var c Case
			r.LoadReplay(&c)
			checkCase(r, &c)
			return
		}

		var alphabet, elemVersions []int
		maxLen := 4
		if r.Quick() {
			alphabet = []int{0, 1, 2, 3, 4, 5}
			elemVersions = []int{0, 1, 2, 3, 4}
		} else {
			alphabet = []int{0, 1, 2, 3, 4, 5, 6}
			elemVersions = []int{0, 1, 2, 3, 4, 5, 6, 7}
			maxLen = 7
		}
		single, nh := singleUnits(alphabet, maxLen, elemVersions)
		r.Set("single_histories", nh)
		families := []struct {
			name  string
			units []unit
		}{{"single", single}, {"multi-order", multiOrderUnits(r.Pick(2, 3))}, {"multi-status", multiStatusUnits()}, {"same-id", sameIDUnits()},
			{"wide-version", wideVersionUnits(r.Quick())}, {"wide-id", wideIDUnits()}, {"content", contentUnits(r.Quick())},
			{"options", optionUnits()}, {"long", longUnits(r.Quick())}, {"sequence", sequenceUnits()}}
		for _, f := range families {
			f := f
			before := r.Evals()
			r.Par(len(f.units), func(i int) {
				f.units[i](func(c *Case) { checkCase(r, c) })
			})
			r.Set("cases_"+f.name, r.Evals()-before)
		}
	})
}
