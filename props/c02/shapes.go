//go:build verif

// Scenario building blocks that only C02 uses (boundary audit): further file
// shapes and input readers. Expected objects always come from pbfgen's model
// (File.Expected), never from the library.
package main

import (
	"io"

	"github.com/paulmach/osm/vsched"

	"verif/engine/pbfscen"
	"verif/gen/pbfgen"
)

// file shapes
const (
	shapeStd          = 0 // pbfscen.File: two objects per block, dense / ways / relations in turn
	shapeUneven       = 1 // blocks of 5,1,3,1,6,2,... objects: very different decode cost per block (a filter callback yields per element)
	shapeNaturalEmpty = 2 // blocks that hold no object by themselves (no group, an empty group, a changeset-only group) around blocks that do
	shapeMixedEnc     = 3 // raw blobs, stored (level 0) and best-compression zlib blobs next to default zlib blobs; every third block holds three groups
)

var shapeNames = []string{"", " uneven-blocks", " naturally-empty-blocks", " raw-and-zlib-blobs", " large-raw-blocks-among-small-zlib-blocks", " metadata-in-every-other-block"}

// shapeInfoAlternates: every block holds a dense group and a way; the dense groups of blocks
// 0, 2, 4, ... carry DenseInfo and those of 1, 3, 5, ... none, the ways carry an Info in
// blocks 0, 1, 4, 5, ... only - whatever a decoder keeps from the block it handled before
// (which block that was depends on the decoder count) must not reach the next one.
const shapeInfoAlternates = 5

// shapeBigRaw: block 0 and every 7th block is an uncompressed blob of 60 ways (a few KB), the
// others are default-zlib blobs of two objects - a decoder that holds on to the memory of a raw
// payload (the read buffer it sits in) while the reader has long moved on uses it for many later,
// smaller blocks. (seeded change C02 round 12)
const shapeBigRaw = 4

// group returns one primitive group of k objects of the given kind (0 dense,
// 1 ways, 2 relations) with ids base+first .. base+first+k-1, in the style of
// pbfscen.File.
func group(kind int, base int64, first, k int) pbfgen.Group {
	switch kind {
	case 0:
		d := &pbfgen.Dense{Info: true, Cols: pbfgen.ColsMask(63), KeysVals: true}
		for j := 0; j < k; j++ {
			id := base + int64(first+j)
			d.Nodes = append(d.Nodes, pbfgen.DenseNode(id, id))
		}
		return pbfgen.Group{Dense: d}
	case 1:
		var g pbfgen.Group
		for j := 0; j < k; j++ {
			id := base + int64(first+j)
			w := pbfgen.Way{ID: id, Info: pbfgen.FullInfo(id), Refs: []int64{base, id + 5, id + 9}}
			if j%2 == 0 {
				w.Tags = [][2]string{{"highway", "path"}}
			} else {
				w.Refs = []int64{id + 3, id + 4}
				w.Lats, w.Lons = []int64{1, 2}, []int64{3, 4}
			}
			g.Ways = append(g.Ways, w)
		}
		return g
	default:
		var g pbfgen.Group
		for j := 0; j < k; j++ {
			id := base + int64(first+j)
			r := pbfgen.Relation{ID: id, Info: pbfgen.FullInfo(id), Members: []pbfgen.Member{{Type: 2, Ref: id + 7, Role: ""}}}
			if j%2 == 0 {
				r.Tags = [][2]string{{"type", "route"}}
				r.Members = []pbfgen.Member{{Type: 0, Ref: base, Role: "a"}, {Type: 1, Ref: id, Role: "b"}}
			}
			g.Relations = append(g.Relations, r)
		}
		return g
	}
}

// shapedFile builds header + b data blocks of the given shape. Object ids keep
// the convention of pbfscen.File: 100*(block+1)+position, position >= 1.
func shapedFile(shape, b int, header bool) *pbfgen.File {
	if shape == shapeStd {
		return pbfscen.File(b, header)
	}
	f := &pbfgen.File{}
	if header {
		f.Header = pbfgen.StdHeader()
	}
	for i := 0; i < b; i++ {
		base := int64(100 * (i + 1))
		var blk pbfgen.Block
		switch shape {
		case shapeUneven:
			k := []int{5, 1, 3, 1, 6, 2}[i%6]
			blk.Groups = []pbfgen.Group{group(i%3, base, 1, k)}
		case shapeNaturalEmpty:
			// blocks 1, 4, 7, ... hold two objects (kinds in turn); the others hold none:
			// no group at all / one empty group / a group of changesets (which the
			// scanner does not return) / two empty groups
			if i%3 == 1 {
				blk.Groups = []pbfgen.Group{group((i/3)%3, base, 1, 2)}
			} else {
				switch (i - (i+1)/3) % 4 { // the e-th object-less block has style e%4
				case 0: // no group
				case 1:
					blk.Groups = []pbfgen.Group{{}}
				case 2:
					blk.Groups = []pbfgen.Group{{Changesets: []int64{base + 1, base + 2}}}
				case 3:
					blk.Groups = []pbfgen.Group{{}, {}}
				}
			}
		case shapeInfoAlternates:
			g := group(0, base, 1, 2)
			if i%2 == 1 {
				g.Dense.Info = false
			}
			w := group(1, base, 3, 1)
			if (i/2)%2 == 1 {
				w.Ways[0].Info = nil
			}
			blk.Groups = []pbfgen.Group{g, w}
		case shapeBigRaw:
			if i%7 == 0 {
				blk.Groups = []pbfgen.Group{group(1, base, 1, 60)}
				blk.Enc.Raw = true
			} else {
				blk.Groups = []pbfgen.Group{group(i%3, base, 1, 2)}
			}
		case shapeMixedEnc:
			if i%3 == 2 {
				blk.Groups = []pbfgen.Group{group(0, base, 1, 2), group(1, base, 3, 1), group(2, base, 4, 2)}
			} else {
				blk.Groups = []pbfgen.Group{group((i+1)%3, base, 1, 2)}
			}
			lvl0, lvl9 := 0, 9
			switch i % 5 {
			case 0:
				blk.Enc.Raw = true
			case 1: // default zlib
			case 2:
				blk.Enc.ZlibLevel = &lvl0
			case 3:
				blk.Enc.Raw, blk.Enc.RawSizeOnRaw = true, true
			case 4:
				blk.Enc.ZlibLevel = &lvl9
			}
		}
		f.Blocks = append(f.Blocks, blk)
	}
	return f
}

// input readers
const (
	readerBlock     = 0 // pbfscen.Reader, a scheduling point once per file block (at the size prefix)
	readerEveryRead = 1 // pbfscen.Reader, a scheduling point at every Read (size prefix, blob header, blob)
	readerStutter   = 2 // stutterReader: at most 3 bytes per Read, every third Read returns (0, nil), the last bytes come together with io.EOF
	// readerHalves: every Read delivers at most half of what was asked for (at least one
	// byte) and is a scheduling point: another thread can run in the middle of an
	// io.ReadFull, while a buffer is half filled
	readerHalves = 3
)

var readerNames = []string{"", " reader-yields-at-every-read", " stuttering-reader", " reader-delivers-halves-and-yields-at-every-read"}

type halvesReader struct {
	data []byte
	pos  int
}

func (r *halvesReader) Read(p []byte) (int, error) {
	vsched.Yield("read")
	if r.pos >= len(r.data) {
		return 0, io.EOF
	}
	if len(p) > 1 {
		p = p[:(len(p)+1)/2]
	}
	n := copy(p, r.data[r.pos:])
	r.pos += n
	return n, nil
}

// stutterReader is a legal but awkward io.Reader: short reads, reads that
// return no data and no error, and the final bytes delivered together with
// io.EOF. It is a scheduling point once per file block, like pbfscen.Reader
// with BlockOnly.
type stutterReader struct {
	data  []byte
	pos   int
	calls int
}

func (r *stutterReader) Read(p []byte) (int, error) {
	if len(p) == 4 {
		vsched.Yield("read")
	}
	r.calls++
	if r.pos >= len(r.data) {
		return 0, io.EOF
	}
	if r.calls%3 == 0 {
		return 0, nil
	}
	if len(p) > 3 {
		p = p[:3]
	}
	n := copy(p, r.data[r.pos:])
	r.pos += n
	if r.pos >= len(r.data) {
		return n, io.EOF
	}
	return n, nil
}

func newReader(kind int, data []byte) io.Reader {
	switch kind {
	case readerEveryRead:
		return &pbfscen.Reader{Data: data}
	case readerStutter:
		return &stutterReader{data: data}
	case readerHalves:
		return &halvesReader{data: data}
	}
	return &pbfscen.Reader{Data: data, BlockOnly: true}
}
