//go:build verif

// C02 — Parallel PBF decoding preserves file order under every schedule.
//
// Engine A: the real reader / decoder / serializer pipeline (osmpbf/decode.go,
// scanner.go, decode_data.go rewritten by tools/vinst from the current tree)
// runs under the cooperative scheduler; every schedule of reader, n decoders,
// serializer and consumer with at most D deviations from the priority scheduler
// is executed to completion and judged against the sequential reference.
package main

import (
	"fmt"
	"strings"
	"time"

	"github.com/paulmach/osm"
	"github.com/paulmach/osm/osmpbf"
	"github.com/paulmach/osm/vsched"

	"verif/engine/pbfscen"
	"verif/engine/vexplore"
	"verif/gen/pbfgen"
	"verif/kit"
)

// emptying modes: whole blocks end up without a single object for the consumer
const (
	emptyNone     = 0
	emptyByFilter = 1 // the filter callbacks reject every element of the blocks with an odd number
	emptyBySkip   = 2 // SkipWays: every way block (block 1, 4, ...) is skipped without decoding
	variedParams  = 3 // nothing emptied: the first two blocks state block parameters, the later ones omit them
	bigFirstBlock = 4 // the first block holds 8001 dense nodes: more than any fixed per-block buffer size in the decoder
)

func pipeline(n, b, bound int, filters, header bool) vexplore.Scenario {
	return pipelineE(n, b, bound, filters, header, emptyNone)
}

func pipelineE(n, b, bound int, filters, header bool, empty int) vexplore.Scenario {
	name := fmt.Sprintf("pipeline procs=%d blocks=%d filters=%v", n, b, filters)
	if empty != emptyNone {
		name += []string{"", " odd-blocks-rejected-by-filter", " way-blocks-skipped", " block-params-come-and-go", " first-block-of-8001-nodes"}[empty]
	}
	// block of an element id (pbfscen.File: ids are 100*(block+1)+position)
	keepID := func(id int64) bool { return empty != emptyByFilter || (id/100-1)%2 == 0 }
	if !header {
		// a scan resumed in the middle of a file: the stream starts with a data block
		name += " no-header"
	}
	file := pbfscen.File(b, header)
	if empty == variedParams {
		file = pbfscen.FileVaried(b, header)
	}
	if empty == bigFirstBlock {
		d := file.Blocks[0].Groups[0].Dense
		for i := 0; i < 7999; i++ {
			d.Nodes = append(d.Nodes, pbfgen.DenseNode(int64(1000+i), int64(i%11)))
		}
	}
	enc := file.Encode()
	var want []osm.Object
	for _, o := range file.Expected() {
		if w, isWay := o.(*osm.Way); empty == emptyBySkip && isWay {
			_ = w
			continue
		}
		if keepID(o.ObjectID().Ref()) {
			want = append(want, o)
		}
	}
	return vexplore.Scenario{Name: name, Family: name, Bound: bound, RacesAreFindings: true, MaxSteps: 100000,
		New: func() (func(), func(*vsched.Outcome) ([]vexplore.Finding, string, bool)) {
			var col pbfscen.Collected
			var scanErr, hdrErr error
			var order []string
			finished, closed := false, false
			main := func() {
				ctx, cancel := vsched.WithCancel(nil)
				defer cancel()
				rd := &pbfscen.Reader{Data: enc.Data, BlockOnly: true}
				s := osmpbf.New(ctx, rd, n)
				s.SkipWays = empty == emptyBySkip
				if filters {
					// a slow user callback inside the decoders
					s.FilterNode = func(nd *osm.Node) bool {
						vsched.Yield("filter")
						order = append(order, fmt.Sprintf("n%d@T%d", nd.ID, vsched.ThreadID()))
						return keepID(int64(nd.ID))
					}
					s.FilterWay = func(w *osm.Way) bool {
						vsched.Yield("filter")
						order = append(order, fmt.Sprintf("w%d@T%d", w.ID, vsched.ThreadID()))
						return keepID(int64(w.ID))
					}
					s.FilterRelation = func(rl *osm.Relation) bool {
						vsched.Yield("filter")
						order = append(order, fmt.Sprintf("r%d@T%d", rl.ID, vsched.ThreadID()))
						return keepID(int64(rl.ID))
					}
				}
				_, hdrErr = s.Header()
				for s.Scan() {
					col.Take(s.Object(), want)
				}
				scanErr = s.Err()
				finished = true
				s.Close()
				closed = true
			}
			check := func(o *vsched.Outcome) ([]vexplore.Finding, string, bool) {
				var fs []vexplore.Finding
				tag := strings.Join(order, " ")
				// non-vacuous: some later block was decoded before an earlier one
				nonvac := false
				last := int64(0)
				for _, ev := range order {
					var id int64
					fmt.Sscanf(ev[1:], "%d", &id)
					if id/100 < last/100 {
						nonvac = true
					}
					last = id
				}
				if !filters {
					nonvac = o.Threads > 3
				}
				if o.Kind != "ok" {
					where := "scanning"
					if finished {
						where = "in or after Close"
					}
					return []vexplore.Finding{{Key: "pipeline/" + o.Kind, Msg: fmt.Sprintf("execution ended in %s while %s: %s", o.Kind, where, o.Detail)}}, tag, nonvac
				}
				if hdrErr != nil {
					fs = append(fs, vexplore.Finding{Key: "pipeline/header-error", Msg: hdrErr.Error()})
				}
				if k, m := col.Judge(want, true); k != "" {
					fs = append(fs, vexplore.Finding{Key: "pipeline/" + k, Msg: m})
				}
				if scanErr != nil {
					fs = append(fs, vexplore.Finding{Key: "pipeline/error-on-valid-file", Msg: fmt.Sprintf("Err() = %v", scanErr)})
				}
				if !closed {
					fs = append(fs, vexplore.Finding{Key: "pipeline/close-did-not-return", Msg: "Close did not return"})
				}
				return fs, tag, nonvac
			}
			return main, check
		}}
}

func main() {
	kit.Main("C02", "model_checking", func(r *kit.Run) {
		r.Rule("scenario pipeline(procs, blocks): header + data blocks of two objects each (dense / ways / relations), reader yields at every block, filters yield per element, consumer scans to the end; variants: no header (resumed stream), no filters, filters rejecting every element of the odd blocks, SkipWays (whole blocks empty for the consumer); " +
			"every schedule with <= D deviations (delay or alternative select case) from the priority scheduler, both priority configurations; " +
			"non-vacuous = a later block's element was decoded before an earlier block's (filters on) ; distinct_nontrivial = distinct complete operation sequences among non-vacuous executions; " +
			"states = execution-tree nodes, transitions = visible operations, every trace is an implementation trace")
		r.Assume("vinst's rewrite of decode.go/scanner.go/decode_data.go preserves behaviour; sequentially consistent scheduler; races are judged on instrumented struct fields and package variables")
		type cfg struct {
			n, b, d  int
			nofilter bool
			nohdr    bool
		}
		cfgs := []cfg{{n: 1, b: 3, d: 2}, {n: 2, b: 3, d: 3}, {n: 3, b: 3, d: 2}, {n: 12, b: 3, d: 1}, {n: 2, b: 6, d: 1},
			{n: 2, b: 4, d: 1, nohdr: true}, {n: 3, b: 5, d: 1, nohdr: true}, {n: 1, b: 3, d: 1, nohdr: true}, {n: 2, b: 3, d: 2, nofilter: true},
			// channel capacities are 10/n: 2 for n=4,5; 1 for n=6..10; unbuffered from n=11
			{n: 4, b: 5, d: 1}, {n: 6, b: 4, d: 1}, {n: 10, b: 4, d: 1}, {n: 11, b: 4, d: 1}, {n: 32, b: 3, d: 1},
			// decoder counts below 1 mean one decoder
			{n: 0, b: 3, d: 1}, {n: -3, b: 3, d: 1}}
		budget := 7 * time.Minute
		if !r.Quick() {
			cfgs = []cfg{{n: 1, b: 3, d: 3}, {n: 2, b: 3, d: 3}, {n: 3, b: 3, d: 3}, {n: 2, b: 6, d: 2}, {n: 12, b: 3, d: 2}, {n: 32, b: 3, d: 1},
				{n: 2, b: 4, d: 2, nohdr: true}, {n: 3, b: 5, d: 2, nohdr: true}, {n: 12, b: 4, d: 1, nohdr: true}, {n: 2, b: 3, d: 3, nofilter: true}, {n: 3, b: 4, d: 3, nofilter: true}}
			budget = 40 * time.Minute
		}
		var scs []vexplore.Scenario
		for _, c := range cfgs {
			scs = append(scs, pipeline(c.n, c.b, c.d, !c.nofilter, !c.nohdr))
		}
		// second pass in switch mode: one context switch to ANY enabled thread costs 1
		// and leaves the priority order alone (a different slice of the schedule space
		// than persistent delays)
		sw := []cfg{{n: 2, b: 3, d: 1}, {n: 3, b: 3, d: 1}, {n: 12, b: 3, d: 1}}
		if !r.Quick() {
			sw = []cfg{{n: 2, b: 3, d: 2}, {n: 3, b: 3, d: 2}, {n: 12, b: 3, d: 1}, {n: 2, b: 4, d: 2, nohdr: true}}
		}
		// blocks that end up empty for the consumer (rejected by the filters / skipped
		// by a flag) between blocks that do not: the order of the rest must not change
		type ecfg struct{ n, b, d, empty int }
		ecfgs := []ecfg{{2, 5, 1, emptyByFilter}, {3, 5, 1, emptyByFilter}, {2, 5, 1, emptyBySkip}, {12, 5, 1, emptyBySkip}, {1, 4, 1, variedParams}, {2, 6, 1, variedParams}, {3, 6, 1, variedParams},
			// one decoder far ahead of the consumer (channel capacities add up to ~13 blocks)
			{1, 16, 0, emptyNone}}
		if !r.Quick() {
			ecfgs = []ecfg{{2, 5, 2, emptyByFilter}, {3, 6, 2, emptyByFilter}, {4, 6, 1, emptyByFilter}, {12, 5, 1, emptyByFilter}, {2, 5, 2, emptyBySkip}, {3, 6, 2, emptyBySkip}, {12, 5, 1, emptyBySkip}, {1, 4, 2, variedParams}, {2, 6, 2, variedParams}, {3, 7, 2, variedParams}, {4, 7, 1, variedParams}}
		}
		for _, c := range ecfgs {
			scs = append(scs, pipelineE(c.n, c.b, c.d, true, true, c.empty))
		}
		// an oversized block followed by ordinary ones, no filter callbacks
		for _, n := range []int{2, 3} {
			scs = append(scs, pipelineE(n, 3, 0, false, true, bigFirstBlock))
		}
		for _, c := range sw {
			sc := pipeline(c.n, c.b, c.d, true, !c.nohdr)
			sc.SwitchMode = true
			sc.Name += " switch-mode"
			sc.Family = sc.Name
			scs = append(scs, sc)
		}
		e := &vexplore.Explorer{R: r, Scenarios: scs}
		e.Run(budget)
	})
}
