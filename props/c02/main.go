//go:build verif

// C02 — Parallel PBF decoding preserves file order under every schedule.
//
// Engine A: the real reader / decoder / serializer pipeline (osmpbf/decode.go,
// scanner.go, decode_data.go rewritten by tools/vinst from the current tree)
// runs under the cooperative scheduler; every schedule of reader, n decoders,
// serializer and consumer with at most D deviations from the priority scheduler
// is executed to completion and judged against the sequential reference.
package main

import (
	"context"
	"fmt"
	"strings"
	"time"

	"github.com/paulmach/osm"
	"github.com/paulmach/osm/osmpbf"
	"github.com/paulmach/osm/vsched"

	"verif/engine/pbfscen"
	"verif/engine/vexplore"
	"verif/gen/pbfgen"
	"verif/kit"
)

// emptying modes: whole blocks end up without a single object for the consumer
const (
	emptyNone      = 0
	emptyByFilter  = 1 // the filter callbacks reject every element of the blocks with an odd number
	emptyBySkip    = 2 // SkipWays: every way block (block 1, 4, ...) is skipped without decoding
	variedParams   = 3 // nothing emptied: the first two blocks state block parameters, the later ones omit them
	bigFirstBlock  = 4 // the first block holds 8001 dense nodes: more than any fixed per-block buffer size in the decoder
	emptyBySkipNR  = 5 // SkipNodes + SkipRelations: only the way blocks are left, two blocks in a row are empty for the consumer
	bigLastBlock   = 6 // the last dense block (block 3 of 4) holds 8001 nodes
	fullFirstBlock = 7 // the first block holds exactly 8000 dense nodes (the decoder's initial result capacity)
)

var emptyNames = []string{"", " odd-blocks-rejected-by-filter", " way-blocks-skipped", " block-params-come-and-go", " first-block-of-8001-nodes", " node-and-relation-blocks-skipped", " last-dense-block-of-8001-nodes", " first-block-of-8000-nodes"}

// call sequences of the consumer
const (
	callsStd       = 0 // Header, Scan to the end, Err, Close
	callsScanFirst = 1 // no Header call before the first Scan (Scan starts the pipeline); Header after the end
	callsRepeat    = 2 // every call a second time: Header twice before and once after each object, two more Scans after the end, Err and Close twice
)

var callsNames = []string{"", " scan-without-header-call", " every-call-twice"}

// contexts handed to osmpbf.New
const (
	ctxCancellable = 0 // a cancellable context that nobody cancels during the scan
	ctxNil         = 1 // nil
	ctxBackground  = 2 // context.Background()
	ctxChild       = 3 // the child of a cancellable parent context
)

var ctxNames = []string{"", " nil-context", " background-context", " child-context"}

// a second scanner in the same process
const (
	twinNone       = 0
	twinSequential = 1 // after the first scan was closed, a second scanner (same context) scans a different file
	twinConcurrent = 2 // a second thread scans a different file with its own scanner under the same context at the same time
)

var twinNames = []string{"", " then-a-second-scan", " two-scans-at-once"}

// variant holds the scenario dimensions added by the boundary audit; the zero
// value is the original scenario.
type variant struct {
	shape, reader, calls, ctx, twin int
}

func pipeline(n, b, bound int, filters, header bool) vexplore.Scenario {
	return pipelineE(n, b, bound, filters, header, emptyNone)
}

func pipelineE(n, b, bound int, filters, header bool, empty int) vexplore.Scenario {
	return pipelineV(n, b, bound, filters, header, empty, variant{})
}

// run is set by main: per-scenario execution counters go to the evidence.
var run *kit.Run

// scanState is what one consumer observed of one scanner.
type scanState struct {
	col              pbfscen.Collected
	scanErr, hdrErr  error
	order            []string
	finished, closed bool
}

// take records the next returned object; the consumer reads it (race tracker)
// and compares it with the expected object at once.
func take(st *scanState, o osm.Object, want []osm.Object) {
	switch x := o.(type) {
	case *osm.Node:
		vsched.R(x)
	case *osm.Way:
		vsched.R(x)
	case *osm.Relation:
		vsched.R(x)
	}
	st.col.Take(o, want)
}

func pipelineV(n, b, bound int, filters, header bool, empty int, v variant) vexplore.Scenario {
	name := fmt.Sprintf("pipeline procs=%d blocks=%d filters=%v", n, b, filters)
	name += emptyNames[empty]
	// block of an element id (pbfscen.File: ids are 100*(block+1)+position)
	keepID := func(id int64) bool { return empty != emptyByFilter || (id/100-1)%2 == 0 }
	if !header {
		// a scan resumed in the middle of a file: the stream starts with a data block
		name += " no-header"
	}
	name += shapeNames[v.shape] + readerNames[v.reader] + callsNames[v.calls] + ctxNames[v.ctx] + twinNames[v.twin]
	// files and expected sequences are built on first use in the process that
	// runs the scenario (every worker process holds the whole scenario list)
	var enc, enc2 *pbfgen.Encoded
	var want, want2 []osm.Object
	prepared := false
	prepare := func() {
		if prepared {
			return
		}
		prepared = true
		file := shapedFile(v.shape, b, header)
		if empty == variedParams {
			file = pbfscen.FileVaried(b, header)
		}
		if empty == bigFirstBlock || empty == fullFirstBlock || empty == bigLastBlock {
			at, more := 0, 7999
			if empty == fullFirstBlock {
				more = 7998
			}
			if empty == bigLastBlock {
				at = (b - 1) / 3 * 3
			}
			d := file.Blocks[at].Groups[0].Dense
			for i := 0; i < more; i++ {
				d.Nodes = append(d.Nodes, pbfgen.DenseNode(int64(1000+i), int64(i%11)))
			}
		}
		wantOf := func(f *pbfgen.File, plain bool) []osm.Object {
			var want []osm.Object
			for _, o := range f.Expected() {
				if plain {
					want = append(want, o)
					continue
				}
				switch o.(type) {
				case *osm.Node:
					if empty == emptyBySkipNR {
						continue
					}
				case *osm.Way:
					if empty == emptyBySkip {
						continue
					}
				case *osm.Relation:
					if empty == emptyBySkipNR {
						continue
					}
				}
				if keepID(o.ObjectID().Ref()) {
					want = append(want, o)
				}
			}
			return want
		}
		enc, want = file.Encode(), wantOf(file, false)
		// the second scanner: one decoder more, no filters and no skip flags (what one
		// scanner was told must not leak into the other); its file: one block more,
		// other block parameters, other user names and uids - an object that crossed
		// over cannot pass for its own
		if v.twin != twinNone {
			file2 := pbfscen.FileVaried(b+1, header)
			enc2, want2 = file2.Encode(), wantOf(file2, true)
		}
	}
	return vexplore.Scenario{Name: name, Family: name, Bound: bound, RacesAreFindings: true, MaxSteps: 100000 + 400*b,
		New: func() (func(), func(*vsched.Outcome) ([]vexplore.Finding, string, bool)) {
			prepare()
			var st [2]scanState
			scan := func(st *scanState, ctx context.Context, data []byte, want []osm.Object, second bool) {
				procs := n
				if second {
					procs = n + 1
				}
				s := osmpbf.New(ctx, newReader(v.reader, data), procs)
				if !second {
					s.SkipWays = empty == emptyBySkip
					s.SkipNodes, s.SkipRelations = empty == emptyBySkipNR, empty == emptyBySkipNR
				}
				if filters && !second {
					// a slow user callback inside the decoders. vsched.W tells the race
					// tracker that this (decoder) thread has just written the element; the
					// consumer's vsched.R in take must be ordered after it by the pipeline's
					// own synchronisation.
					s.FilterNode = func(nd *osm.Node) bool {
						vsched.Yield("filter")
						vsched.W(nd)
						st.order = append(st.order, fmt.Sprintf("n%d@T%d", nd.ID, vsched.ThreadID()))
						return keepID(int64(nd.ID))
					}
					s.FilterWay = func(w *osm.Way) bool {
						vsched.Yield("filter")
						vsched.W(w)
						st.order = append(st.order, fmt.Sprintf("w%d@T%d", w.ID, vsched.ThreadID()))
						return keepID(int64(w.ID))
					}
					s.FilterRelation = func(rl *osm.Relation) bool {
						vsched.Yield("filter")
						vsched.W(rl)
						st.order = append(st.order, fmt.Sprintf("r%d@T%d", rl.ID, vsched.ThreadID()))
						return keepID(int64(rl.ID))
					}
				}
				// The results of Header() are not C02's to judge beyond "no error on a
				// valid file"; the extra calls are there because they must not disturb
				// the object sequence. An extra object after the end or after Close is
				// an object "beyond the expected" for Judge.
				if v.calls != callsScanFirst {
					_, st.hdrErr = s.Header()
				}
				if v.calls == callsRepeat {
					s.Header()
				}
				for s.Scan() {
					take(st, s.Object(), want)
					if v.calls == callsRepeat {
						if _, err := s.Header(); err != nil && st.hdrErr == nil {
							st.hdrErr = err
						}
					}
				}
				st.scanErr = s.Err()
				if v.calls == callsRepeat {
					// the scan is over: it stays over, and Err stays what it was
					for k := 0; k < 2; k++ {
						if s.Scan() {
							take(st, s.Object(), want)
						}
						if err := s.Err(); err != nil && st.scanErr == nil {
							st.scanErr = fmt.Errorf("%v (after %d more Scan calls, nil at the end of the scan)", err, k+1)
						}
					}
				}
				if v.calls != callsStd {
					// not judged: after a complete scan the library returns (header, io.EOF)
					// here; C02's statement says nothing about Header after the end
					s.Header()
				}
				st.finished = true
				s.Close()
				if v.calls == callsRepeat {
					s.Close()
					if s.Scan() {
						take(st, s.Object(), want)
					}
				}
				st.closed = true
			}
			main := func() {
				var ctx context.Context
				switch v.ctx {
				case ctxCancellable:
					c, cancel := vsched.WithCancel(nil)
					defer cancel()
					ctx = c
				case ctxNil:
				case ctxBackground:
					ctx = context.Background()
				case ctxChild:
					p, pcancel := vsched.WithCancel(nil)
					defer pcancel()
					c, cancel := vsched.WithCancel(p)
					defer cancel()
					ctx = c
				}
				switch v.twin {
				case twinNone:
					scan(&st[0], ctx, enc.Data, want, false)
				case twinSequential:
					scan(&st[0], ctx, enc.Data, want, false)
					scan(&st[1], ctx, enc2.Data, want2, true)
				case twinConcurrent:
					done := vsched.MakeChan[struct{}](1)
					vsched.GoNamed("second-consumer", func() {
						scan(&st[1], ctx, enc2.Data, want2, true)
						done.Send(struct{}{})
					})
					scan(&st[0], ctx, enc.Data, want, false)
					done.Recv()
				}
			}
			check := func(o *vsched.Outcome) ([]vexplore.Finding, string, bool) {
				if run != nil {
					run.Add("oracle_runs["+name+"]", 1)
				}
				var fs []vexplore.Finding
				tag := strings.Join(st[0].order, " ")
				if v.twin != twinNone {
					tag += " | " + strings.Join(st[1].order, " ")
				}
				// non-vacuous: some later block was decoded before an earlier one
				nonvac := false
				for k := range st {
					last := int64(0)
					for _, ev := range st[k].order {
						var id int64
						fmt.Sscanf(ev[1:], "%d", &id)
						if id/100 < last/100 {
							nonvac = true
						}
						last = id
					}
				}
				if !filters {
					nonvac = o.Threads > 3
				}
				scans := 1
				if v.twin != twinNone {
					scans = 2
				}
				if o.Kind != "ok" {
					where := "scanning"
					if st[0].finished && (scans == 1 || st[1].finished) {
						where = "in or after Close"
					}
					return []vexplore.Finding{{Key: "pipeline/" + o.Kind, Msg: fmt.Sprintf("execution ended in %s while %s: %s", o.Kind, where, o.Detail)}}, tag, nonvac
				}
				for i := 0; i < scans; i++ {
					s, w, who := &st[i], want, ""
					if i == 1 {
						w, who = want2, "second scanner: "
					}
					if s.hdrErr != nil {
						fs = append(fs, vexplore.Finding{Key: "pipeline/header-error", Msg: who + s.hdrErr.Error()})
					}
					if k, m := s.col.Judge(w, true); k != "" {
						fs = append(fs, vexplore.Finding{Key: "pipeline/" + k, Msg: who + m})
					}
					if s.scanErr != nil {
						fs = append(fs, vexplore.Finding{Key: "pipeline/error-on-valid-file", Msg: fmt.Sprintf("%sErr() = %v", who, s.scanErr)})
					}
					if !s.closed {
						fs = append(fs, vexplore.Finding{Key: "pipeline/close-did-not-return", Msg: who + "Close did not return"})
					}
				}
				return fs, tag, nonvac
			}
			return main, check
		}}
}

func main() {
	kit.Main("C02", "model_checking", func(r *kit.Run) {
		run = r
		r.Rule("scenario pipeline(procs, blocks): header + data blocks of two objects each (dense / ways / relations), reader yields at every block, filters yield per element, consumer scans to the end; variants: no header (resumed stream), no filters, filters rejecting every element of the odd blocks, SkipWays / SkipNodes+SkipRelations (whole blocks empty for the consumer), " +
			"blocks of 1..6 objects, blocks without objects, raw / stored / zlib blobs and multi-group blocks, 0..2, 24..70 and 300 blocks, readers yielding at every read or stuttering (short reads, empty reads, data with EOF), Scan without Header, every call twice, nil / background / child contexts, a second scanner after or next to the first; " +
			"every schedule with <= D deviations (delay or alternative select case) from the priority scheduler, both priority configurations; " +
			"non-vacuous = a later block's element was decoded before an earlier block's (filters on) ; distinct_nontrivial = distinct complete operation sequences among non-vacuous executions; " +
			"states = execution-tree nodes, transitions = visible operations, every trace is an implementation trace; oracle_runs[scenario] counts oracle evaluations including the determinism re-runs of the root execution")
		r.Assume("vinst's rewrite of decode.go/scanner.go/decode_data.go preserves behaviour; sequentially consistent scheduler; races are judged on instrumented struct fields and package variables")
		r.Assume("not judged (the property text does not decide them): decoder counts above 32, an empty stream (no header, no block), a consumer that modifies the objects it was given, input readers that fail (C06), stops before the end (C07), the content of Header() and the byte offsets (C01, C09)")
		type cfg struct {
			n, b, d  int
			nofilter bool
			nohdr    bool
		}
		cfgs := []cfg{{n: 1, b: 3, d: 2}, {n: 2, b: 3, d: 3}, {n: 3, b: 3, d: 2}, {n: 12, b: 3, d: 1}, {n: 2, b: 6, d: 1},
			{n: 2, b: 4, d: 1, nohdr: true}, {n: 3, b: 5, d: 1, nohdr: true}, {n: 1, b: 3, d: 1, nohdr: true}, {n: 2, b: 3, d: 2, nofilter: true},
			// channel capacities are 10/n: 2 for n=4,5; 1 for n=6..10; unbuffered from n=11
			{n: 4, b: 5, d: 1}, {n: 6, b: 4, d: 1}, {n: 10, b: 4, d: 1}, {n: 11, b: 4, d: 1}, {n: 32, b: 3, d: 1},
			// decoder counts below 1 mean one decoder
			{n: 0, b: 3, d: 1}, {n: -3, b: 3, d: 1}}
		budget := 7 * time.Minute
		if !r.Quick() {
			cfgs = []cfg{{n: 1, b: 3, d: 3}, {n: 2, b: 3, d: 3}, {n: 3, b: 3, d: 3}, {n: 2, b: 6, d: 2}, {n: 12, b: 3, d: 2}, {n: 32, b: 3, d: 1},
				{n: 2, b: 4, d: 2, nohdr: true}, {n: 3, b: 5, d: 2, nohdr: true}, {n: 12, b: 4, d: 1, nohdr: true}, {n: 2, b: 3, d: 3, nofilter: true}, {n: 3, b: 4, d: 3, nofilter: true}}
			budget = 40 * time.Minute
		}
		var scs []vexplore.Scenario
		for _, c := range cfgs {
			scs = append(scs, pipeline(c.n, c.b, c.d, !c.nofilter, !c.nohdr))
		}
		// second pass in switch mode: one context switch to ANY enabled thread costs 1
		// and leaves the priority order alone (a different slice of the schedule space
		// than persistent delays)
		sw := []cfg{{n: 2, b: 3, d: 1}, {n: 3, b: 3, d: 1}, {n: 12, b: 3, d: 1}}
		if !r.Quick() {
			sw = []cfg{{n: 2, b: 3, d: 2}, {n: 3, b: 3, d: 2}, {n: 12, b: 3, d: 1}, {n: 2, b: 4, d: 2, nohdr: true}}
		}
		// blocks that end up empty for the consumer (rejected by the filters / skipped
		// by a flag) between blocks that do not: the order of the rest must not change
		type ecfg struct{ n, b, d, empty int }
		ecfgs := []ecfg{{2, 5, 1, emptyByFilter}, {3, 5, 1, emptyByFilter}, {2, 5, 1, emptyBySkip}, {12, 5, 1, emptyBySkip}, {1, 4, 1, variedParams}, {2, 6, 1, variedParams}, {3, 6, 1, variedParams},
			// one decoder far ahead of the consumer (channel capacities add up to ~13 blocks)
			{1, 16, 0, emptyNone}}
		if !r.Quick() {
			ecfgs = []ecfg{{2, 5, 2, emptyByFilter}, {3, 6, 2, emptyByFilter}, {4, 6, 1, emptyByFilter}, {12, 5, 1, emptyByFilter}, {2, 5, 2, emptyBySkip}, {3, 6, 2, emptyBySkip}, {12, 5, 1, emptyBySkip}, {1, 4, 2, variedParams}, {2, 6, 2, variedParams}, {3, 7, 2, variedParams}, {4, 7, 1, variedParams}}
		}
		for _, c := range ecfgs {
			scs = append(scs, pipelineE(c.n, c.b, c.d, true, true, c.empty))
		}
		// an oversized block followed by ordinary ones, no filter callbacks
		for _, n := range []int{2, 3} {
			scs = append(scs, pipelineE(n, 3, 0, false, true, bigFirstBlock))
		}
		for _, c := range sw {
			sc := pipeline(c.n, c.b, c.d, true, !c.nohdr)
			sc.SwitchMode = true
			sc.Name += " switch-mode"
			sc.Family = sc.Name
			scs = append(scs, sc)
		}
		scs = append(scs, auditScenarios(r.Quick())...)
		e := &vexplore.Explorer{R: r, Scenarios: scs}
		e.Run(budget)
	})
}
