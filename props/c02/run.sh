#!/bin/bash
# C02: the osmpbf pipeline is instrumented from the current /repo tree and explored under vsched.
exec "$(dirname "$0")/../../engine/run_a.sh" C02 "$1" -pkg osmpbf:decode.go,scanner.go,decode_data.go -- "${@:2}"
