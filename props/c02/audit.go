//go:build verif

package main

import "verif/engine/vexplore"

// acfg is one scenario of the boundary audit: the original dimensions plus a variant.
type acfg struct {
	n, b, d  int
	nofilter bool
	nohdr    bool
	empty    int
	v        variant
	sw       bool // switch mode
}

func (c acfg) scenario() vexplore.Scenario {
	sc := pipelineV(c.n, c.b, c.d, !c.nofilter, !c.nohdr, c.empty, c.v)
	if c.sw {
		sc.SwitchMode = true
		sc.Name += " switch-mode"
		sc.Family = sc.Name
	}
	return sc
}

// auditScenarios are the scenario classes added by the boundary audit
// (values and situations outside the original alphabets).
func auditScenarios(quick bool) []vexplore.Scenario {
	var cs []acfg
	add := func(c ...acfg) { cs = append(cs, c...) }

	// --- block counts: 0 (a header and nothing else), 1, 2; fewer blocks than decoders, header-less single block
	add(acfg{n: 1, b: 0, d: 2}, acfg{n: 2, b: 0, d: 2}, acfg{n: 12, b: 0, d: 1},
		acfg{n: 1, b: 1, d: 2}, acfg{n: 2, b: 1, d: 2}, acfg{n: 3, b: 1, d: 2}, acfg{n: 2, b: 2, d: 2}, acfg{n: 3, b: 2, d: 2},
		acfg{n: 2, b: 1, d: 2, nohdr: true}, acfg{n: 1, b: 1, d: 2, nohdr: true}, acfg{n: 2, b: 2, d: 2, nohdr: true}, acfg{n: 12, b: 2, d: 1, nohdr: true})
	// --- more blocks than all channel capacities plus threads add up to, for every capacity step
	// (n=2: 5 per channel, n=3: 3, n=4: 2, n=6: 1, n>=11: unbuffered); no deviations: the
	// child-first configuration runs reader and decoders as far ahead of the consumer as they get
	add(acfg{n: 2, b: 30, d: 0}, acfg{n: 3, b: 30, d: 0}, acfg{n: 4, b: 30, d: 0}, acfg{n: 6, b: 40, d: 0}, acfg{n: 11, b: 40, d: 0}, acfg{n: 12, b: 40, d: 0}, acfg{n: 32, b: 70, d: 0},
		acfg{n: 2, b: 27, d: 0, nohdr: true}, acfg{n: 2, b: 30, d: 0, nofilter: true}, acfg{n: 3, b: 30, d: 0, v: variant{shape: shapeUneven}}, acfg{n: 2, b: 30, d: 0, v: variant{shape: shapeNaturalEmpty}},
		acfg{n: 2, b: 30, d: 0, v: variant{shape: shapeMixedEnc}}, acfg{n: 2, b: 30, d: 0, empty: emptyByFilter}, acfg{n: 2, b: 24, d: 1})
	// --- a large raw block among small zlib blocks, files longer than any number of read buffers
	// a reader could cycle through (n decoders x (channel capacity + 1) + a few)
	add(acfg{n: 1, b: 30, d: 0, v: variant{shape: shapeBigRaw}}, acfg{n: 2, b: 30, d: 0, v: variant{shape: shapeBigRaw}}, acfg{n: 3, b: 40, d: 0, v: variant{shape: shapeBigRaw}},
		acfg{n: 12, b: 40, d: 0, v: variant{shape: shapeBigRaw}}, acfg{n: 2, b: 30, d: 0, nohdr: true, nofilter: true, v: variant{shape: shapeBigRaw}})
	// --- metadata (DenseInfo, Info) present in some blocks and absent in others
	add(acfg{n: 1, b: 6, d: 1, v: variant{shape: shapeInfoAlternates}}, acfg{n: 2, b: 6, d: 1, v: variant{shape: shapeInfoAlternates}}, acfg{n: 3, b: 7, d: 1, v: variant{shape: shapeInfoAlternates}},
		acfg{n: 2, b: 30, d: 0, nofilter: true, v: variant{shape: shapeInfoAlternates}}, acfg{n: 3, b: 5, d: 1, nohdr: true, v: variant{shape: shapeInfoAlternates}})
	// --- more blocks than an 8-bit block counter holds, decoder counts that do not divide 256.
	// (More blocks than a 16-bit counter holds were tried and dropped: one execution of
	// 65600 blocks does not finish within the explorer's 120 s watchdog on a loaded machine.)
	add(acfg{n: 3, b: 300, d: 0}, acfg{n: 7, b: 300, d: 0, nofilter: true})
	// --- decoder counts between the capacity steps and at the documented maximum's neighbours
	add(acfg{n: 5, b: 5, d: 1}, acfg{n: 9, b: 4, d: 1}, acfg{n: 16, b: 3, d: 1}, acfg{n: 31, b: 3, d: 0})
	// --- blocks of very different decode cost
	add(acfg{n: 2, b: 6, d: 1, v: variant{shape: shapeUneven}}, acfg{n: 3, b: 6, d: 1, v: variant{shape: shapeUneven}}, acfg{n: 4, b: 6, d: 1, v: variant{shape: shapeUneven}}, acfg{n: 12, b: 6, d: 1, v: variant{shape: shapeUneven}},
		acfg{n: 2, b: 5, d: 1, nohdr: true, v: variant{shape: shapeUneven}})
	// --- blocks without objects in the file itself
	add(acfg{n: 2, b: 6, d: 1, v: variant{shape: shapeNaturalEmpty}}, acfg{n: 3, b: 7, d: 1, v: variant{shape: shapeNaturalEmpty}}, acfg{n: 12, b: 6, d: 1, v: variant{shape: shapeNaturalEmpty}},
		acfg{n: 2, b: 5, d: 1, nohdr: true, v: variant{shape: shapeNaturalEmpty}}, acfg{n: 1, b: 5, d: 1, v: variant{shape: shapeNaturalEmpty}})
	// --- raw / stored / compressed blobs and multi-group blocks handled by one decoder in turn
	add(acfg{n: 2, b: 5, d: 1, v: variant{shape: shapeMixedEnc}}, acfg{n: 3, b: 6, d: 1, v: variant{shape: shapeMixedEnc}}, acfg{n: 2, b: 5, d: 1, nofilter: true, v: variant{shape: shapeMixedEnc}},
		acfg{n: 1, b: 5, d: 1, v: variant{shape: shapeMixedEnc}})
	// --- two skip flags: runs of two emptied blocks
	add(acfg{n: 2, b: 6, d: 1, empty: emptyBySkipNR}, acfg{n: 3, b: 6, d: 1, empty: emptyBySkipNR})
	// --- input readers
	add(acfg{n: 2, b: 3, d: 1, v: variant{reader: readerEveryRead}}, acfg{n: 3, b: 4, d: 1, v: variant{reader: readerEveryRead}},
		acfg{n: 2, b: 3, d: 1, v: variant{reader: readerStutter}}, acfg{n: 1, b: 3, d: 1, v: variant{reader: readerStutter}}, acfg{n: 12, b: 3, d: 1, v: variant{reader: readerStutter}},
		acfg{n: 2, b: 4, d: 1, nohdr: true, v: variant{reader: readerStutter}})
	// --- call sequences
	add(acfg{n: 2, b: 3, d: 1, v: variant{calls: callsScanFirst}}, acfg{n: 2, b: 4, d: 1, nohdr: true, v: variant{calls: callsScanFirst}}, acfg{n: 12, b: 3, d: 1, v: variant{calls: callsScanFirst}},
		acfg{n: 2, b: 3, d: 1, v: variant{calls: callsRepeat}}, acfg{n: 3, b: 3, d: 1, v: variant{calls: callsRepeat}}, acfg{n: 1, b: 3, d: 1, nohdr: true, v: variant{calls: callsRepeat}})
	// --- contexts
	add(acfg{n: 2, b: 3, d: 1, v: variant{ctx: ctxNil}}, acfg{n: 3, b: 3, d: 1, v: variant{ctx: ctxBackground}}, acfg{n: 2, b: 3, d: 1, v: variant{ctx: ctxChild}},
		acfg{n: 12, b: 3, d: 1, v: variant{ctx: ctxNil}})
	// --- a second scanner
	add(acfg{n: 2, b: 3, d: 1, v: variant{twin: twinSequential}}, acfg{n: 2, b: 3, d: 1, v: variant{twin: twinConcurrent}}, acfg{n: 1, b: 3, d: 1, v: variant{twin: twinConcurrent}},
		acfg{n: 3, b: 2, d: 1, v: variant{twin: twinConcurrent}}, acfg{n: 2, b: 3, d: 1, v: variant{twin: twinConcurrent, ctx: ctxNil}})
	// --- two scanners at once whose readers hand over half-filled buffers (another thread runs
	// in the middle of an io.ReadFull): whatever the scanners share below their own state shows
	add(acfg{n: 1, b: 2, d: 1, v: variant{twin: twinConcurrent, reader: readerHalves}}, acfg{n: 2, b: 2, d: 1, v: variant{twin: twinConcurrent, reader: readerHalves}},
		acfg{n: 2, b: 3, d: 0, v: variant{twin: twinConcurrent, reader: readerHalves}}, acfg{n: 2, b: 3, d: 1, v: variant{reader: readerHalves}})
	// --- switch mode on the shapes that had only delay bounding
	add(acfg{n: 2, b: 4, d: 1, nohdr: true, sw: true}, acfg{n: 2, b: 5, d: 1, empty: emptyByFilter, sw: true}, acfg{n: 2, b: 6, d: 1, v: variant{shape: shapeUneven}, sw: true},
		acfg{n: 2, b: 5, d: 1, empty: emptyBySkip, sw: true}, acfg{n: 1, b: 3, d: 1, sw: true})
	// --- round-robin wrap-around with small or no channel buffers, one deviation
	add(acfg{n: 6, b: 8, d: 1}, acfg{n: 11, b: 13, d: 1})
	// --- oversized blocks elsewhere and a block that exactly fills the decoder's initial result capacity
	add(acfg{n: 2, b: 4, d: 0, nofilter: true, empty: bigLastBlock}, acfg{n: 3, b: 4, d: 0, nofilter: true, empty: bigLastBlock},
		acfg{n: 2, b: 3, d: 0, nofilter: true, empty: fullFirstBlock}, acfg{n: 2, b: 3, d: 0, nofilter: true, nohdr: true, empty: bigFirstBlock})
	// --- features that were each covered alone, together
	add(acfg{n: 2, b: 5, d: 1, nofilter: true, empty: emptyBySkip}, acfg{n: 2, b: 4, d: 1, nofilter: true, nohdr: true}, acfg{n: 3, b: 5, d: 1, nohdr: true, empty: emptyByFilter},
		acfg{n: 2, b: 5, d: 1, nohdr: true, empty: emptyBySkip}, acfg{n: 2, b: 5, d: 1, nohdr: true, empty: variedParams}, acfg{n: 2, b: 5, d: 1, nohdr: true, v: variant{shape: shapeMixedEnc}},
		acfg{n: 2, b: 5, d: 1, empty: emptyBySkip, v: variant{twin: twinConcurrent}}, acfg{n: 2, b: 5, d: 1, empty: emptyByFilter, v: variant{twin: twinSequential}},
		acfg{n: 2, b: 3, d: 1, nohdr: true, v: variant{twin: twinConcurrent, reader: readerEveryRead}},
		acfg{n: 3, b: 30, d: 0, v: variant{shape: shapeMixedEnc, reader: readerStutter, calls: callsRepeat, ctx: ctxNil}},
		acfg{n: 4, b: 30, d: 0, nohdr: true, empty: emptyBySkipNR, v: variant{reader: readerEveryRead, calls: callsScanFirst, ctx: ctxChild}})
	if !quick {
		// thorough: one more deviation wherever the scenario has at most 7 blocks and
		// 4 decoders (two scanners: at most 3 blocks)
		for i := range cs {
			if cs[i].d >= 1 && cs[i].b <= 7 && cs[i].n <= 4 && (cs[i].v.twin == twinNone || cs[i].b <= 3) {
				cs[i].d++
			}
		}
	}
	var scs []vexplore.Scenario
	for _, c := range cs {
		scs = append(scs, c.scenario())
	}
	return scs
}
