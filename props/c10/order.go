package main

import (
	"fmt"
	"math/bits"
	"sync/atomic"

	"github.com/paulmach/osm"

	"verif/kit"
)

// primary constructor of an id of the given type (object | element | feature)
func packedOf(idType string, t Triple) (v int64, p interface{}) {
	defer func() {
		if x := recover(); x != nil {
			p = x
		}
	}()
	obj, el, fe := paths(t)
	switch idType {
	case "object":
		return obj[0].f(), nil
	case "element":
		return el[0].f(), nil
	}
	return fe[0].f(), nil
}

var pinnedRank = map[string]int{"node": 0, "way": 1, "relation": 2}

// kindRanks: node < way < relation is fixed by the property; the place of the
// other kinds is read off the library's (kind, 0, 0) object ids.
func kindRanks(r *kit.Run) map[string]int {
	type kv struct {
		k string
		v int64
	}
	var base []kv
	for _, k := range allKinds {
		v, p := packedOf("object", Triple{k, 0, 0})
		if p != nil {
			kit.Fatalf("cannot build base id of %s: %v", k, p)
		}
		base = append(base, kv{k, v})
	}
	for i := 1; i < len(base); i++ {
		for j := i; j > 0 && base[j-1].v > base[j].v; j-- {
			base[j-1], base[j] = base[j], base[j-1]
		}
	}
	ranks := map[string]int{}
	order := []string{}
	for i, b := range base {
		ranks[b.k] = i
		order = append(order, b.k)
	}
	r.Set("kind_order_observed", order)
	if !(ranks["node"] < ranks["way"] && ranks["way"] < ranks["relation"]) {
		t, u := Triple{"node", 0, 0}, Triple{"relation", 0, 0}
		r.Violation("order/kind-rank", fmt.Sprintf("base ids are ordered %v, want node < way < relation", order), Case{Family: "pair", IDType: "object", T: &t, U: &u})
	}
	return ranks
}

func sign(a, b int64) int {
	if a < b {
		return -1
	}
	if a > b {
		return 1
	}
	return 0
}

// cmpTriple is the reference order: (kind rank, ref, version); feature ids have
// no version. It also reports which component decides.
func cmpTriple(idType string, a, b Triple, ranks map[string]int) (c int, decider string) {
	if s := sign(int64(ranks[a.Kind]), int64(ranks[b.Kind])); s != 0 {
		return s, "kind"
	}
	if s := sign(a.Ref, b.Ref); s != 0 {
		return s, "ref"
	}
	if idType != "feature" {
		if s := sign(int64(a.Ver), int64(b.Ver)); s != 0 {
			return s, "version"
		}
	}
	return 0, "equal"
}

var idTypeIdx = map[string]uint64{"object": 1, "element": 2, "feature": 3}
var deciderIdx = map[string]uint64{"kind": 1, "ref": 2, "version": 3, "equal": 0}

// pairClass is the fingerprint of a comparison shape.
func pairClass(idType string, a, b Triple, ranks map[string]int, want int, decider string) uint64 {
	var bit, conflict uint64
	switch decider {
	case "kind":
		// lower components pointing the other way make the case harder
		if s := sign(a.Ref, b.Ref); s != 0 && s != want {
			conflict |= 1
		}
		if s := sign(int64(a.Ver), int64(b.Ver)); s != 0 && s != want {
			conflict |= 2
		}
		bit = uint64(bits.Len64(uint64(a.Ref ^ b.Ref)))
	case "ref":
		bit = uint64(bits.Len64(uint64(a.Ref ^ b.Ref)))
		if s := sign(int64(a.Ver), int64(b.Ver)); s != 0 && s != want {
			conflict |= 2
		}
	case "version":
		bit = uint64(bits.Len64(uint64(a.Ver ^ b.Ver)))
	}
	h := idTypeIdx[idType]
	h = h*8 + uint64(ranks[a.Kind])
	h = h*8 + uint64(ranks[b.Kind])
	h = h*4 + deciderIdx[decider]
	h = h*64 + bit
	h = h*4 + conflict
	h = h*2 + uint64((want+1)/2)
	return h * 0x9E3779B97F4A7C15
}

// checkPair judges one ordered pair. classes (optional) collects fingerprints
// for a batched hand-over to kit.
func checkPair(r *kit.Run, idType string, a, b Triple, ranks map[string]int, classes map[uint64]struct{}) {
	pa, p1 := packedOf(idType, a)
	pb, p2 := packedOf(idType, b)
	if p1 != nil || p2 != nil {
		r.Violation("construct-panic/pair/"+idType, fmt.Sprintf("constructing %v / %v panicked: %v %v", a, b, p1, p2), Case{Family: "pair", IDType: idType, T: &a, U: &b})
		return
	}
	judgePair(r, idType, a, b, pa, pb, ranks, classes)
	if classes == nil {
		r.Eval(1)
	}
}

func judgePair(r *kit.Run, idType string, a, b Triple, pa, pb int64, ranks map[string]int, classes map[uint64]struct{}) {
	rk := ranks
	if idType != "object" {
		rk = pinnedRank
	}
	want, decider := cmpTriple(idType, a, b, rk)
	got := sign(pa, pb)
	if want != 0 {
		h := pairClass(idType, a, b, rk, want, decider)
		if classes != nil {
			classes[h] = struct{}{}
		} else {
			r.NontrivialHash(h)
		}
	}
	if got != want {
		aa, bb := a, b
		r.Violation("order/"+idType+"/"+decider+"/"+a.Kind+"-"+b.Kind,
			fmt.Sprintf("%s ids of %v (%#x) and %v (%#x): integer comparison %d, (kind, ref, version) comparison %d", idType, a, pa, b, pb, got, want),
			Case{Family: "pair", IDType: idType, T: &aa, U: &bb})
	}
}

func runPairs(r *kit.Run, thorough bool) {
	ranks := kindRanks(r)
	refs, vers := reducedRefs(), reducedVers()
	if thorough {
		refs, vers = fullRefs(), fullVers()
	}
	r.Set("pair_refs", len(refs))
	r.Set("pair_versions", len(vers))
	sampled := false
	for _, idType := range []string{"object", "element", "feature"} {
		var ts []Triple
		switch idType {
		case "object":
			ts = triplesOver(refs, vers, allKinds)
		case "element":
			ts = triplesOver(refs, vers, elementKinds)
		default:
			ts = triplesOver(refs, []int64{0}, elementKinds)
		}
		packed := make([]int64, len(ts))
		for i, t := range ts {
			v, p := packedOf(idType, t)
			if p != nil {
				r.Violation("construct-panic/pair/"+idType, fmt.Sprintf("constructing %v panicked: %v", t, p), Case{Family: "pair", IDType: idType, T: &ts[i], U: &ts[i]})
			}
			packed[i] = v
		}
		if !sampled {
			a, b := ts[len(ts)/3], ts[len(ts)/2]
			r.Sample(Case{Family: "pair", IDType: idType, T: &a, U: &b})
			sampled = true
		}
		idt := idType
		var pairs int64
		r.Par(len(ts), func(i int) {
			classes := map[uint64]struct{}{}
			for j := range ts {
				judgePair(r, idt, ts[i], ts[j], packed[i], packed[j], ranks, classes)
			}
			for h := range classes {
				r.NontrivialHash(h)
			}
			r.Eval(len(ts))
			atomic.AddInt64(&pairs, int64(len(ts)))
		})
		r.Set("pair_ids_"+idType, len(ts))
		r.Set("pairs_"+idType, pairs)
	}
}

// ---------------------------------------------------------------- sorts

func sortedTriples(sortType string, in []Triple) []Triple {
	idType := "element"
	if sortType == "featureids" {
		idType = "feature"
	}
	out := append([]Triple{}, in...)
	for i := 1; i < len(out); i++ {
		for j := i; j > 0; j-- {
			c, _ := cmpTriple(idType, out[j-1], out[j], pinnedRank)
			if c <= 0 {
				break
			}
			out[j-1], out[j] = out[j], out[j-1]
		}
	}
	return out
}

func sameTriples(a, b []Triple) bool {
	if len(a) != len(b) {
		return false
	}
	for i := range a {
		if a[i] != b[i] {
			return false
		}
	}
	return true
}

func elementOf(t Triple) osm.Element {
	switch t.Kind {
	case "node":
		return &osm.Node{ID: osm.NodeID(t.Ref), Version: t.Ver}
	case "way":
		return &osm.Way{ID: osm.WayID(t.Ref), Version: t.Ver}
	}
	return &osm.Relation{ID: osm.RelationID(t.Ref), Version: t.Ver}
}

func tripleOfElement(e osm.Element) Triple {
	switch x := e.(type) {
	case *osm.Node:
		return Triple{"node", int64(x.ID), x.Version}
	case *osm.Way:
		return Triple{"way", int64(x.ID), x.Version}
	case *osm.Relation:
		return Triple{"relation", int64(x.ID), x.Version}
	}
	return Triple{"?", 0, 0}
}

func fpList(sortType string, list []Triple) string {
	s := "sort|" + sortType
	for _, t := range list {
		s += "|" + t.String()
	}
	return s
}

func checkSort(r *kit.Run, sortType string, list []Triple) {
	want := sortedTriples(sortType, list)
	if len(list) <= 8 {
		r.Case(fpList(sortType, list), !sameTriples(list, want))
	} else {
		// long lists: fingerprint by sort type, length and first three entries
		r.Case(fpList(sortType, list[:3])+fmt.Sprintf("|n=%d", len(list)), !sameTriples(list, want))
	}
	var got []Triple
	var pan interface{}
	func() {
		defer func() {
			if x := recover(); x != nil {
				pan = x
			}
		}()
		switch sortType {
		case "elements":
			es := make(osm.Elements, len(list))
			for i, t := range list {
				es[i] = elementOf(t)
			}
			es.Sort()
			for _, e := range es {
				got = append(got, tripleOfElement(e)) // read back from the objects, not from ids
			}
		case "elementids":
			ids := make(osm.ElementIDs, len(list))
			for i, t := range list {
				v, _ := packedOf("element", t)
				ids[i] = osm.ElementID(v)
			}
			ids.Sort()
			for _, id := range ids {
				t, _ := decodeElement(id)
				got = append(got, t)
			}
		case "featureids":
			ids := make(osm.FeatureIDs, len(list))
			for i, t := range list {
				v, _ := packedOf("feature", t)
				ids[i] = osm.FeatureID(v)
			}
			ids.Sort()
			for _, id := range ids {
				t, _ := decodeFeature(id)
				got = append(got, t)
			}
		default:
			kit.Fatalf("unknown sort type %q", sortType)
		}
	}()
	short := list
	if len(short) > 8 {
		short = short[:8]
	}
	if pan != nil {
		r.Violation("sort-panic/"+sortType, fmt.Sprintf("%s.Sort panicked: %v on %v", sortType, pan, short), Case{Family: "sort", IDType: sortType, List: list})
		return
	}
	if sortType == "elements" {
		// the per-kind sorts of the typed lists: the entries of one kind, by id, then version
		for _, kind := range []string{"node", "way", "relation"} {
			var sub []Triple
			for _, t := range list {
				if t.Kind == kind {
					sub = append(sub, t)
				}
			}
			if len(sub) == 0 {
				continue
			}
			var g []Triple
			var p interface{}
			func() {
				defer func() { p = recover() }()
				switch kind {
				case "node":
					ns := make(osm.Nodes, len(sub))
					for i, t := range sub {
						ns[i] = &osm.Node{ID: osm.NodeID(t.Ref), Version: t.Ver}
					}
					ns.SortByIDVersion()
					for _, n := range ns {
						g = append(g, Triple{Kind: kind, Ref: int64(n.ID), Ver: n.Version})
					}
				case "way":
					ws := make(osm.Ways, len(sub))
					for i, t := range sub {
						ws[i] = &osm.Way{ID: osm.WayID(t.Ref), Version: t.Ver}
					}
					ws.SortByIDVersion()
					for _, w := range ws {
						g = append(g, Triple{Kind: kind, Ref: int64(w.ID), Ver: w.Version})
					}
				default:
					rs := make(osm.Relations, len(sub))
					for i, t := range sub {
						rs[i] = &osm.Relation{ID: osm.RelationID(t.Ref), Version: t.Ver}
					}
					rs.SortByIDVersion()
					for _, x := range rs {
						g = append(g, Triple{Kind: kind, Ref: int64(x.ID), Ver: x.Version})
					}
				}
			}()
			bump(r, "typed_list_sorts")
			if w := sortedTriples("elements", sub); p != nil || !sameTriples(g, w) {
				r.Violation("sort/"+kind+"s.SortByIDVersion", fmt.Sprintf("SortByIDVersion on the %ss of %v...: got %v want %v (panic: %v)", kind, short, head(g, 0), head(w, 0), p),
					Case{Family: "sort", IDType: sortType, List: list})
			}
		}
	}
	if !sameTriples(got, want) {
		at := 0
		for at < len(got) && at < len(want) && got[at] == want[at] {
			at++
		}
		r.Violation("sort/"+sortType, fmt.Sprintf("%s.Sort on %v...: position %d differs from (type, id, version) order (got %v want %v)", sortType, short, at, head(got, at), head(want, at)),
			Case{Family: "sort", IDType: sortType, List: list})
	}
}

func head(l []Triple, at int) []Triple {
	if at >= len(l) {
		return nil
	}
	end := at + 3
	if end > len(l) {
		end = len(l)
	}
	return l[at:end]
}

func runSorts(r *kit.Run, thorough bool) {
	const top, half = refLimit - 1, int64(1) << 39
	elemPool := []Triple{
		{"node", 0, 0}, {"node", 0, 65535}, {"node", 1, 0}, {"node", top, 65535},
		{"way", 0, 0}, {"way", 0, 1}, {"way", half, 32768}, {"way", top, 0},
		{"relation", 0, 0}, {"relation", 1, 65535}, {"relation", half - 1, 1}, {"relation", top, 65535},
	}
	featPool := []Triple{
		{"node", 0, 0}, {"node", 1, 0}, {"node", half, 0}, {"node", top, 0},
		{"way", 0, 0}, {"way", 1, 0}, {"way", half, 0}, {"way", top, 0},
		{"relation", 0, 0}, {"relation", 1, 0}, {"relation", half, 0}, {"relation", top, 0},
	}
	k := 5
	if thorough {
		k = 6
		elemPool = append(elemPool, Triple{"node", half, 1}, Triple{"way", 1, 65535})
		featPool = append(featPool, Triple{"node", 65536, 0}, Triple{"relation", 65535, 0})
	}
	r.Set("sort_pool", len(elemPool))
	r.Set("sort_list_len", k)
	for _, st := range []string{"elements", "elementids", "featureids"} {
		pool := elemPool
		if st == "featureids" {
			pool = featPool
		}
		// every ordered selection of k distinct pool entries, parallel over the first two
		n := len(pool)
		var lists int64
		stt := st
		r.Par(n*n, func(b int) {
			i0, i1 := b/n, b%n
			if i0 == i1 {
				return
			}
			used := make([]bool, n)
			used[i0], used[i1] = true, true
			cur := []Triple{pool[i0], pool[i1]}
			var rec func()
			rec = func() {
				if len(cur) == k {
					checkSort(r, stt, cur)
					atomic.AddInt64(&lists, 1)
					return
				}
				for j := 0; j < n; j++ {
					if used[j] {
						continue
					}
					used[j] = true
					cur = append(cur, pool[j])
					rec()
					cur = cur[:len(cur)-1]
					used[j] = false
				}
			}
			rec()
		})
		// shorter lists 0..2 and repeats
		checkSort(r, st, nil)
		for i := range pool {
			checkSort(r, st, []Triple{pool[i]})
			for j := range pool {
				checkSort(r, st, []Triple{pool[i], pool[j]})
				lists++
			}
		}
		rep := []Triple{{"node", 1, 1}, {"node", 1, 2}, {"way", 1, 1}, {"relation", 0, 0}, {"node", 2, 0}}
		if st == "featureids" {
			rep = []Triple{{"node", 1, 0}, {"node", 2, 0}, {"way", 1, 0}, {"relation", 0, 0}, {"way", 0, 0}}
		}
		for x := 0; x < 625; x++ {
			l := []Triple{rep[x%5], rep[x/5%5], rep[x/25%5], rep[x/125%5]}
			checkSort(r, st, l)
			lists++
		}
		// long lists (beyond the insertion-sort cut-off of sort.Sort) in strided orders
		var long []Triple
		if st == "featureids" {
			long = triplesOver(reducedRefs(), []int64{0}, elementKinds)
		} else {
			long = triplesOver(reducedRefs(), reducedVers(), elementKinds)
		}
		long = sortedTriples(st, long)
		for _, stride := range []int{1, len(long) - 1, 7, 101, 577, 40} {
			if gcd(stride, len(long)) != 1 {
				continue
			}
			l := make([]Triple, len(long))
			for i := range l {
				l[i] = long[(i*stride)%len(long)]
			}
			checkSort(r, st, l)
			lists++
		}
		// lengths around the cut-offs of sort.Sort (insertion sort up to 12, ninther
		// from 50): reversed and organ-pipe orders of the first / a strided n ids
		for _, n := range []int{3, 11, 12, 13, 14, 49, 50, 51, 64} {
			if n > len(long) {
				continue
			}
			step := len(long) / n
			asc := make([]Triple, n)
			for i := range asc {
				asc[i] = long[i*step]
			}
			rev := make([]Triple, n)
			pipe := make([]Triple, 0, n)
			for i := range asc {
				rev[i] = asc[n-1-i]
			}
			for i := 0; i < n; i += 2 {
				pipe = append(pipe, asc[i])
			}
			for i := n - 1 - (n % 2); i > 0; i -= 2 {
				pipe = append(pipe, asc[i])
			}
			checkSort(r, st, rev)
			checkSort(r, st, pipe)
			checkSort(r, st, append(append([]Triple{}, rev...), asc...)) // every id twice
			lists += 3
		}
		r.Set("sort_lists_"+st, lists)
	}
	r.Sample(Case{Family: "sort", IDType: "elements", List: []Triple{elemPool[9], elemPool[3], elemPool[6], elemPool[0], elemPool[5]}})
}

func gcd(a, b int) int {
	for b != 0 {
		a, b = b, a%b
	}
	return a
}
