package main

import (
	"fmt"
	"github.com/paulmach/osm"
	"strconv"

	"verif/kit"
)

// Reference grammar for the textual form, three-valued (plus the shaped /
// canonical split):
//
//	invalid      the text does not have the kind/ref[:version] shape, or names an
//	             unknown kind: the parser must return an error
//	unspecified  the property does not say (skipped, counted)
//	shaped       kind/ref[:version] with a known kind, ref in [0,2^40), version in
//	             [0,2^16) ("-" or no version part = no version = 0): a successful
//	             parse must give exactly that id; `canonical` marks the texts that
//	             String() produces, which must parse.
const (
	invalid = iota
	unspecified
	shaped
)

type verdictT struct {
	verdict   int
	reason    string // class of the verdict, used in keys and counters
	t         Triple // shaped only
	canonical bool
}

func isDigits(s string) bool {
	if s == "" {
		return false
	}
	for i := 0; i < len(s); i++ {
		if s[i] < '0' || s[i] > '9' {
			return false
		}
	}
	return true
}

func isSigned(s string) bool {
	return len(s) >= 2 && (s[0] == '+' || s[0] == '-') && isDigits(s[1:])
}

// value of a digit string, saturating at limit (returns limit when >= limit)
func valueBelow(s string, limit int64) int64 {
	var v int64
	for i := 0; i < len(s); i++ {
		v = v*10 + int64(s[i]-'0')
		if v >= limit {
			return limit
		}
	}
	return v
}

func canonicalNumber(s string) bool { return s == "0" || (isDigits(s) && s[0] != '0') }

// classify is written from the property text, not from the parsers: it scans
// the string once for the separators.
func classify(parser, s string) verdictT {
	slash := -1
	for i := 0; i < len(s); i++ {
		if s[i] == '/' {
			if slash >= 0 {
				return verdictT{verdict: invalid, reason: "more-than-one-slash"}
			}
			slash = i
		}
	}
	if slash < 0 {
		return verdictT{verdict: invalid, reason: "no-slash"}
	}
	kind, rest := s[:slash], s[slash+1:]
	colon := -1
	for i := 0; i < len(rest); i++ {
		if rest[i] == ':' {
			if colon >= 0 {
				return verdictT{verdict: invalid, reason: "more-than-one-colon"}
			}
			colon = i
		}
	}
	refTxt, verTxt, hasVer := rest, "", false
	if colon >= 0 {
		refTxt, verTxt, hasVer = rest[:colon], rest[colon+1:], true
	}
	if !isKnownKind(kind) {
		return verdictT{verdict: invalid, reason: "unknown-kind"}
	}
	refNum, refSigned := isDigits(refTxt), isSigned(refTxt)
	if !refNum && !refSigned {
		return verdictT{verdict: invalid, reason: "ref-not-a-number"}
	}
	verNum, verSigned, verDash := false, false, false
	if hasVer {
		verNum, verSigned, verDash = isDigits(verTxt), isSigned(verTxt), verTxt == "-"
		if !verNum && !verSigned && !verDash {
			return verdictT{verdict: invalid, reason: "version-not-a-number"}
		}
	}
	// from here on the text has the shape with a known kind
	if refSigned || verSigned {
		return verdictT{verdict: unspecified, reason: "signed-number"}
	}
	ref := valueBelow(refTxt, refLimit)
	if ref >= refLimit {
		return verdictT{verdict: unspecified, reason: "ref-out-of-range"}
	}
	ver := int64(0)
	if verNum {
		ver = valueBelow(verTxt, verLimit)
		if ver >= verLimit {
			return verdictT{verdict: unspecified, reason: "version-out-of-range"}
		}
	}
	switch parser {
	case "object":
		if isVersionless(kind) && ver != 0 {
			return verdictT{verdict: unspecified, reason: "version-on-versionless-kind"}
		}
		if kind == "bounds" && ref != 0 {
			return verdictT{verdict: unspecified, reason: "ref-on-bounds"}
		}
	case "element":
		// element and feature identifiers only exist for node, way and relation:
		// for these two parsers every other kind is an unknown kind and must be
		// rejected, not turned into an id of a kind the identifier cannot carry
		if !isElementKind(kind) {
			return verdictT{verdict: invalid, reason: "kind-unknown-to-element-ids"}
		}
	case "feature":
		if !isElementKind(kind) {
			return verdictT{verdict: invalid, reason: "kind-unknown-to-feature-ids"}
		}
		if hasVer {
			return verdictT{verdict: unspecified, reason: "version-part-on-feature-id"}
		}
	}
	canon := canonicalNumber(refTxt)
	if parser == "feature" {
		canon = canon && !hasVer
	} else {
		// String() prints kind/ref:version, or kind/ref:- for version 0
		canon = canon && hasVer && (verDash || (canonicalNumber(verTxt) && ver != 0))
	}
	return verdictT{verdict: shaped, reason: "shaped", t: Triple{kind, ref, int(ver)}, canonical: canon}
}

func decodeAs(parser string, v int64) (Triple, interface{}) {
	switch parser {
	case "object":
		return decodeObject(osm.ObjectID(v))
	case "element":
		return decodeElement(osm.ElementID(v))
	}
	return decodeFeature(osm.FeatureID(v))
}

func checkParse(r *kit.Run, parser, s string) {
	g := classify(parser, s)
	if g.verdict == unspecified {
		bump(r, "parse_skipped_"+g.reason)
		return
	}
	nontrivial := g.verdict == shaped || (g.reason != "no-slash" && g.reason != "more-than-one-slash")
	r.Case("parse|"+parser+"|"+s, nontrivial)
	c := Case{Family: "parse", Parser: parser, Text: s}
	got, err, pan := parseWith(parser, s)
	if pan != nil {
		r.Violation("parse-panic/"+parser, fmt.Sprintf("Parse(%q) panicked: %v", s, pan), c)
		return
	}
	if g.verdict == invalid {
		bump(r, "parse_invalid_"+parser)
		if err == nil {
			r.Violation("reject/"+parser+"/"+g.reason, fmt.Sprintf("%s parser accepts %q (%s) as %#x", parser, s, g.reason, got), c)
		}
		return
	}
	bump(r, "parse_shaped_"+parser)
	if err != nil {
		if g.canonical {
			r.Violation("parse-rejects-canonical/"+parser+"/"+g.t.Kind, fmt.Sprintf("%s parser rejects %q, the textual form of %v: %v", parser, s, g.t, err), c)
		} else {
			bump(r, "parse_shaped_noncanonical_rejected")
		}
		return
	}
	dec, pan := decodeAs(parser, got)
	if pan != nil || dec != g.t {
		r.Violation("parse-wrong-id/"+parser+"/"+g.t.Kind, fmt.Sprintf("%s parser turns %q into %#x = %v (panic=%v), want %v", parser, s, got, dec, pan, g.t), c)
	}
}

var baseTokens = []string{"bounds", "node", "way", "relation", "changeset", "note", "user",
	"nod", "/", ":", "-", "0", "1", "7", "65535", "x", " "}
var extraTokens = []string{"1099511627775", "1099511627776", "65536", "+", "00", "\n", "Node", "_"}

var parsers = []string{"object", "element", "feature"}

func runParse(r *kit.Run, thorough bool) {
	tokens := baseTokens
	if thorough {
		tokens = append(append([]string{}, baseTokens...), extraTokens...)
	}
	const maxTokens = 5
	r.Set("parse_tokens", tokens)
	r.Set("parse_max_tokens", maxTokens)
	nt := len(tokens)
	var total int64
	count := 1
	for n := 0; n <= maxTokens; n++ {
		nn := n
		r.Par(count, func(i int) {
			buf := make([]byte, 0, 64)
			x := i
			for k := 0; k < nn; k++ {
				buf = append(buf, tokens[x%nt]...)
				x /= nt
			}
			s := string(buf)
			for _, p := range parsers {
				checkParse(r, p, s)
			}
		})
		total += int64(count)
		count *= nt
	}
	r.Set("parse_strings", total)

	// structured sub-family: kind "/" numeral [":" numeral], numerals over the
	// range boundaries, leading zeros, signs and junk (most token strings above
	// die at the first separator test; these all reach the number handling)
	numerals := []string{"", "0", "1", "7", "00", "007", "10", "65535", "65536", "065535", "1099511627775", "1099511627776",
		"01099511627775", "9223372036854775807", "9223372036854775808", "+1", "-1", "-0", "-", "x", "1x", " 1", "1 ", "0x10", "1e3", "1_0", "\u0661",
		// a dash that is not the whole version part, other white space and control
		// bytes, non-ASCII digits, very long numerals, other number syntaxes
		"-x", "--", "- ", "1-", "\t1", "1\t", "1\n", "1\r\n", "1\x00", "\uff11", "1\u00a0",
		"0000000000000000000000001", "00000000000000000000065535", "123456789012345678901234567890",
		"1.0", "1.", "1,0", "0b1", "0o7", "١٢"}
	// numbers beyond the 40 ref bits whose upper bits spell one of the kind masks of a packed
	// id (a parser that packs first and asks for the kind afterwards reads the kind off them)
	for _, sh := range []uint{40, 44, 48} {
		for k := int64(1); k <= 15; k++ {
			numerals = append(numerals, strconv.FormatInt(k<<sh|5, 10))
		}
	}
	kinds := append(append([]string{}, allKinds...), "nod", "nodes", "Node", "NODE", " node", "node ", "", "unknown", "element", "feature", "object",
		"nod\u00e9", "\uff4eode", "node\x00", "\tnode", "node\n", "n", "w", "r", "nodeway", "node,way", "*", "%s", "osm.node", "way\u200b")
	var structured []string
	for _, k := range kinds {
		for _, a := range numerals {
			structured = append(structured, k+"/"+a)
			for _, b := range numerals {
				structured = append(structured, k+"/"+a+":"+b)
			}
		}
	}
	// three fields after the kind: kind "/" a sep b sep c over both separators (a
	// text whose first fields are well formed but which goes on: second colon,
	// second slash). Token strings reach at most "kind/a:b" + one token.
	small := []string{"", "0", "1", "7", "-", "x", "65535"}
	for _, k := range []string{"node", "relation", "changeset", "bounds", "nod"} {
		for _, a := range small {
			for _, b := range small {
				for _, c := range small {
					for _, seps := range [][2]string{{":", ":"}, {":", "/"}, {"/", ":"}, {"/", "/"}} {
						structured = append(structured, k+"/"+a+seps[0]+b+seps[1]+c)
					}
				}
			}
		}
	}
	// affixes around well-formed texts (canonical and not), and texts with other
	// characters in the place of the separators
	wellFormed := []string{"node/1:1", "way/7:-", "relation/65535:65535", "node/1099511627775:65535", "changeset/1:-", "user/7", "note/0:-", "bounds/0:-",
		"node/1", "way/0", "relation/7:0", "node/0:-"}
	affixes := []string{" ", "\t", "\n", "\r\n", "\x00", "\u00a0", "\ufeff", "x", "/", ":", "-", "+", "0", "1", ".", ",", ";", "#", "?", "node/", "/1", ":1", "\"", "'", "(", ")"}
	for _, w := range wellFormed {
		for _, a := range affixes {
			structured = append(structured, a+w, w+a, a+w+a)
		}
		structured = append(structured, w+w, w+" "+w, w+","+w, w+"\n"+w)
	}
	for _, sep1 := range []string{"/", "\\", "\uff0f", "\u2215", ":", " ", "", "|", "-", ".", "//", "/ ", " /", "/\n"} {
		for _, sep2 := range []string{":", "\uff1a", ";", ".", ",", "@", "v", "#", "/", " ", "", "::", ": ", " :", "-", ":-", "_"} {
			for _, k := range []string{"node", "changeset"} {
				structured = append(structured, k+sep1+"1"+sep2+"2", k+sep1+"1"+sep2, k+sep1+"1"+sep2+"-")
			}
		}
	}
	r.Par(len(structured), func(i int) {
		for _, p := range parsers {
			checkParse(r, p, structured[i])
		}
	})
	r.Set("parse_structured_strings", len(structured))
	r.Sample(Case{Family: "parse", Parser: "element", Text: "way/65535:7"})
	r.Sample(Case{Family: "parse", Parser: "object", Text: "node/1:x"})
}
