// C10 — Packed object/element/feature ids are lossless, ordered and parseable.
//
// Bounded-exhaustive check in four families, all against reference models
// written here (triples of kind/ref/version, a lexicographic comparison, an
// insertion sort on triples, and a hand-written three-valued grammar):
//
//	triple  every constructible (kind, ref, version) over all bit-field
//	        boundaries: every constructor/conversion path decodes to the triple,
//	        all paths agree, packed values are injective, String -> Parse* round trips
//	pair    all ordered pairs of a boundary id set: integer order == (kind, ref, version) order
//	sort    Elements.Sort / ElementIDs.Sort / FeatureIDs.Sort on every ordered selection
//	        of k ids from a pool, on lists with repeats, and on long strided lists
//	list    the id helpers of collections on every sequence of <= 3 pool ids and on long lists
//	parse   every string of <= 5 tokens of a small alphabet through the three parsers, plus
//	        structured texts (kind/numeral[:numeral], three fields, affixes, odd separators)
package main

import (
	"fmt"

	"verif/kit"
)

// Triple is the reference identity of an id.
type Triple struct {
	Kind string `json:"kind"`
	Ref  int64  `json:"ref"`
	Ver  int    `json:"ver"`
}

func (t Triple) String() string { return fmt.Sprintf("%s/%d:%d", t.Kind, t.Ref, t.Ver) }

// Case is the replay format: exactly one failing case of one family.
type Case struct {
	Family string   `json:"family"`            // triple | pair | sort | list | parse
	IDType string   `json:"id_type,omitempty"` // object | element | feature (pair, sort: elements|elementids|featureids, list: helper name)
	T      *Triple  `json:"t,omitempty"`       // triple; pair: first
	U      *Triple  `json:"u,omitempty"`       // pair: second
	List   []Triple `json:"list,omitempty"`    // sort, list
	Parser string   `json:"parser,omitempty"`  // parse
	Text   string   `json:"text,omitempty"`    // parse
}

var allKinds = []string{"bounds", "node", "way", "relation", "changeset", "note", "user"}
var elementKinds = []string{"node", "way", "relation"}

func isElementKind(k string) bool { return k == "node" || k == "way" || k == "relation" }
func isVersionless(k string) bool {
	return k == "changeset" || k == "note" || k == "user" || k == "bounds"
}
func isKnownKind(k string) bool {
	for _, x := range allKinds {
		if x == k {
			return true
		}
	}
	return false
}

// ---- boundary sets ----------------------------------------------------------

const refLimit = int64(1) << 40
const verLimit = 1 << 16

func addU(set []int64, v int64, limit int64) []int64 {
	if v < 0 || v >= limit {
		return set
	}
	for _, x := range set {
		if x == v {
			return set
		}
	}
	return append(set, v)
}

// fullRefs: {0,1,2} ∪ {2^k−1, 2^k, 2^k+1 : k=1..39} ∪ {2^40−1}
func fullRefs() []int64 {
	s := []int64{}
	for _, v := range []int64{0, 1, 2} {
		s = addU(s, v, refLimit)
	}
	for k := 1; k <= 39; k++ {
		p := int64(1) << uint(k)
		s = addU(s, p-1, refLimit)
		s = addU(s, p, refLimit)
		s = addU(s, p+1, refLimit)
	}
	s = addU(s, refLimit-1, refLimit)
	s = addU(s, refLimit-2, refLimit)
	s = addU(s, 0x5555555555, refLimit) // alternating bits
	s = addU(s, 0xAAAAAAAAAA, refLimit)
	return sortInts(s)
}

// fullVers: {0,1,2} ∪ {2^k−1, 2^k : k=1..15} ∪ {65535}
func fullVers() []int64 {
	s := []int64{}
	for _, v := range []int64{0, 1, 2} {
		s = addU(s, v, verLimit)
	}
	for k := 1; k <= 15; k++ {
		p := int64(1) << uint(k)
		s = addU(s, p-1, verLimit)
		s = addU(s, p, verLimit)
	}
	s = addU(s, verLimit-1, verLimit)
	s = addU(s, verLimit-2, verLimit)
	s = addU(s, 0x5555, verLimit)
	s = addU(s, 0xAAAA, verLimit)
	return sortInts(s)
}

// decimal-width boundaries of the textual form: 10^k-1, 10^k, 10^k+1 below limit
func decimalEdges(limit int64) []int64 {
	var s []int64
	for p := int64(10); p-1 < limit; p *= 10 {
		s = addU(s, p-1, limit)
		s = addU(s, p, limit)
		s = addU(s, p+1, limit)
	}
	return s
}

// tripleRefs / tripleVers: the sets of the triple family = the bit-boundary sets
// plus the decimal-width boundaries (the width of the printed number changes
// there; 10^12 is the last one below 2^40, 10^4 below 2^16) and 2^k+1 for
// versions. The pair family keeps the bit-boundary sets: integer order does not
// depend on the decimal form.
func tripleRefs() []int64 {
	s := fullRefs()
	for _, v := range decimalEdges(refLimit) {
		s = addU(s, v, refLimit)
	}
	return sortInts(s)
}

func tripleVers() []int64 {
	s := fullVers()
	for k := 1; k <= 15; k++ {
		s = addU(s, int64(1)<<uint(k)+1, verLimit)
	}
	for _, v := range decimalEdges(verLimit) {
		s = addU(s, v, verLimit)
	}
	return sortInts(s)
}

// reduced sets for the pair family (every byte boundary, both ends, bit 39/15)
func reducedRefs() []int64 {
	s := []int64{}
	for _, v := range []int64{0, 1, 2, 255, 256, 257, 65535, 65536, 65537, 1<<24 - 1, 1 << 24, 1<<31 - 1, 1 << 31, 1<<32 - 1, 1 << 32, 1<<32 + 1,
		1<<38 - 1, 1 << 38, 1<<39 - 1, 1 << 39, 1<<39 + 1, 1<<40 - 2, 1<<40 - 1, 0x5555555555, 0xAAAAAAAAAA, 1<<16 - 2, 1<<8 - 2, 3, 1<<36 - 1, 1 << 36, 1 << 20} {
		s = addU(s, v, refLimit)
	}
	return sortInts(s)
}

func reducedVers() []int64 {
	s := []int64{}
	for _, v := range []int64{0, 1, 2, 127, 128, 255, 256, 257, 32767, 32768, 65534, 65535, 0x5555} {
		s = addU(s, v, verLimit)
	}
	return sortInts(s)
}

func sortInts(s []int64) []int64 {
	for i := 1; i < len(s); i++ {
		for j := i; j > 0 && s[j-1] > s[j]; j-- {
			s[j-1], s[j] = s[j], s[j-1]
		}
	}
	return s
}

// constructible triples over the given boundary sets: element kinds take every
// (ref, version); changeset/note/user have no version (version 0); bounds has
// neither (0, 0).
func triplesOver(refs, vers []int64, kinds []string) []Triple {
	var out []Triple
	for _, k := range kinds {
		switch {
		case k == "bounds":
			out = append(out, Triple{k, 0, 0})
		case isVersionless(k):
			for _, r := range refs {
				out = append(out, Triple{k, r, 0})
			}
		default:
			for _, r := range refs {
				for _, v := range vers {
					out = append(out, Triple{k, r, int(v)})
				}
			}
		}
	}
	return out
}

func main() {
	kit.Main("C10", "exploration", func(r *kit.Run) {
		r.Rule("five exhaustive families. triple: every constructible (kind, ref, version) with ref/version from the bit-boundary sets (2^k-1, 2^k, 2^k+1, ends, alternating bits) and the decimal-width boundaries (10^k-1, 10^k, 10^k+1), plus every version in [0, 2^16) on a few refs per element kind; non-trivial when ref>=2 or version>=2, distinct by triple. pair: every ordered pair of the boundary id set per id type; fingerprint = comparison shape (id type, kinds, deciding component, highest differing bit of it, whether lower components point the other way), non-trivial when the ids differ. sort: every ordered selection of k ids from a pool, every length-4 sequence with repeats from 5 ids, long strided lists; non-trivial when the input is not already sorted; distinct by (sort, list). list: every id helper of a collection on every sequence (with repeats) of <= 3 pool ids and on long lists; non-trivial when the list has two or more entries; distinct by (helper, list). parse: every concatenation of <=5 tokens x 3 parsers plus the structured texts; non-trivial when the text has exactly one '/' and a known kind or a well-formed remainder; distinct by (parser, text).")
		r.Assume("kinds other than node<way<relation: the property fixes no rank; their rank is taken from the library's own (kind,0,0) ids and only consistency (kind blocks do not interleave, order inside a block is (ref, version)) is required")
		r.Assume("text classes the property does not pin down are skipped and counted: signed numbers, ref >= 2^40, version > 65535, a version on changeset/note/user/bounds, a non-zero ref on bounds, non-element kinds given to ParseElementID/ParseFeatureID, a version part given to ParseFeatureID")
		r.Assume("the order in which *OSM groups its ids by kind is not fixed by the property: results of OSM.ElementIDs / FeatureIDs / Objects are compared as multisets")
		r.Assume("text with the kind/ref[:version] shape that is not the canonical String() output (leading zeros, ':0', missing version) may be rejected or accepted, but if accepted must give the denoted id")
		if r.ReplayPath != "" {
			var c Case
			r.LoadReplay(&c)
			replay(r, c)
			return
		}
		thorough := !r.Quick()
		runTriples(r, thorough)
		runPairs(r, thorough)
		runSorts(r, thorough)
		runLists(r, thorough)
		runParse(r, thorough)
	})
}

func replay(r *kit.Run, c Case) {
	switch c.Family {
	case "triple":
		res := checkTriple(r, *c.T)
		// injectivity needs the partner: replay files of that clause carry U
		if c.U != nil {
			other := checkTriple(r, *c.U)
			checkInjectivePair(r, *c.T, res, *c.U, other)
		}
	case "pair":
		checkPair(r, c.IDType, *c.T, *c.U, kindRanks(r), nil)
	case "sort":
		checkSort(r, c.IDType, c.List)
	case "list":
		checkList(r, c.IDType, c.List)
	case "parse":
		checkParse(r, c.Parser, c.Text)
	default:
		kit.Fatalf("unknown replay family %q", c.Family)
	}
}
