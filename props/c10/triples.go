package main

import (
	"fmt"
	"sync"
	"sync/atomic"

	"github.com/paulmach/osm"

	"verif/kit"
)

// bump increments a named evidence counter without taking kit's global lock on
// every call.
var counters sync.Map

func bump(r *kit.Run, name string) {
	c, ok := counters.Load(name)
	if !ok {
		c, _ = counters.LoadOrStore(name, r.Counter(name))
	}
	atomic.AddInt64(c.(*int64), 1)
}

type path struct {
	name string
	f    func() int64
}

// packedIDs is what the primary constructors returned for a triple.
type packedIDs struct {
	obj, el, fe          int64
	hasObj, hasEl, hasFe bool
}

func call(f func() int64) (v int64, p interface{}) {
	defer func() {
		if x := recover(); x != nil {
			p = x
		}
	}()
	return f(), nil
}

// decoders under recover (Type() panics on an unknown type nibble)
func decodeObject(id osm.ObjectID) (t Triple, p interface{}) {
	defer func() {
		if x := recover(); x != nil {
			p = x
		}
	}()
	return Triple{string(id.Type()), id.Ref(), id.Version()}, nil
}
func decodeElement(id osm.ElementID) (t Triple, p interface{}) {
	defer func() {
		if x := recover(); x != nil {
			p = x
		}
	}()
	return Triple{string(id.Type()), id.Ref(), id.Version()}, nil
}
func decodeFeature(id osm.FeatureID) (t Triple, p interface{}) {
	defer func() {
		if x := recover(); x != nil {
			p = x
		}
	}()
	return Triple{string(id.Type()), id.Ref(), 0}, nil
}

// paths returns every public way to obtain the object / element / feature id of
// the triple. The first entry of each list is the primary constructor.
func paths(t Triple) (obj, el, fe []path) {
	v := t.Ver
	typ := osm.Type(t.Kind)
	switch t.Kind {
	case "node":
		id := osm.NodeID(t.Ref)
		n := &osm.Node{ID: id, Version: v}
		wn := osm.WayNode{ID: id, Version: v}
		obj = []path{
			{"NodeID.ObjectID", func() int64 { return int64(id.ObjectID(v)) }},
			{"Node.ObjectID", func() int64 { return int64(n.ObjectID()) }},
			{"Objects.ObjectIDs", func() int64 { return int64(osm.Objects{n}.ObjectIDs()[0]) }},
			{"OSM.Objects.ObjectIDs", func() int64 { return int64((&osm.OSM{Nodes: osm.Nodes{n}}).Objects().ObjectIDs()[0]) }},
		}
		el = []path{
			{"NodeID.ElementID", func() int64 { return int64(id.ElementID(v)) }},
			{"Node.ElementID", func() int64 { return int64(n.ElementID()) }},
			{"WayNode.ElementID", func() int64 { return int64(wn.ElementID()) }},
			{"WayNodes.ElementIDs", func() int64 { return int64(osm.WayNodes{wn}.ElementIDs()[0]) }},
			{"Nodes.ElementIDs", func() int64 { return int64(osm.Nodes{n}.ElementIDs()[0]) }},
			{"Elements.ElementIDs", func() int64 { return int64(osm.Elements{n}.ElementIDs()[0]) }},
			{"OSM.ElementIDs", func() int64 { return int64((&osm.OSM{Nodes: osm.Nodes{n}}).ElementIDs()[0]) }},
		}
		fe = []path{
			{"NodeID.FeatureID", func() int64 { return int64(id.FeatureID()) }},
			{"Node.FeatureID", func() int64 { return int64(n.FeatureID()) }},
			{"WayNode.FeatureID", func() int64 { return int64(wn.FeatureID()) }},
			{"WayNodes.FeatureIDs", func() int64 { return int64(osm.WayNodes{wn}.FeatureIDs()[0]) }},
			{"Nodes.FeatureIDs", func() int64 { return int64(osm.Nodes{n}.FeatureIDs()[0]) }},
			{"Elements.FeatureIDs", func() int64 { return int64(osm.Elements{n}.FeatureIDs()[0]) }},
			{"OSM.FeatureIDs", func() int64 { return int64((&osm.OSM{Nodes: osm.Nodes{n}}).FeatureIDs()[0]) }},
		}
	case "way":
		id := osm.WayID(t.Ref)
		w := &osm.Way{ID: id, Version: v}
		obj = []path{
			{"WayID.ObjectID", func() int64 { return int64(id.ObjectID(v)) }},
			{"Way.ObjectID", func() int64 { return int64(w.ObjectID()) }},
			{"Objects.ObjectIDs", func() int64 { return int64(osm.Objects{w}.ObjectIDs()[0]) }},
			{"OSM.Objects.ObjectIDs", func() int64 { return int64((&osm.OSM{Ways: osm.Ways{w}}).Objects().ObjectIDs()[0]) }},
		}
		el = []path{
			{"WayID.ElementID", func() int64 { return int64(id.ElementID(v)) }},
			{"Way.ElementID", func() int64 { return int64(w.ElementID()) }},
			{"Ways.ElementIDs", func() int64 { return int64(osm.Ways{w}.ElementIDs()[0]) }},
			{"Elements.ElementIDs", func() int64 { return int64(osm.Elements{w}.ElementIDs()[0]) }},
			{"OSM.ElementIDs", func() int64 { return int64((&osm.OSM{Ways: osm.Ways{w}}).ElementIDs()[0]) }},
		}
		fe = []path{
			{"WayID.FeatureID", func() int64 { return int64(id.FeatureID()) }},
			{"Way.FeatureID", func() int64 { return int64(w.FeatureID()) }},
			{"Ways.FeatureIDs", func() int64 { return int64(osm.Ways{w}.FeatureIDs()[0]) }},
			{"Elements.FeatureIDs", func() int64 { return int64(osm.Elements{w}.FeatureIDs()[0]) }},
			{"OSM.FeatureIDs", func() int64 { return int64((&osm.OSM{Ways: osm.Ways{w}}).FeatureIDs()[0]) }},
		}
	case "relation":
		id := osm.RelationID(t.Ref)
		rel := &osm.Relation{ID: id, Version: v}
		obj = []path{
			{"RelationID.ObjectID", func() int64 { return int64(id.ObjectID(v)) }},
			{"Relation.ObjectID", func() int64 { return int64(rel.ObjectID()) }},
			{"Objects.ObjectIDs", func() int64 { return int64(osm.Objects{rel}.ObjectIDs()[0]) }},
			{"OSM.Objects.ObjectIDs", func() int64 { return int64((&osm.OSM{Relations: osm.Relations{rel}}).Objects().ObjectIDs()[0]) }},
		}
		el = []path{
			{"RelationID.ElementID", func() int64 { return int64(id.ElementID(v)) }},
			{"Relation.ElementID", func() int64 { return int64(rel.ElementID()) }},
			{"Relations.ElementIDs", func() int64 { return int64(osm.Relations{rel}.ElementIDs()[0]) }},
			{"Elements.ElementIDs", func() int64 { return int64(osm.Elements{rel}.ElementIDs()[0]) }},
			{"OSM.ElementIDs", func() int64 { return int64((&osm.OSM{Relations: osm.Relations{rel}}).ElementIDs()[0]) }},
		}
		fe = []path{
			{"RelationID.FeatureID", func() int64 { return int64(id.FeatureID()) }},
			{"Relation.FeatureID", func() int64 { return int64(rel.FeatureID()) }},
			{"Relations.FeatureIDs", func() int64 { return int64(osm.Relations{rel}.FeatureIDs()[0]) }},
			{"Elements.FeatureIDs", func() int64 { return int64(osm.Elements{rel}.FeatureIDs()[0]) }},
			{"OSM.FeatureIDs", func() int64 { return int64((&osm.OSM{Relations: osm.Relations{rel}}).FeatureIDs()[0]) }},
		}
	case "changeset":
		id := osm.ChangesetID(t.Ref)
		c := &osm.Changeset{ID: id}
		obj = []path{
			{"ChangesetID.ObjectID", func() int64 { return int64(id.ObjectID()) }},
			{"Changeset.ObjectID", func() int64 { return int64(c.ObjectID()) }},
			{"Objects.ObjectIDs", func() int64 { return int64(osm.Objects{c}.ObjectIDs()[0]) }},
		}
	case "note":
		id := osm.NoteID(t.Ref)
		c := &osm.Note{ID: id}
		obj = []path{
			{"NoteID.ObjectID", func() int64 { return int64(id.ObjectID()) }},
			{"Note.ObjectID", func() int64 { return int64(c.ObjectID()) }},
			{"Objects.ObjectIDs", func() int64 { return int64(osm.Objects{c}.ObjectIDs()[0]) }},
		}
	case "user":
		id := osm.UserID(t.Ref)
		c := &osm.User{ID: id}
		obj = []path{
			{"UserID.ObjectID", func() int64 { return int64(id.ObjectID()) }},
			{"User.ObjectID", func() int64 { return int64(c.ObjectID()) }},
			{"Objects.ObjectIDs", func() int64 { return int64(osm.Objects{c}.ObjectIDs()[0]) }},
		}
	case "bounds":
		b := &osm.Bounds{MinLat: 1, MaxLat: 2}
		var nb *osm.Bounds
		obj = []path{
			{"Bounds.ObjectID", func() int64 { return int64(b.ObjectID()) }},
			{"nil-Bounds.ObjectID", func() int64 { return int64(nb.ObjectID()) }},
			{"Objects.ObjectIDs", func() int64 { return int64(osm.Objects{b}.ObjectIDs()[0]) }},
		}
	}
	if isElementKind(t.Kind) {
		m := osm.Member{Type: typ, Ref: t.Ref, Version: v, Role: "x"}
		el = append(el,
			path{"Member.ElementID", func() int64 { return int64(m.ElementID()) }},
			path{"Members.ElementIDs", func() int64 { return int64(osm.Members{m}.ElementIDs()[0]) }},
			path{"FeatureID.ElementID", func() int64 { return int64(osm.FeatureID(fe[0].f()).ElementID(v)) }},
			path{"Type.FeatureID.ElementID", func() int64 {
				f, err := typ.FeatureID(t.Ref)
				if err != nil {
					panic(err)
				}
				return int64(f.ElementID(v))
			}},
		)
		fe = append(fe,
			path{"Member.FeatureID", func() int64 { return int64(m.FeatureID()) }},
			path{"Members.FeatureIDs", func() int64 { return int64(osm.Members{m}.FeatureIDs()[0]) }},
			path{"ElementID.FeatureID", func() int64 { return int64(osm.ElementID(el[0].f()).FeatureID()) }},
			path{"Type.FeatureID", func() int64 {
				f, err := typ.FeatureID(t.Ref)
				if err != nil {
					panic(err)
				}
				return int64(f)
			}},
		)
		obj = append(obj,
			path{"ElementID.ObjectID", func() int64 { return int64(osm.ElementID(el[0].f()).ObjectID()) }},
			path{"FeatureID.ObjectID", func() int64 { return int64(osm.FeatureID(fe[0].f()).ObjectID(v)) }},
		)
	}
	return
}

func tripleCase(t Triple) Case { tt := t; return Case{Family: "triple", T: &tt} }

// checkTriple runs every path of one triple and the String -> Parse round trips.
func checkTriple(r *kit.Run, t Triple) packedIDs {
	r.Case("triple|"+t.String(), t.Ref >= 2 || t.Ver >= 2)
	var res packedIDs
	obj, el, fe := paths(t)
	wantFe := Triple{t.Kind, t.Ref, 0}

	for i, p := range obj {
		v, pan := call(p.f)
		if pan != nil {
			r.Violation("construct-panic/"+p.name, fmt.Sprintf("%s panicked for %v: %v", p.name, t, pan), tripleCase(t))
			continue
		}
		bump(r, "paths_object")
		got, pan := decodeObject(osm.ObjectID(v))
		if pan != nil || got != t {
			r.Violation("decode/object/"+p.name, fmt.Sprintf("%s(%v) = %#x decodes to %v (panic=%v)", p.name, t, v, got, pan), tripleCase(t))
		}
		if i == 0 {
			res.obj, res.hasObj = v, true
		} else if res.hasObj && v != res.obj {
			r.Violation("paths-disagree/object/"+p.name, fmt.Sprintf("%s(%v) = %#x but %s = %#x", p.name, t, v, obj[0].name, res.obj), tripleCase(t))
		}
	}
	for i, p := range el {
		v, pan := call(p.f)
		if pan != nil {
			r.Violation("construct-panic/"+p.name, fmt.Sprintf("%s panicked for %v: %v", p.name, t, pan), tripleCase(t))
			continue
		}
		bump(r, "paths_element")
		got, pan := decodeElement(osm.ElementID(v))
		if pan != nil || got != t {
			r.Violation("decode/element/"+p.name, fmt.Sprintf("%s(%v) = %#x decodes to %v (panic=%v)", p.name, t, v, got, pan), tripleCase(t))
		}
		if i == 0 {
			res.el, res.hasEl = v, true
		} else if res.hasEl && v != res.el {
			r.Violation("paths-disagree/element/"+p.name, fmt.Sprintf("%s(%v) = %#x but %s = %#x", p.name, t, v, el[0].name, res.el), tripleCase(t))
		}
	}
	for i, p := range fe {
		v, pan := call(p.f)
		if pan != nil {
			r.Violation("construct-panic/"+p.name, fmt.Sprintf("%s panicked for %v: %v", p.name, t, pan), tripleCase(t))
			continue
		}
		bump(r, "paths_feature")
		got, pan := decodeFeature(osm.FeatureID(v))
		if pan != nil || got != wantFe {
			r.Violation("decode/feature/"+p.name, fmt.Sprintf("%s(%v) = %#x decodes to %v (panic=%v)", p.name, t, v, got, pan), tripleCase(t))
		}
		if i == 0 {
			res.fe, res.hasFe = v, true
		} else if res.hasFe && v != res.fe {
			r.Violation("paths-disagree/feature/"+p.name, fmt.Sprintf("%s(%v) = %#x but %s = %#x", p.name, t, v, fe[0].name, res.fe), tripleCase(t))
		}
	}

	// typed ref accessors of the matching kind
	if isElementKind(t.Kind) && res.hasEl && res.hasFe {
		e, f := osm.ElementID(res.el), osm.FeatureID(res.fe)
		var acc []path
		switch t.Kind {
		case "node":
			acc = []path{{"ElementID.NodeID", func() int64 { return int64(e.NodeID()) }}, {"FeatureID.NodeID", func() int64 { return int64(f.NodeID()) }}}
		case "way":
			acc = []path{{"ElementID.WayID", func() int64 { return int64(e.WayID()) }}, {"FeatureID.WayID", func() int64 { return int64(f.WayID()) }}}
		case "relation":
			acc = []path{{"ElementID.RelationID", func() int64 { return int64(e.RelationID()) }}, {"FeatureID.RelationID", func() int64 { return int64(f.RelationID()) }}}
		}
		for _, p := range acc {
			v, pan := call(p.f)
			if pan != nil || v != t.Ref {
				r.Violation("decode/typed-ref/"+p.name, fmt.Sprintf("%s of %v = %d (panic=%v)", p.name, t, v, pan), tripleCase(t))
			}
		}
	}

	// textual form: has the shape, denotes the triple, parses back to the same id
	if res.hasObj {
		roundTrip(r, t, "object", res.obj)
	}
	if res.hasEl {
		roundTrip(r, t, "element", res.el)
	}
	if res.hasFe {
		roundTrip(r, t, "feature", res.fe)
	}
	return res
}

// checkTripleLight: the primary constructors of an element triple, their
// decoders, the typed accessors and the text round trips (no secondary paths).
func checkTripleLight(r *kit.Run, t Triple) packedIDs {
	r.Case("triple|"+t.String(), t.Ref >= 2 || t.Ver >= 2)
	var res packedIDs
	var pan interface{}
	func() {
		defer func() {
			if x := recover(); x != nil {
				pan = x
			}
		}()
		switch t.Kind {
		case "node":
			id := osm.NodeID(t.Ref)
			res.obj, res.el, res.fe = int64(id.ObjectID(t.Ver)), int64(id.ElementID(t.Ver)), int64(id.FeatureID())
		case "way":
			id := osm.WayID(t.Ref)
			res.obj, res.el, res.fe = int64(id.ObjectID(t.Ver)), int64(id.ElementID(t.Ver)), int64(id.FeatureID())
		case "relation":
			id := osm.RelationID(t.Ref)
			res.obj, res.el, res.fe = int64(id.ObjectID(t.Ver)), int64(id.ElementID(t.Ver)), int64(id.FeatureID())
		default:
			kit.Fatalf("checkTripleLight: not an element kind: %v", t)
		}
	}()
	if pan != nil {
		r.Violation("construct-panic/primary", fmt.Sprintf("primary constructors panicked for %v: %v", t, pan), tripleCase(t))
		return packedIDs{}
	}
	res.hasObj, res.hasEl, res.hasFe = true, true, true
	bump(r, "paths_light")
	if got, p := decodeObject(osm.ObjectID(res.obj)); p != nil || got != t {
		r.Violation("decode/object/primary", fmt.Sprintf("object id of %v = %#x decodes to %v (panic=%v)", t, res.obj, got, p), tripleCase(t))
	}
	if got, p := decodeElement(osm.ElementID(res.el)); p != nil || got != t {
		r.Violation("decode/element/primary", fmt.Sprintf("element id of %v = %#x decodes to %v (panic=%v)", t, res.el, got, p), tripleCase(t))
	}
	if got, p := decodeFeature(osm.FeatureID(res.fe)); p != nil || got != (Triple{t.Kind, t.Ref, 0}) {
		r.Violation("decode/feature/primary", fmt.Sprintf("feature id of %v = %#x decodes to %v (panic=%v)", t, res.fe, got, p), tripleCase(t))
	}
	if v, p := call(func() int64 { return int64(osm.ElementID(res.el).FeatureID()) }); p != nil || v != res.fe {
		r.Violation("paths-disagree/feature/ElementID.FeatureID", fmt.Sprintf("ElementID.FeatureID of %v = %#x (panic=%v), feature id = %#x", t, v, p, res.fe), tripleCase(t))
	}
	if v, p := call(func() int64 { return int64(osm.FeatureID(res.fe).ElementID(t.Ver)) }); p != nil || v != res.el {
		r.Violation("paths-disagree/element/FeatureID.ElementID", fmt.Sprintf("FeatureID.ElementID of %v = %#x (panic=%v), element id = %#x", t, v, p, res.el), tripleCase(t))
	}
	roundTrip(r, t, "object", res.obj)
	roundTrip(r, t, "element", res.el)
	return res
}

func stringOf(parser string, v int64) (s string, p interface{}) {
	defer func() {
		if x := recover(); x != nil {
			p = x
		}
	}()
	switch parser {
	case "object":
		return osm.ObjectID(v).String(), nil
	case "element":
		return osm.ElementID(v).String(), nil
	}
	return osm.FeatureID(v).String(), nil
}

func parseWith(parser, s string) (v int64, err error, p interface{}) {
	defer func() {
		if x := recover(); x != nil {
			p = x
		}
	}()
	switch parser {
	case "object":
		id, e := osm.ParseObjectID(s)
		return int64(id), e, nil
	case "element":
		id, e := osm.ParseElementID(s)
		return int64(id), e, nil
	}
	id, e := osm.ParseFeatureID(s)
	return int64(id), e, nil
}

func roundTrip(r *kit.Run, t Triple, parser string, v int64) {
	bump(r, "string_parse_roundtrips")
	s, pan := stringOf(parser, v)
	if pan != nil {
		r.Violation("string-panic/"+parser, fmt.Sprintf("String() of %s id %#x (%v) panicked: %v", parser, v, t, pan), tripleCase(t))
		return
	}
	want := t
	if parser == "feature" {
		want.Ver = 0
	}
	// the textual form has the kind/ref[:version] shape and denotes the triple
	g := classify(parser, s)
	if g.verdict != shaped || g.t != want {
		r.Violation("string-shape/"+parser+"/"+t.Kind, fmt.Sprintf("%s id of %v prints as %q: not the kind/ref[:version] form of that id (%s)", parser, t, s, g.reason), tripleCase(t))
	}
	got, err, pan := parseWith(parser, s)
	if pan != nil {
		r.Violation("parse-panic/"+parser, fmt.Sprintf("Parse of %q panicked: %v", s, pan), tripleCase(t))
		return
	}
	if err != nil {
		r.Violation("string-parse/"+parser+"/"+t.Kind+"/error", fmt.Sprintf("%s id of %v prints as %q which does not parse: %v", parser, t, s, err), tripleCase(t))
		return
	}
	if got != v {
		r.Violation("string-parse/"+parser+"/"+t.Kind+"/different-id", fmt.Sprintf("%s id %#x of %v prints as %q which parses to %#x", parser, v, t, s, got), tripleCase(t))
	}
	// element text is also valid object text for the same id
	if parser == "element" {
		got, err, pan := parseWith("object", s)
		if pan != nil || err != nil || got != v {
			r.Violation("string-parse/element-text-as-object/"+t.Kind, fmt.Sprintf("element id %#x of %v prints as %q; ParseObjectID gives %#x err=%v panic=%v", v, t, s, got, err, pan), tripleCase(t))
		}
	}
}

func checkInjectivePair(r *kit.Run, a Triple, pa packedIDs, b Triple, pb packedIDs) {
	c := Case{Family: "triple", T: &a, U: &b}
	if a == b {
		return
	}
	if pa.hasObj && pb.hasObj && pa.obj == pb.obj {
		r.Violation("injective/object/"+a.Kind+"-"+b.Kind, fmt.Sprintf("%v and %v share object id %#x", a, b, pa.obj), c)
	}
	if pa.hasEl && pb.hasEl && pa.el == pb.el {
		r.Violation("injective/element/"+a.Kind+"-"+b.Kind, fmt.Sprintf("%v and %v share element id %#x", a, b, pa.el), c)
	}
	if pa.hasFe && pb.hasFe && pa.fe == pb.fe && (a.Kind != b.Kind || a.Ref != b.Ref) {
		r.Violation("injective/feature/"+a.Kind+"-"+b.Kind, fmt.Sprintf("%v and %v share feature id %#x", a, b, pa.fe), c)
	}
}

func runTriples(r *kit.Run, thorough bool) {
	refs, vers := tripleRefs(), tripleVers()
	ts := triplesOver(refs, vers, allKinds)
	// "every version in [0, 2^16)": the full version range on a few refs of every
	// element kind (not only the boundary versions). Quick: primary constructors,
	// decoders and text round trip only (checkTripleLight); thorough: every path.
	sweepRefs := []int64{0x5555555555}
	if thorough {
		sweepRefs = []int64{0, 1, 1 << 39, refLimit - 1, 0x5555555555, 0xAAAAAAAAAA, 999999999999, 1000000000000}
	}
	have := make(map[Triple]bool, len(ts))
	for _, t := range ts {
		have[t] = true
	}
	nFull := len(ts)
	for _, k := range elementKinds {
		for _, ref := range sweepRefs {
			for v := 0; v < verLimit; v++ {
				t := Triple{k, ref, v}
				if !have[t] {
					ts = append(ts, t)
				}
			}
		}
	}
	if thorough {
		nFull = len(ts)
	}
	r.Set("triple_version_sweep_refs", len(sweepRefs))
	r.Set("triple_version_sweep_added", len(ts)-len(have))
	res := make([]packedIDs, len(ts))
	r.Par(nFull, func(i int) { res[i] = checkTriple(r, ts[i]) })
	if nFull < len(ts) {
		const chunk = 1024
		rest := len(ts) - nFull
		r.Par((rest+chunk-1)/chunk, func(c int) {
			for i := nFull + c*chunk; i < len(ts) && i < nFull+(c+1)*chunk; i++ {
				res[i] = checkTripleLight(r, ts[i])
			}
		})
	}
	for _, i := range []int{len(ts) / 7, len(ts) / 2} {
		r.Sample(tripleCase(ts[i]))
	}
	// injectivity: packed value -> first triple that produced it (deterministic order)
	seenObj, seenEl, seenFe := map[int64]int{}, map[int64]int{}, map[int64]int{}
	for i, t := range ts {
		p := res[i]
		if p.hasObj {
			if j, ok := seenObj[p.obj]; ok {
				checkInjectivePair(r, ts[j], packedIDs{obj: p.obj, hasObj: true}, t, packedIDs{obj: p.obj, hasObj: true})
			} else {
				seenObj[p.obj] = i
			}
		}
		if p.hasEl {
			if j, ok := seenEl[p.el]; ok {
				checkInjectivePair(r, ts[j], packedIDs{el: p.el, hasEl: true}, t, packedIDs{el: p.el, hasEl: true})
			} else {
				seenEl[p.el] = i
			}
		}
		if p.hasFe {
			if j, ok := seenFe[p.fe]; ok {
				checkInjectivePair(r, ts[j], packedIDs{fe: p.fe, hasFe: true}, t, packedIDs{fe: p.fe, hasFe: true})
			} else {
				seenFe[p.fe] = i
			}
		}
	}
	r.Set("distinct_object_ids", len(seenObj))
	r.Set("distinct_element_ids", len(seenEl))
	r.Set("distinct_feature_ids", len(seenFe))
}
