package main

import (
	"fmt"
	"reflect"
	"sort"
	"strings"

	"github.com/paulmach/osm"

	"verif/kit"
)

// list family: the id helpers of collections (Elements, Objects, Nodes, Ways,
// Relations, WayNodes, Members, OSM) on lists of 0, 1, 2 and 3 entries (every
// sequence with repeats over a pool of boundary ids of mixed kinds) and on one
// long list. The triple family hands every helper a single entry; here the
// i-th id of the result has to decode to the i-th entry (for *OSM, whose
// grouping by kind the property does not fix, the ids are compared as a
// multiset), and Counts has to give the number of entries of each kind.

type listHelper struct {
	name    string
	idType  string // object | element | feature: how the result is decoded
	ordered bool
	ok      func(list []Triple) bool // list is in the helper's domain
	// f calls the helper; if keep is not nil it receives the slice the helper returned
	// (not a copy), so that the caller can look at it again later
	f func(list []Triple, keep *interface{}) []int64
}

func allOfKinds(list []Triple, kinds ...string) bool {
	for _, t := range list {
		found := false
		for _, k := range kinds {
			if t.Kind == k {
				found = true
			}
		}
		if !found {
			return false
		}
	}
	return true
}

func objectOf(t Triple) osm.Object {
	switch t.Kind {
	case "node", "way", "relation":
		return elementOf(t)
	case "changeset":
		return &osm.Changeset{ID: osm.ChangesetID(t.Ref)}
	case "note":
		return &osm.Note{ID: osm.NoteID(t.Ref)}
	case "user":
		return &osm.User{ID: osm.UserID(t.Ref)}
	}
	return &osm.Bounds{MinLat: 1, MaxLat: 2}
}

func osmOf(list []Triple) *osm.OSM {
	o := &osm.OSM{}
	for _, t := range list {
		switch t.Kind {
		case "node":
			o.Nodes = append(o.Nodes, elementOf(t).(*osm.Node))
		case "way":
			o.Ways = append(o.Ways, elementOf(t).(*osm.Way))
		case "relation":
			o.Relations = append(o.Relations, elementOf(t).(*osm.Relation))
		case "changeset":
			o.Changesets = append(o.Changesets, objectOf(t).(*osm.Changeset))
		case "note":
			o.Notes = append(o.Notes, objectOf(t).(*osm.Note))
		case "user":
			o.Users = append(o.Users, objectOf(t).(*osm.User))
		case "bounds":
			o.Bounds = objectOf(t).(*osm.Bounds)
		}
	}
	return o
}

func eids(ids osm.ElementIDs) []int64 {
	out := make([]int64, len(ids))
	for i, id := range ids {
		out[i] = int64(id)
	}
	return out
}
func fids(ids osm.FeatureIDs) []int64 {
	out := make([]int64, len(ids))
	for i, id := range ids {
		out[i] = int64(id)
	}
	return out
}
func oids(ids osm.ObjectIDs) []int64 {
	out := make([]int64, len(ids))
	for i, id := range ids {
		out[i] = int64(id)
	}
	return out
}

func eidsK(keep *interface{}, ids osm.ElementIDs) []int64 {
	if keep != nil {
		*keep = ids
	}
	return eids(ids)
}
func fidsK(keep *interface{}, ids osm.FeatureIDs) []int64 {
	if keep != nil {
		*keep = ids
	}
	return fids(ids)
}
func oidsK(keep *interface{}, ids osm.ObjectIDs) []int64 {
	if keep != nil {
		*keep = ids
	}
	return oids(ids)
}

// osmAskedTwice: see checkList.
func osmAskedTwice(name string, list []Triple) (why string) {
	defer func() {
		if x := recover(); x != nil {
			why = fmt.Sprintf("panic: %v", x)
		}
	}()
	o := osmOf(list)
	ask := func() []int64 {
		switch name {
		case "OSM.ElementIDs":
			ids := o.ElementIDs()
			out := eids(ids)
			for i := range ids {
				ids[i] = 0
			}
			return out
		case "OSM.FeatureIDs":
			ids := o.FeatureIDs()
			out := fids(ids)
			for i := range ids {
				ids[i] = 0
			}
			return out
		case "OSM.Elements.ElementIDs":
			return eids(o.Elements().ElementIDs())
		}
		return oids(o.Objects().ObjectIDs())
	}
	first := ask()
	// edit in place: the first element of every kind gets another id and version
	edited := append([]Triple{}, list...)
	seen := map[string]bool{}
	for i, t := range edited {
		if seen[t.Kind] {
			continue
		}
		seen[t.Kind] = true
		edited[i].Ref, edited[i].Ver = t.Ref^3, t.Ver^1
	}
	for _, n := range o.Nodes {
		n.ID, n.Version = n.ID^3, n.Version^1
		break
	}
	for _, w := range o.Ways {
		w.ID, w.Version = w.ID^3, w.Version^1
		break
	}
	for _, x := range o.Relations {
		x.ID, x.Version = x.ID^3, x.Version^1
		break
	}
	second := ask()
	h := helperByName(name)
	want := h.f(edited, nil)
	sortInts := func(v []int64) []int64 {
		v = append([]int64{}, v...)
		sort.Slice(v, func(i, j int) bool { return v[i] < v[j] })
		return v
	}
	if !reflect.DeepEqual(sortInts(second), sortInts(want)) {
		return fmt.Sprintf("%s on %v: first answer %v; after the caller overwrote it and edited the first element of every kind in place the second answer is %v, the document now holds %v", name, shortList(list), first, second, want)
	}
	return ""
}

// again converts a kept result once more.
func again(k interface{}) []int64 {
	switch x := k.(type) {
	case osm.ElementIDs:
		return eids(x)
	case osm.FeatureIDs:
		return fids(x)
	case osm.ObjectIDs:
		return oids(x)
	}
	return nil
}

func elementsOf(list []Triple) osm.Elements {
	es := make(osm.Elements, len(list))
	for i, t := range list {
		es[i] = elementOf(t)
	}
	return es
}

func membersOf(list []Triple) osm.Members {
	ms := make(osm.Members, len(list))
	for i, t := range list {
		ms[i] = osm.Member{Type: osm.Type(t.Kind), Ref: t.Ref, Version: t.Ver, Role: "r"}
	}
	return ms
}

func isElems(list []Triple) bool { return allOfKinds(list, elementKinds...) }
func atMostOneBounds(list []Triple) bool {
	n := 0
	for _, t := range list {
		if t.Kind == "bounds" {
			n++
		}
	}
	return n <= 1
}

var listHelpers = []listHelper{
	{"Elements.ElementIDs", "element", true, isElems, func(l []Triple, keep *interface{}) []int64 { return eidsK(keep, elementsOf(l).ElementIDs()) }},
	{"Elements.FeatureIDs", "feature", true, isElems, func(l []Triple, keep *interface{}) []int64 { return fidsK(keep, elementsOf(l).FeatureIDs()) }},
	{"Members.ElementIDs", "element", true, isElems, func(l []Triple, keep *interface{}) []int64 { return eidsK(keep, membersOf(l).ElementIDs()) }},
	{"Members.FeatureIDs", "feature", true, isElems, func(l []Triple, keep *interface{}) []int64 { return fidsK(keep, membersOf(l).FeatureIDs()) }},
	{"OSM.ElementIDs", "element", false, isElems, func(l []Triple, keep *interface{}) []int64 { return eidsK(keep, osmOf(l).ElementIDs()) }},
	{"OSM.FeatureIDs", "feature", false, isElems, func(l []Triple, keep *interface{}) []int64 { return fidsK(keep, osmOf(l).FeatureIDs()) }},
	{"OSM.Elements.ElementIDs", "element", false, isElems, func(l []Triple, keep *interface{}) []int64 { return eidsK(keep, osmOf(l).Elements().ElementIDs()) }},
	{"Objects.ObjectIDs", "object", true, func(l []Triple) bool { return true }, func(l []Triple, keep *interface{}) []int64 {
		os := make(osm.Objects, len(l))
		for i, t := range l {
			os[i] = objectOf(t)
		}
		return oidsK(keep, os.ObjectIDs())
	}},
	{"OSM.Objects.ObjectIDs", "object", false, atMostOneBounds, func(l []Triple, keep *interface{}) []int64 { return oidsK(keep, osmOf(l).Objects().ObjectIDs()) }},
	{"Nodes.ElementIDs", "element", true, func(l []Triple) bool { return allOfKinds(l, "node") }, func(l []Triple, keep *interface{}) []int64 { return eidsK(keep, osmOf(l).Nodes.ElementIDs()) }},
	{"Nodes.FeatureIDs", "feature", true, func(l []Triple) bool { return allOfKinds(l, "node") }, func(l []Triple, keep *interface{}) []int64 { return fidsK(keep, osmOf(l).Nodes.FeatureIDs()) }},
	{"WayNodes.ElementIDs", "element", true, func(l []Triple) bool { return allOfKinds(l, "node") }, func(l []Triple, keep *interface{}) []int64 {
		wn := make(osm.WayNodes, len(l))
		for i, t := range l {
			wn[i] = osm.WayNode{ID: osm.NodeID(t.Ref), Version: t.Ver}
		}
		return eidsK(keep, wn.ElementIDs())
	}},
	{"WayNodes.FeatureIDs", "feature", true, func(l []Triple) bool { return allOfKinds(l, "node") }, func(l []Triple, keep *interface{}) []int64 {
		wn := make(osm.WayNodes, len(l))
		for i, t := range l {
			wn[i] = osm.WayNode{ID: osm.NodeID(t.Ref), Version: t.Ver}
		}
		return fidsK(keep, wn.FeatureIDs())
	}},
	{"Ways.ElementIDs", "element", true, func(l []Triple) bool { return allOfKinds(l, "way") }, func(l []Triple, keep *interface{}) []int64 { return eidsK(keep, osmOf(l).Ways.ElementIDs()) }},
	{"Ways.FeatureIDs", "feature", true, func(l []Triple) bool { return allOfKinds(l, "way") }, func(l []Triple, keep *interface{}) []int64 { return fidsK(keep, osmOf(l).Ways.FeatureIDs()) }},
	{"Relations.ElementIDs", "element", true, func(l []Triple) bool { return allOfKinds(l, "relation") }, func(l []Triple, keep *interface{}) []int64 { return eidsK(keep, osmOf(l).Relations.ElementIDs()) }},
	{"Relations.FeatureIDs", "feature", true, func(l []Triple) bool { return allOfKinds(l, "relation") }, func(l []Triple, keep *interface{}) []int64 { return fidsK(keep, osmOf(l).Relations.FeatureIDs()) }},
}

func helperByName(name string) *listHelper {
	for i := range listHelpers {
		if listHelpers[i].name == name {
			return &listHelpers[i]
		}
	}
	return nil
}

func shortList(l []Triple) []Triple {
	if len(l) > 6 {
		return l[:6]
	}
	return l
}

func listFP(name string, list []Triple) string {
	s := "list|" + name
	for _, t := range shortList(list) {
		s += "|" + t.String()
	}
	return s + fmt.Sprintf("|n=%d", len(list))
}

func sortedByText(l []Triple) []Triple {
	out := append([]Triple{}, l...)
	sort.Slice(out, func(i, j int) bool {
		if out[i].Kind != out[j].Kind {
			return out[i].Kind < out[j].Kind
		}
		if out[i].Ref != out[j].Ref {
			return out[i].Ref < out[j].Ref
		}
		return out[i].Ver < out[j].Ver
	})
	return out
}

// checkList runs one helper (or the two Counts methods, name "Counts") on one list.
func checkList(r *kit.Run, name string, list []Triple) {
	c := Case{Family: "list", IDType: name, List: list}
	if name == "Counts" {
		checkCounts(r, list)
		return
	}
	h := helperByName(name)
	if h == nil {
		kit.Fatalf("unknown list helper %q", name)
	}
	if !h.ok(list) {
		return
	}
	r.Case(listFP(name, list), len(list) >= 2)
	bump(r, "list_helper_calls")
	var ids []int64
	var pan interface{}
	retained := ""
	func() {
		defer func() {
			if x := recover(); x != nil {
				pan = x
			}
		}()
		var kept interface{}
		ids = h.f(list, &kept)
		// the result belongs to the caller: it is still the same after the helper ran on
		// another list of the same length (the same entries from the back, versions and
		// refs moved by one), and writing into it does not show in the next call
		other := make([]Triple, len(list))
		for i, t := range list {
			t.Ref, t.Ver = t.Ref^1, t.Ver^1
			other[len(list)-1-i] = t
		}
		if h.ok(other) && len(list) > 0 {
			h.f(other, nil)
			if a := again(kept); !reflect.DeepEqual(a, ids) {
				retained = fmt.Sprintf("the ids returned for %v changed when %s ran on another list: %v, were %v", shortList(list), name, a, ids)
			}
		}
		switch x := kept.(type) {
		case osm.ElementIDs:
			for i := range x {
				x[i] = 0
			}
		case osm.FeatureIDs:
			for i := range x {
				x[i] = 0
			}
		case osm.ObjectIDs:
			for i := range x {
				x[i] = 0
			}
		}
		if b := h.f(list, nil); retained == "" && !reflect.DeepEqual(b, ids) {
			retained = fmt.Sprintf("%s on %v after the caller overwrote the previous result: %v, was %v", name, shortList(list), b, ids)
		}
	}()
	if retained != "" && pan == nil {
		r.Violation("list-result-not-the-callers/"+name, retained, c)
	}
	if strings.HasPrefix(name, "OSM.") && pan == nil && len(list) > 0 && isElems(list) {
		// the same document asked twice: the caller sorts and overwrites the first answer,
		// then edits an element in place (same number of elements); the second answer is
		// the ids of the document as it is then
		if why := osmAskedTwice(name, list); why != "" {
			r.Violation("list-second-call-on-the-same-document/"+name, why, c)
		}
	}
	if pan != nil {
		r.Violation("list-panic/"+name, fmt.Sprintf("%s panicked on %v (n=%d): %v", name, shortList(list), len(list), pan), c)
		return
	}
	if len(ids) != len(list) {
		r.Violation("list-length/"+name, fmt.Sprintf("%s on %d entries %v gives %d ids", name, len(list), shortList(list), len(ids)), c)
		return
	}
	got := make([]Triple, len(ids))
	for i, v := range ids {
		t, p := decodeAs(h.idType, v)
		if p != nil {
			r.Violation("list-decode-panic/"+name, fmt.Sprintf("%s on %v: id %d = %#x does not decode: %v", name, shortList(list), i, v, p), c)
			return
		}
		got[i] = t
	}
	want := make([]Triple, len(list))
	for i, t := range list {
		want[i] = t
		if h.idType == "feature" {
			want[i].Ver = 0
		}
	}
	if !h.ordered {
		got, want = sortedByText(got), sortedByText(want)
	}
	for i := range want {
		if got[i] != want[i] {
			what := "position"
			if !h.ordered {
				what = "entry (both sides sorted)"
			}
			r.Violation("list/"+name, fmt.Sprintf("%s on %v (n=%d): %s %d decodes to %v, want %v", name, shortList(list), len(list), what, i, got[i], want[i]), c)
			return
		}
	}
}

func checkCounts(r *kit.Run, list []Triple) {
	if !isElems(list) {
		return
	}
	c := Case{Family: "list", IDType: "Counts", List: list}
	r.Case(listFP("Counts", list), len(list) >= 2)
	var wn, ww, wr int
	for _, t := range list {
		switch t.Kind {
		case "node":
			wn++
		case "way":
			ww++
		case "relation":
			wr++
		}
	}
	eid := make(osm.ElementIDs, len(list))
	fid := make(osm.FeatureIDs, len(list))
	for i, t := range list {
		e, p1 := packedOf("element", t)
		f, p2 := packedOf("feature", t)
		if p1 != nil || p2 != nil {
			r.Violation("construct-panic/list", fmt.Sprintf("constructing %v panicked: %v %v", t, p1, p2), c)
			return
		}
		eid[i], fid[i] = osm.ElementID(e), osm.FeatureID(f)
	}
	var pan interface{}
	var n1, w1, r1, n2, w2, r2 int
	func() {
		defer func() {
			if x := recover(); x != nil {
				pan = x
			}
		}()
		n1, w1, r1 = eid.Counts()
		n2, w2, r2 = fid.Counts()
	}()
	if pan != nil {
		r.Violation("list-panic/Counts", fmt.Sprintf("Counts panicked on %v: %v", shortList(list), pan), c)
		return
	}
	if n1 != wn || w1 != ww || r1 != wr {
		r.Violation("list/ElementIDs.Counts", fmt.Sprintf("ElementIDs.Counts on %v (n=%d) = (%d nodes, %d ways, %d relations), want (%d, %d, %d)", shortList(list), len(list), n1, w1, r1, wn, ww, wr), c)
	}
	if n2 != wn || w2 != ww || r2 != wr {
		r.Violation("list/FeatureIDs.Counts", fmt.Sprintf("FeatureIDs.Counts on %v (n=%d) = (%d nodes, %d ways, %d relations), want (%d, %d, %d)", shortList(list), len(list), n2, w2, r2, wn, ww, wr), c)
	}
}

func runLists(r *kit.Run, thorough bool) {
	const top, half = refLimit - 1, int64(1) << 39
	var pool []Triple
	for _, k := range elementKinds {
		pool = append(pool, Triple{k, 0, 0}, Triple{k, 1, 1}, Triple{k, half, 32768}, Triple{k, top, 65535})
	}
	nElem := len(pool)
	pool = append(pool,
		Triple{"changeset", 0, 0}, Triple{"changeset", top, 0},
		Triple{"note", 1, 0}, Triple{"note", top, 0},
		Triple{"user", 0, 0}, Triple{"user", half, 0},
		Triple{"bounds", 0, 0})
	maxLen := 3
	if thorough {
		maxLen = 4
	}
	r.Set("list_pool", len(pool))
	r.Set("list_max_len", maxLen)
	var names []string
	for _, h := range listHelpers {
		names = append(names, h.name)
	}
	names = append(names, "Counts")
	r.Set("list_helpers", names)

	// every sequence with repeats of length 0..maxLen: over the whole pool for the
	// helpers that take every kind, over the element part for the others
	var lists int64
	n := len(pool)
	count := 1
	for L := 0; L <= maxLen; L++ {
		ll := L
		r.Par(count, func(i int) {
			list := make([]Triple, ll)
			x := i
			elems := true
			for k := 0; k < ll; k++ {
				j := x % n
				x /= n
				list[k] = pool[j]
				if j >= nElem {
					elems = false
				}
			}
			for _, name := range names {
				h := helperByName(name)
				if h != nil && !elems && h.idType != "object" {
					continue
				}
				checkList(r, name, list)
			}
		})
		lists += int64(count)
		count *= n
	}
	// one long list per helper: every triple of the triple family, interleaved by kind
	refs, vers := tripleRefs(), tripleVers()
	if !thorough {
		refs, vers = reducedRefs(), reducedVers()
	}
	perKind := map[string][]Triple{}
	for _, k := range allKinds {
		perKind[k] = triplesOver(refs, vers, []string{k})
	}
	var longElems, longAll []Triple
	for i := 0; i < len(perKind["node"]); i++ {
		for _, k := range elementKinds {
			longElems = append(longElems, perKind[k][i])
		}
	}
	longAll = append(longAll, longElems...)
	for _, k := range []string{"user", "changeset", "bounds", "note"} {
		longAll = append(longAll, perKind[k]...)
	}
	r.Par(len(names), func(i int) {
		name := names[i]
		h := helperByName(name)
		switch {
		case h != nil && h.idType == "object":
			checkList(r, name, longAll)
		default:
			checkList(r, name, longElems)
			for _, k := range elementKinds {
				checkList(r, name, perKind[k])
			}
		}
	})
	lists += 4
	r.Set("list_lists", lists)
	r.Set("list_long_len", len(longAll))
	r.Sample(Case{Family: "list", IDType: "Elements.ElementIDs", List: []Triple{pool[5], pool[3], pool[9]}})
}
