//go:build verif

// Engine self-test: small programs with KNOWN concurrency defects (and their
// repaired twins) written against the same vsched API the instrumented
// repository code is rewritten to, explored by the same vexplore driver. It
// decides nothing about paulmach/osm: tools/selftest.sh runs every program in a
// scratch VERIF_ROOT and compares what the engine reports with the expected
// table (defect found at exactly the expected deviation bound, with the expected
// key; repaired twin clean; execution counts of closed-form spaces exact). A
// harness that has never failed has not been shown to work.
package main

import (
	"fmt"
	"os"
	"time"

	"github.com/paulmach/osm/vsched"

	"verif/engine/vexplore"
	"verif/kit"
)

type prog struct {
	name  string
	races bool
	sw    bool
	steps int
	body  func() (main func(), verdict func() string, tag func() string)
}

func one(msg string, bad bool) string {
	if bad {
		return msg
	}
	return ""
}

var progs = []prog{
	// non-atomic increment through atomics: needs one preemption
	{name: "lost-update", body: func() (func(), func() string, func() string) {
		var x int64
		var wg vsched.WaitGroup
		inc := func() {
			v := vsched.AtomicLoadInt64(&x)
			vsched.AtomicStoreInt64(&x, v+1)
			wg.Done()
		}
		return func() {
				wg.Add(2)
				vsched.Go(inc)
				vsched.Go(inc)
				wg.Wait()
			}, func() string { return one(fmt.Sprintf("lost update: x=%d", x), x != 2) },
			func() string { return fmt.Sprint(x) }
	}},
	{name: "lost-update-locked", body: func() (func(), func() string, func() string) {
		var x int64
		var mu vsched.Mutex
		var wg vsched.WaitGroup
		inc := func() {
			mu.Lock()
			v := vsched.AtomicLoadInt64(&x)
			vsched.AtomicStoreInt64(&x, v+1)
			mu.Unlock()
			wg.Done()
		}
		return func() {
				wg.Add(2)
				vsched.Go(inc)
				vsched.Go(inc)
				wg.Wait()
			}, func() string { return one(fmt.Sprintf("lost update: x=%d", x), x != 2) },
			func() string { return fmt.Sprint(x) }
	}},
	// needs two deviations: T2 must read between T1's two stores and again after the second
	{name: "two-deviations", body: func() (func(), func() string, func() string) {
		var x, r1, r2 int64
		var wg vsched.WaitGroup
		return func() {
				wg.Add(2)
				vsched.Go(func() {
					vsched.AtomicStoreInt64(&x, 1)
					vsched.AtomicStoreInt64(&x, 2)
					wg.Done()
				})
				vsched.Go(func() {
					r1 = vsched.AtomicLoadInt64(&x)
					r2 = vsched.AtomicLoadInt64(&x)
					wg.Done()
				})
				wg.Wait()
			}, func() string { return one("observed the intermediate value and then the final one", r1 == 1 && r2 == 2) },
			func() string { return fmt.Sprint(r1, r2) }
	}},
	// lock order inversion
	{name: "lock-order", body: func() (func(), func() string, func() string) {
		var a, b vsched.Mutex
		var wg vsched.WaitGroup
		return func() {
			wg.Add(2)
			vsched.Go(func() { a.Lock(); b.Lock(); b.Unlock(); a.Unlock(); wg.Done() })
			vsched.Go(func() { b.Lock(); a.Lock(); a.Unlock(); b.Unlock(); wg.Done() })
			wg.Wait()
		}, func() string { return "" }, func() string { return "" }
	}},
	{name: "lock-order-fixed", body: func() (func(), func() string, func() string) {
		var a, b vsched.Mutex
		var wg vsched.WaitGroup
		return func() {
			wg.Add(2)
			vsched.Go(func() { a.Lock(); b.Lock(); b.Unlock(); a.Unlock(); wg.Done() })
			vsched.Go(func() { a.Lock(); b.Lock(); b.Unlock(); a.Unlock(); wg.Done() })
			wg.Wait()
		}, func() string { return "" }, func() string { return "" }
	}},
	// unsynchronised plain field, found by the vector-clock tracker without any deviation
	{name: "plain-race", races: true, body: func() (func(), func() string, func() string) {
		var x int
		var wg vsched.WaitGroup
		return func() {
			wg.Add(1)
			vsched.Go(func() { *vsched.W(&x) = 1; wg.Done() })
			*vsched.W(&x) = 2
			wg.Wait()
		}, func() string { return "" }, func() string { return "" }
	}},
	// the same accesses ordered by a channel hand-off: no race
	{name: "plain-handoff", races: true, body: func() (func(), func() string, func() string) {
		var x int
		return func() {
			ch := vsched.MakeChan[struct{}](0) // channels are made inside the execution
			vsched.Go(func() { *vsched.W(&x) = 1; ch.Send(struct{}{}) })
			ch.Recv()
			*vsched.W(&x) = 2
		}, func() string { return one("x", x != 2) }, func() string { return "" }
	}},
	// a buffered channel does NOT order the sender's later writes before the receive
	{name: "buffered-no-order", races: true, body: func() (func(), func() string, func() string) {
		var x int
		return func() {
			ch := vsched.MakeChan[struct{}](1)
			vsched.Go(func() { ch.Send(struct{}{}); *vsched.W(&x) = 1 })
			ch.Recv()
			_ = *vsched.R(&x)
		}, func() string { return "" }, func() string { return "" }
	}},
	// worker sends without watching the context; the consumer cancels and leaves
	{name: "send-without-done", body: func() (func(), func() string, func() string) {
		return func() {
			ctx, cancel := vsched.WithCancel(nil)
			_ = ctx
			out := vsched.MakeChan[int](0)
			vsched.Go(func() {
				for i := 0; i < 3; i++ {
					out.Send(i)
				}
				out.Close()
			})
			out.Recv()
			cancel()
		}, func() string { return "" }, func() string { return "" }
	}},
	{name: "send-with-done", body: func() (func(), func() string, func() string) {
		return func() {
			ctx, cancel := vsched.WithCancel(nil)
			out := vsched.MakeChan[int](0)
			done := vsched.DoneChan(ctx)
			vsched.Go(func() {
				defer out.Close()
				for i := 0; i < 3; i++ {
					if vsched.Select(false, out.SendCase(i), done.RecvCase()) == 1 {
						return
					}
				}
			})
			out.Recv()
			cancel()
		}, func() string { return "" }, func() string { return "" }
	}},
	// FIFO and capacity of a buffered channel, close semantics
	{name: "chan-semantics", body: func() (func(), func() string, func() string) {
		var got []int
		var okAfter bool
		var maxLen int
		return func() {
				ch := vsched.MakeChan[int](2)
				vsched.Go(func() {
					for i := 1; i <= 5; i++ {
						ch.Send(i)
						if l := ch.Len(); l > maxLen {
							maxLen = l
						}
					}
					ch.Close()
				})
				for {
					v, ok := ch.Recv2()
					if !ok {
						break
					}
					got = append(got, v)
				}
				_, okAfter = ch.Recv2()
			}, func() string {
				return one(fmt.Sprintf("got %v maxLen %d okAfter %v", got, maxLen, okAfter), fmt.Sprint(got) != "[1 2 3 4 5]" || maxLen > 2 || okAfter)
			},
			func() string { return fmt.Sprint(maxLen) }
	}},
	{name: "send-on-closed", body: func() (func(), func() string, func() string) {
		return func() {
			ch := vsched.MakeChan[int](1)
			ch.Close()
			ch.Send(1)
		}, func() string { return "" }, func() string { return "" }
	}},
	// sync.Once: exactly once, and a second caller returns only after the first finished
	{name: "once", body: func() (func(), func() string, func() string) {
		var o vsched.Once
		var n, seen int64
		var wg vsched.WaitGroup
		f := func() {
			o.Do(func() {
				vsched.AtomicAddInt64(&n, 1)
				vsched.Yield("inside")
				vsched.AtomicAddInt64(&n, 10)
			})
			if v := vsched.AtomicLoadInt64(&n); v != 11 {
				seen = v
			}
			wg.Done()
		}
		return func() {
			wg.Add(2)
			vsched.Go(f)
			vsched.Go(f)
			wg.Wait()
		}, func() string { return one(fmt.Sprintf("n=%d, a caller saw %d after Do", n, seen), n != 11 || seen != 0) }, func() string { return "" }
	}},
	// a hand-rolled once with a check-then-act window
	{name: "once-broken", body: func() (func(), func() string, func() string) {
		var done, n int64
		var wg vsched.WaitGroup
		f := func() {
			if vsched.AtomicLoadInt64(&done) == 0 {
				vsched.AtomicStoreInt64(&done, 1)
				vsched.AtomicAddInt64(&n, 1)
			}
			wg.Done()
		}
		return func() {
			wg.Add(2)
			vsched.Go(f)
			vsched.Go(f)
			wg.Wait()
		}, func() string { return one(fmt.Sprintf("initialised %d times", n), n != 1) }, func() string { return fmt.Sprint(n) }
	}},
	// waiting must be visible: a spin-wait on a flag another thread sets terminates (fairness)...
	{name: "spin-wait", steps: 20000, body: func() (func(), func() string, func() string) {
		var flag int64
		return func() {
			vsched.Go(func() { vsched.Yield("work"); vsched.AtomicStoreInt64(&flag, 1) })
			for vsched.AtomicLoadInt64(&flag) == 0 {
				vsched.Gosched()
			}
		}, func() string { return "" }, func() string { return "" }
	}},
	// ...and one nobody sets is a livelock
	{name: "spin-forever", steps: 5000, body: func() (func(), func() string, func() string) {
		var flag int64
		return func() {
			vsched.Go(func() { vsched.Yield("work") })
			for vsched.AtomicLoadInt64(&flag) == 0 {
				vsched.Gosched()
			}
		}, func() string { return "" }, func() string { return "" }
	}},
	// free choices: every combination exactly once
	{name: "choose", body: func() (func(), func() string, func() string) {
		var a, b int
		return func() {
			a = vsched.Choose(3, "a")
			b = vsched.Choose(4, "b")
		}, func() string { return "" }, func() string { return fmt.Sprint(a, b) }
	}},
	// map iteration order: all 4! orders
	{name: "map-orders", body: func() (func(), func() string, func() string) {
		var order []int
		return func() {
			m := map[int]bool{1: true, 2: true, 3: true, 4: true}
			order = vsched.MapKeys(m)
		}, func() string { return "" }, func() string { return fmt.Sprint(order) }
	}},
	// select picks among ready arms: both arms are reachable as alternatives
	{name: "select-arms", body: func() (func(), func() string, func() string) {
		var arm int
		return func() {
			a := vsched.MakeChan[int](1)
			b := vsched.MakeChan[int](1)
			a.Send(1)
			b.Send(2)
			arm = vsched.Select(false, a.RecvCase(), b.RecvCase())
		}, func() string { return "" }, func() string { return fmt.Sprint(arm) }
	}},
	// WaitGroup.Wait returns only after every Done
	{name: "waitgroup", body: func() (func(), func() string, func() string) {
		var n, at int64
		var wg vsched.WaitGroup
		return func() {
			wg.Add(3)
			for i := 0; i < 3; i++ {
				vsched.Go(func() { vsched.AtomicAddInt64(&n, 1); wg.Done() })
			}
			wg.Wait()
			at = vsched.AtomicLoadInt64(&n)
		}, func() string { return one(fmt.Sprintf("Wait returned with %d of 3 done", at), at != 3) }, func() string { return "" }
	}},
	// two independent threads of 3 steps each in switch mode
	{name: "interleavings", sw: true, body: func() (func(), func() string, func() string) {
		var log []byte
		var wg vsched.WaitGroup
		t := func(c byte) func() {
			return func() {
				for i := 0; i < 3; i++ {
					vsched.Yield("step")
					log = append(log, c)
				}
				wg.Done()
			}
		}
		return func() {
			wg.Add(2)
			vsched.Go(t('a'))
			vsched.Go(t('b'))
			wg.Wait()
		}, func() string { return "" }, func() string { return string(log) }
	}},
}

func main() {
	only := os.Getenv("SELFTEST_PROG")
	bound := 0
	fmt.Sscan(os.Getenv("SELFTEST_BOUND"), &bound)
	kit.Main("SELFTEST", "model_checking", func(r *kit.Run) {
		r.Rule("engine self-test program " + only)
		var scs []vexplore.Scenario
		for _, p := range progs {
			if p.name != only {
				continue
			}
			p := p
			scs = append(scs, vexplore.Scenario{Name: p.name, Family: p.name, Bound: bound, MaxSteps: p.steps, RacesAreFindings: p.races, SwitchMode: p.sw,
				New: func() (func(), func(*vsched.Outcome) ([]vexplore.Finding, string, bool)) {
					main, verdict, tag := p.body()
					return main, func(o *vsched.Outcome) ([]vexplore.Finding, string, bool) {
						if o.Kind != "ok" {
							return []vexplore.Finding{{Key: "selftest/" + o.Kind, Msg: o.Detail}}, o.Kind, true
						}
						var fs []vexplore.Finding
						if v := verdict(); v != "" {
							fs = append(fs, vexplore.Finding{Key: "selftest/assert", Msg: v})
						}
						return fs, tag(), true
					}
				}})
		}
		if len(scs) != 1 {
			kit.Fatalf("unknown self-test program %q", only)
		}
		e := &vexplore.Explorer{R: r, Scenarios: scs}
		e.Run(2 * time.Minute)
	})
}
