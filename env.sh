# sourced by every command in /verif: offline Go settings
export GOFLAGS=-mod=mod GOPROXY=off GOSUMDB=off GOTOOLCHAIN=local
export CGO_ENABLED=${CGO_ENABLED:-0}
export VERIF_ROOT=${VERIF_ROOT:-/verif}
