# sourced by every command in /verif: offline Go settings
export GOFLAGS=-mod=mod GOPROXY=off GOSUMDB=off GOTOOLCHAIN=local
export CGO_ENABLED=${CGO_ENABLED:-0}
# evidence/, replays/ and known_findings.json live next to this file (a snapshot run stays inside its snapshot)
export VERIF_ROOT=${VERIF_ROOT:-$(cd "$(dirname "${BASH_SOURCE[0]}")" && pwd)}
