#!/bin/bash
# tools/seedkeep.sh <Cxx> <dest name> "<caught by / notes>" : keeps a confirmed seeded change under /verif/seeded/<dest>
id=$1; dest=/verif/seeded/$2; note=$3
mkdir -p $dest
cp /tmp/seed/$id.out/patch.diff $dest/patch.diff
cp /tmp/seed/$id.out/demo_test.go $dest/demo_test.go
python3 - "$id" "$dest" "$note" <<'PY'
import json,sys
id,dest,note=sys.argv[1:4]
m=json.load(open('/tmp/seed/%s.out/meta.json'%id))
out={"property":m.get("property",id),"breaks":m.get("summary"),"needs_to_manifest":m.get("needs_to_manifest"),"files":m.get("files"),
     "author_ran":m.get("ran"),
     "confirmed_by_lead":"tools/seedtest.sh %s: patch applies, module builds, the existing tests of the touched packages and their dependants pass with the change, demo_test.go fails with the change and passes without it (scratch worktree); then applied to /repo with git apply, quick check run, reverted with git checkout"%id,
     "result":note}
json.dump(out,open(dest+'/meta.json','w'),indent=1)
PY
echo kept $dest
