#!/usr/bin/env python3
"""Regenerates /verif/MANIFEST.json from tools/checks.json (the per-check texts) and
validates it against the schema. A property with no entry in checks.json is listed
under not_applicable with the reason given in tools/not_applicable.json."""
import json, os, sys
root = os.path.dirname(os.path.dirname(os.path.abspath(__file__)))
checks = json.load(open(os.path.join(root, "tools/checks.json")))
na = json.load(open(os.path.join(root, "tools/not_applicable.json")))
props = [json.loads(l)["id"] for l in open(os.path.join(root, "properties.jsonl"))]
out_checks = []
for pid in props:
    c = checks.get(pid)
    if not c:
        continue
    out_checks.append({
        "property_id": pid,
        "quick_cmd": "./check %s quick" % pid,
        "thorough_cmd": "./check %s thorough" % pid,
        "evidence_file": "/verif/evidence/%s.json" % pid,
        "replay_cmd_template": "./check %s quick --replay {path}" % pid,
        "engine": c["engine"],
        "level_claimed": {"category": c["category"], "text": c["text"], "design_ref": "DESIGN.md section 5, %s" % pid},
        "level_note": c["note"],
        "technique": c["technique"],
    })
m = {
    "version": 1,
    "setup_cmd": "./setup.sh",
    "hooks": {
        "guard": "verif",
        "enable": "no hook code is committed to /repo: Engine A checks generate instrumented copies of the concurrent source files from /repo's working tree at check time (tools/vinst) into a go build -overlay, tagged //go:build verif and built with -tags verif; all other checks use the public API of the unmodified packages",
        "baseline_off_cmd": "cd /repo && GOFLAGS=-mod=mod GOPROXY=off go test -vet=off -count=1 -timeout 25m ./...",
        "source_commits": [],
        "add_only": True,
    },
    "engines": [
        {"name": "A-vsched", "path": "/verif/engine", "serves_properties": [p for p in props if checks.get(p, {}).get("engine") == "A-vsched"],
         "kind_free_text": "cooperative scheduler + source instrumenter + delay-bounded DFS explorer over real goroutine schedules of the implementation"},
        {"name": "B-enum", "path": "/verif/kit", "serves_properties": [p for p in props if checks.get(p, {}).get("engine") == "B-enum"],
         "kind_free_text": "bounded-exhaustive enumeration of operation sequences / input shapes / environment answers against independent reference models"},
    ],
    "checks": out_checks,
    "notes": "See DESIGN.md. known_findings.json lists genuine defects recorded (status known) or repaired by fix: commits (status fixed).",
    "not_applicable": [{"property_id": p, "reason": na.get(p, "check not built yet in this session; see DESIGN.md section 5 for the planned design")} for p in props if p not in checks],
}
json.dump(m, open(os.path.join(root, "MANIFEST.json"), "w"), indent=1)
try:
    import jsonschema
    jsonschema.validate(m, json.load(open("/root/.vp/MANIFEST.schema.json")))
    print("MANIFEST.json valid:", len(out_checks), "checks,", len(m["not_applicable"]), "not applicable")
except ImportError:
    print("jsonschema not importable; MANIFEST.json written without validation")
