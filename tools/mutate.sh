#!/bin/bash
# tools/mutate.sh <Cxx> <tier> <repo-relative-file> <perl -pe expression> [more file/expr pairs...]
# Builds the check with a mutated copy of a /repo file via go build -overlay (never touches /repo)
# and runs it with VERIF_ROOT pointing to a scratch root. Prints the tail of the output + exit code.
set -u
cd /verif; . ./env.sh
id=$1; tier=$2; shift 2
lc=$(echo "$id" | tr 'A-Z' 'a-z')
T=$(mktemp -d /tmp/mut.XXXXXX)
mkdir -p $T/root
cp /verif/known_findings.json $T/root/
echo '{"Replace":{' > $T/o.json
sep=""
while [ $# -ge 2 ]; do
  f=$1; e=$2; shift 2
  b=$(echo "$f" | tr '/' '_')
  perl -pe "$e" /repo/$f > $T/$b
  if cmp -s /repo/$f $T/$b; then echo "MUTATION DID NOT CHANGE $f"; rm -rf $T; exit 3; fi
  diff /repo/$f $T/$b | head -8
  echo "$sep\"/repo/$f\":\"$T/$b\"" >> $T/o.json; sep=","
done
echo '}}' >> $T/o.json
if [ -x props/$lc/run.sh ]; then
  VERIF_ROOT=$T/root VERIF_OVERLAY=$T/o.json VERIF_BIN=$T props/$lc/run.sh $tier 2>&1 | tail -${MUT_TAIL:-6}; rc=${PIPESTATUS[0]}
else
  go build -overlay $T/o.json -o $T/bin ./props/$lc || { echo BUILD FAILED; rm -rf $T; exit 4; }
  VERIF_ROOT=$T/root $T/bin -tier $tier 2>&1 | tail -${MUT_TAIL:-6}; rc=${PIPESTATUS[0]}
fi
echo "exit=$rc"
rm -rf $T
