#!/bin/bash
# tools/selftest.sh — engine self-test (vsched + vexplore): runs the small programs of
# props/selftest, each with a known defect or known to be correct, at stated deviation
# bounds in a scratch VERIF_ROOT, and compares the engine's verdict, violation key and
# (for closed-form spaces) the number of executions / distinct outcomes with this table.
# Exit 0 when every line matches. Decides nothing about paulmach/osm.
ROOT=$(cd "$(dirname "$0")/.." && pwd)
cd "$ROOT"; . ./env.sh
S=$(mktemp -d "$ROOT/tmp.selftest.XXXXXX")
trap 'rm -rf "$S"' EXIT
export VERIF_BIN="$S"
VERIF_BUILD_ONLY=1 "$ROOT/engine/run_a.sh" SELFTEST quick -pkg osmxml:scanner.go -- || { echo "selftest: build failed"; exit 2; }
fail=0
# name bound expected-key(- = clean) [expected distinct outcomes (0 = do not check)] [expected executions]
while read -r name bound want distinct execs; do
  [ -z "$name" ] && continue
  case "$name" in \#*) continue;; esac
  R="$S/root.$name.$bound"; mkdir -p "$R"; echo '[]' > "$R/known_findings.json"
  out=$(VERIF_ROOT="$R" SELFTEST_PROG=$name SELFTEST_BOUND=$bound "$S/selftest" -tier quick 2>&1); rc=$?
  keys=$(ls "$R/replays/SELFTEST" 2>/dev/null | tr '\n' ' ')
  ev="$R/evidence/SELFTEST.json"
  got_d=$(jq -r '.distinct_nontrivial // .coverage.distinct_nontrivial // 0' "$ev" 2>/dev/null)
  got_e=$(jq -r '.evaluations // .coverage.evaluations // 0' "$ev" 2>/dev/null)
  ok=1
  if [ "$want" = "-" ]; then
    [ $rc -eq 0 ] || ok=0
  else
    [ $rc -eq 1 ] && echo "$keys" | grep -q "$want" || ok=0
  fi
  [ -n "${distinct:-}" ] && [ "$distinct" != 0 ] && [ "$got_d" != "$distinct" ] && ok=0
  [ -n "${execs:-}" ] && [ "$execs" != 0 ] && [ "$got_e" != "$execs" ] && ok=0
  if [ $ok = 1 ]; then
    echo "ok    $name D=$bound want=$want executions=$got_e distinct=$got_d"
  else
    echo "WRONG $name D=$bound want=$want distinct=${distinct:-} execs=${execs:-}: rc=$rc keys=[$keys] executions=$got_e distinct=$got_d"; echo "$out" | tail -5
    fail=1
  fi
done <<'EOF'
lost-update         0 -
lost-update         1 assert
lost-update-locked  3 -
two-deviations      1 -
two-deviations      2 assert
lock-order          0 -
lock-order          1 deadlock
lock-order-fixed    3 -
plain-race          0 race
plain-handoff       2 -
buffered-no-order   2 race
send-without-done   0 leak
send-with-done      3 -
chan-semantics      3 -
send-on-closed      0 crash
once                3 -
once-broken         0 -
once-broken         1 assert
spin-wait           1 -
spin-forever        0 livelock
choose              0 - 12 24
map-orders          0 - 24 48
select-arms         1 - 2
waitgroup           3 -
interleavings       6 - 20
EOF
[ $fail = 0 ] && echo "selftest: all engine verdicts as expected"
exit $fail
