#!/bin/bash
# tools/seedtest.sh <Cxx> [check ids to run, default the same id]
# 1. confirms an independently written property-breaking change in its scratch worktree:
#    builds, affected packages' tests pass, demo fails with the change and passes without;
# 2. applies it to /repo, runs the quick check(s), reverts /repo.
set -u
id=$1; shift
checks=${*:-${id:0:3}}
W=/tmp/seed/$id; O=/tmp/seed/$id.out
mkdir -p /tmp/seed/$id.root; cp /verif/known_findings.json /tmp/seed/$id.root/
export GOFLAGS=-mod=mod GOPROXY=off GOSUMDB=off GOTOOLCHAIN=local
cd $W || exit 9
git checkout -q -- . && git clean -fdq
head -1 $O/demo_test.go
dir=$(head -3 $O/demo_test.go | grep -o -E '(osmpbf|osmxml|annotate(/internal/core)?|osmgeojson|osmapi|replication|internal/mputil|repository root|root package|\(root\)|^// *\.)' | head -1)
case "$dir" in ""|"repository root"|"root package"|"(root)"|*". ") dir=.;; esac
[ -n "${SEED_DIR:-}" ] && dir=$SEED_DIR
echo "demo dir: $dir"
git apply $O/patch.diff || { echo "PATCH DOES NOT APPLY"; exit 8; }
files=$(git diff --name-only)
pkgs=$(for f in $files; do echo ./$(dirname $f); done | sort -u | grep -v osmpbf | tr '\n' ' ')
echo "changed: $files"
go build ./... || { echo "BUILD FAILS"; git checkout -q -- .; exit 7; }
if [ -n "$pkgs" ]; then
  deps="$pkgs"; echo "$pkgs" | grep -q '^\./\. \|^\./\.$\| \./\. ' && deps="./ ./annotate/... ./osmgeojson ./osmapi ./osmxml ./replication ./internal/..."
  go test -vet=off -count=1 $deps 2>&1 | grep -v "no test files" | tail -12
fi
cp $O/demo_test.go $W/$dir/zz_seed_demo_test.go
echo "--- demo WITH change (expect FAIL)"
(cd $W/$dir && go test -vet=off -count=1 -timeout 120s -run "$(grep -o -E 'func (Test[A-Za-z0-9_]+)' zz_seed_demo_test.go | sed 's/func //' | paste -sd'|')" . 2>&1 | tail -4)
git checkout -q -- . 
echo "--- demo WITHOUT change (expect ok)"
(cd $W/$dir && go test -vet=off -count=1 -timeout 120s -run "$(grep -o -E 'func (Test[A-Za-z0-9_]+)' zz_seed_demo_test.go | sed 's/func //' | paste -sd'|')" . 2>&1 | tail -3)
git clean -fdq
echo "--- checks against /repo with the change applied"
cd /repo && git status --short | grep -v '^??' | head -3
git -C /repo apply $O/patch.diff || { echo "PATCH DOES NOT APPLY TO /repo"; exit 6; }
for c in $checks; do
  (cd /verif && VERIF_ROOT=/tmp/seed/$id.root ./check $c quick 2>&1 | grep -v "^  " | tail -5 | cut -c1-400)
done
git -C /repo checkout -- .
git -C /repo status --short | grep -v '^??' | head
