#!/usr/bin/env python3
"""Validates MANIFEST.json and every evidence/*.json against the schemas in /root/.vp."""
import json, glob, sys, os
import jsonschema
root = os.path.dirname(os.path.dirname(os.path.abspath(__file__)))
ok = True
m = json.load(open(os.path.join(root, "MANIFEST.json")))
jsonschema.validate(m, json.load(open("/root/.vp/MANIFEST.schema.json")))
es = json.load(open("/root/.vp/EVIDENCE.schema.json"))
claimed = {c["property_id"]: c for c in m["checks"]}
for pid, c in sorted(claimed.items()):
    f = os.path.join(root, "evidence", pid + ".json")
    if not os.path.exists(f):
        print("MISSING evidence", pid); ok = False; continue
    e = json.load(open(f))
    try:
        jsonschema.validate(e, es)
    except jsonschema.ValidationError as ex:
        print("INVALID", pid, ex.message[:200]); ok = False; continue
    if e["level"] != c["level_claimed"]["category"]:
        print("LEVEL MISMATCH", pid, e["level"], c["level_claimed"]["category"]); ok = False
    cov = e["coverage"]
    print("%s %-8s %-18s evals=%-9s distinct=%-9s states=%-9s viol=%s exhaustive=%s wall=%.0fs" % (pid, e["tier"], e["level"], cov.get("evaluations"), cov.get("distinct_nontrivial"), cov.get("states", "-"), e.get("violations"), cov.get("exhaustive"), e["wall_s"]))
print("OK" if ok else "PROBLEMS")
sys.exit(0 if ok else 1)
