module vinst

go 1.22.0

require golang.org/x/tools v0.29.0
