// vinst rewrites Go source files of the code under test so that every
// concurrency primitive goes through the cooperative scheduler vsched:
//
//	chan T / chan<- T / <-chan T     -> *vsched.Chan[T]
//	make(chan T, n)                  -> vsched.MakeChan[T](n)
//	ch <- v, <-ch, v, ok := <-ch     -> ch.Send(v), ch.Recv(), ch.Recv2()
//	close(ch), len(ch), cap(ch)      -> ch.Close(), ch.Len(), ch.Cap()
//	for v := range ch                -> explicit Recv2 loop
//	select { ... }                   -> switch vsched.Select(...)
//	go f(x)                          -> vsched.Go(func() { f(x) })
//	sync.WaitGroup/Mutex/RWMutex/Once-> vsched.*
//	atomic.XxxInt64/32               -> vsched.AtomicXxxInt64/32
//	context.WithCancel/Timeout/...   -> vsched.With*
//	<-ctx.Done()                     -> vsched.DoneChan(ctx).Recv()
//	for k, v := range m (maps, -maprange only) -> iteration over vsched.MapKeys(m)
//	reads / writes of fields of package-local structs (-fields) -> *vsched.R(&x.f) / *vsched.W(&x.f)
//
// The rewrite is type directed (go/types with the source importer) and is
// regenerated from the current /repo working tree on every check run. Anything
// it does not understand aborts with "HARNESS-ERROR unsupported construct".
//
// usage: vinst -repo /repo -out DIR [-base-overlay o.json] -vsched /verif/engine/vsched
//
//	-pkg osmpbf:decode.go,scanner.go -pkg annotate:order.go [-maprange annotate/internal/core:compute.go]
//
// It writes DIR/<pkg>/<file> and DIR/overlay.json.
package main

import (
	"bytes"
	"encoding/json"
	"flag"
	"fmt"
	"go/ast"
	"go/build"
	"go/format"
	"go/importer"
	"go/parser"
	"go/token"
	"go/types"
	"os"
	"path/filepath"
	"sort"
	"strings"

	"golang.org/x/tools/go/ast/astutil"
)

type multi []string

func (m *multi) String() string     { return strings.Join(*m, " ") }
func (m *multi) Set(s string) error { *m = append(*m, s); return nil }

func fatalf(format string, a ...interface{}) {
	fmt.Printf("HARNESS-ERROR vinst: "+format+"\n", a...)
	os.Exit(2)
}

const vschedPath = "github.com/paulmach/osm/vsched"

var (
	repo        = flag.String("repo", "/repo", "root of the module under test")
	outDir      = flag.String("out", "", "output directory")
	baseOverlay = flag.String("base-overlay", "", "overlay json whose replacements are the sources to read (mutation testing)")
	vschedDir   = flag.String("vsched", "/verif/engine/vsched", "directory with the vsched sources")
	fieldsFlag  = flag.Bool("fields", true, "instrument reads/writes of package-local struct fields for the race tracker")
)

func main() {
	var pkgs, mapPkgs multi
	flag.Var(&pkgs, "pkg", "dir:file1.go,file2.go to instrument (concurrency primitives)")
	flag.Var(&mapPkgs, "maprange", "dir:file.go whose map ranges are put under explorer control")
	flag.Parse()
	if *outDir == "" {
		fatalf("-out is required")
	}
	if abs, err := filepath.Abs(*outDir); err == nil {
		*outDir = abs
	}
	// the source importer resolves imports through the go command, relative to
	// the current directory: it must be inside the module under test
	if err := os.Chdir(*repo); err != nil {
		fatalf("%v", err)
	}
	base := map[string]string{}
	if *baseOverlay != "" {
		data, err := os.ReadFile(*baseOverlay)
		if err != nil {
			fatalf("%v", err)
		}
		var o struct{ Replace map[string]string }
		if err := json.Unmarshal(data, &o); err != nil {
			fatalf("base overlay: %v", err)
		}
		base = o.Replace
	}
	overlay := map[string]string{}
	for k, v := range base {
		overlay[k] = v
	}
	// the virtual package vsched
	ents, err := os.ReadDir(*vschedDir)
	if err != nil {
		fatalf("%v", err)
	}
	for _, e := range ents {
		if strings.HasSuffix(e.Name(), ".go") && !strings.HasSuffix(e.Name(), "_test.go") {
			overlay[filepath.Join(*repo, "vsched", e.Name())] = filepath.Join(*vschedDir, e.Name())
		}
	}
	do := func(spec string, mapRange bool) {
		parts := strings.SplitN(spec, ":", 2)
		if len(parts) != 2 {
			fatalf("bad spec %q", spec)
		}
		dir := parts[0]
		files := strings.Split(parts[1], ",")
		out := instrumentPackage(dir, files, base, mapRange)
		for name, src := range out {
			dst := filepath.Join(*outDir, strings.ReplaceAll(dir, "/", "_"), name)
			os.MkdirAll(filepath.Dir(dst), 0o755)
			if err := os.WriteFile(dst, src, 0o644); err != nil {
				fatalf("%v", err)
			}
			overlay[filepath.Join(*repo, dir, name)] = dst
		}
	}
	for _, p := range pkgs {
		do(p, false)
	}
	for _, p := range mapPkgs {
		do(p, true)
	}
	data, _ := json.MarshalIndent(map[string]interface{}{"Replace": overlay}, "", " ")
	if err := os.WriteFile(filepath.Join(*outDir, "overlay.json"), data, 0o644); err != nil {
		fatalf("%v", err)
	}
}

type inst struct {
	fset     *token.FileSet
	info     *types.Info
	pkg      *types.Package
	counter  int
	mapRange bool
	fname    string
	used     bool // something was rewritten that needs the vsched import

	// facts collected on the original, typed AST before anything is rewritten
	commOps    map[ast.Node]bool        // send/receive operations that are select cases
	chanRanges map[*ast.RangeStmt]bool  // range over a channel
	mapRanges  map[*ast.RangeStmt]bool  // range over a map
	builtins   map[*ast.CallExpr]string // close/len/cap on a channel -> method name
}

func (in *inst) collect(f *ast.File) {
	in.commOps = map[ast.Node]bool{}
	in.chanRanges = map[*ast.RangeStmt]bool{}
	in.mapRanges = map[*ast.RangeStmt]bool{}
	in.builtins = map[*ast.CallExpr]string{}
	ast.Inspect(f, func(n ast.Node) bool {
		switch x := n.(type) {
		case *ast.CommClause:
			switch comm := x.Comm.(type) {
			case *ast.SendStmt:
				in.commOps[comm] = true
			case *ast.ExprStmt:
				in.commOps[unparen(comm.X)] = true
			case *ast.AssignStmt:
				if len(comm.Rhs) == 1 {
					in.commOps[unparen(comm.Rhs[0])] = true
				}
			}
		case *ast.RangeStmt:
			if in.isChan(x.X) {
				in.chanRanges[x] = true
			} else if in.isMap(x.X) {
				in.mapRanges[x] = true
			}
		case *ast.CallExpr:
			if id, ok := x.Fun.(*ast.Ident); ok && len(x.Args) == 1 {
				if _, isBuiltin := in.info.Uses[id].(*types.Builtin); isBuiltin {
					switch id.Name {
					case "close":
						in.builtins[x] = "Close"
					case "len":
						if in.isChan(x.Args[0]) {
							in.builtins[x] = "Len"
						}
					case "cap":
						if in.isChan(x.Args[0]) {
							in.builtins[x] = "Cap"
						}
					}
				}
			}
		}
		return true
	})
}

func instrumentPackage(dir string, files []string, base map[string]string, mapRange bool) map[string][]byte {
	abs := filepath.Join(*repo, dir)
	ctx := build.Default
	ctx.CgoEnabled = false
	bp, err := ctx.ImportDir(abs, 0)
	if err != nil {
		fatalf("%s: %v", dir, err)
	}
	fset := token.NewFileSet()
	var asts []*ast.File
	byName := map[string]*ast.File{}
	for _, name := range bp.GoFiles {
		path := filepath.Join(abs, name)
		src := path
		if r, ok := base[path]; ok {
			src = r
		}
		data, err := os.ReadFile(src)
		if err != nil {
			fatalf("%v", err)
		}
		f, err := parser.ParseFile(fset, path, data, parser.ParseComments)
		if err != nil {
			fatalf("parse %s: %v", path, err)
		}
		asts = append(asts, f)
		byName[name] = f
	}
	info := &types.Info{Types: map[ast.Expr]types.TypeAndValue{}, Uses: map[*ast.Ident]types.Object{}, Defs: map[*ast.Ident]types.Object{}, Selections: map[*ast.SelectorExpr]*types.Selection{}}
	var terrs []string
	conf := types.Config{Importer: importer.ForCompiler(fset, "source", nil), Error: func(err error) { terrs = append(terrs, err.Error()) }}
	pkg, _ := conf.Check(bp.ImportPath, fset, asts, info)
	if len(terrs) > 0 {
		fatalf("type check of %s failed (the tree does not compile?): %s", dir, strings.Join(terrs[:min(3, len(terrs))], "; "))
	}
	out := map[string][]byte{}
	for _, name := range files {
		f := byName[name]
		if f == nil {
			fatalf("%s/%s is not part of the package for this build configuration", dir, name)
		}
		for _, cg := range f.Comments {
			for _, c := range cg.List {
				if strings.HasPrefix(c.Text, "//go:build") || strings.HasPrefix(c.Text, "// +build") {
					fatalf("unsupported construct %s: build constraint in an instrumented file", fset.Position(c.Pos()))
				}
			}
		}
		in := &inst{fset: fset, info: info, pkg: pkg, mapRange: mapRange, fname: name}
		in.rewriteFile(f)
		var buf bytes.Buffer
		buf.WriteString("//go:build verif && go1.21\n\n// Code generated by /verif/tools/vinst from " + filepath.Join(dir, name) + "; DO NOT EDIT.\n\n")
		// drop comments: positions no longer match after rewriting
		f.Comments = nil
		f.Doc = nil
		if err := format.Node(&buf, fset, f); err != nil {
			fatalf("print %s: %v", name, err)
		}
		// self check: the output parses
		if _, err := parser.ParseFile(token.NewFileSet(), name, buf.Bytes(), 0); err != nil {
			fatalf("generated %s does not parse: %v", name, err)
		}
		out[name] = buf.Bytes()
	}
	return out
}

func min(a, b int) int {
	if a < b {
		return a
	}
	return b
}

func vs(name string) ast.Expr {
	return &ast.SelectorExpr{X: ast.NewIdent("vsched"), Sel: ast.NewIdent(name)}
}

func call(fun ast.Expr, args ...ast.Expr) *ast.CallExpr { return &ast.CallExpr{Fun: fun, Args: args} }

func method(x ast.Expr, name string, args ...ast.Expr) *ast.CallExpr {
	return call(&ast.SelectorExpr{X: x, Sel: ast.NewIdent(name)}, args...)
}

func (in *inst) pos(n ast.Node) string { return in.fset.Position(n.Pos()).String() }

func (in *inst) isChan(e ast.Expr) bool {
	t := in.info.TypeOf(e)
	if t == nil {
		return false
	}
	_, ok := t.Underlying().(*types.Chan)
	return ok
}

func (in *inst) isMap(e ast.Expr) bool {
	t := in.info.TypeOf(e)
	if t == nil {
		return false
	}
	_, ok := t.Underlying().(*types.Map)
	return ok
}

// pkgIdent reports whether e is an identifier that refers to the import of path.
func (in *inst) pkgIdent(e ast.Expr, path string) bool {
	id, ok := e.(*ast.Ident)
	if !ok {
		return false
	}
	pn, ok := in.info.Uses[id].(*types.PkgName)
	return ok && pn.Imported().Path() == path
}

// isChanTypeExpr recognises the *vsched.Chan[T] expression we generate.
func isChanTypeExpr(e ast.Expr) (ast.Expr, bool) {
	st, ok := e.(*ast.StarExpr)
	if !ok {
		return nil, false
	}
	ix, ok := st.X.(*ast.IndexExpr)
	if !ok {
		return nil, false
	}
	sel, ok := ix.X.(*ast.SelectorExpr)
	if !ok {
		return nil, false
	}
	if id, ok := sel.X.(*ast.Ident); ok && id.Name == "vsched" && sel.Sel.Name == "Chan" {
		return ix.Index, true
	}
	return nil, false
}

func unparen(e ast.Expr) ast.Expr {
	for {
		p, ok := e.(*ast.ParenExpr)
		if !ok {
			return e
		}
		e = p.X
	}
}

// chanOperand maps the operand of a receive: x.Done() becomes vsched.DoneChan(x).
func (in *inst) chanOperand(e ast.Expr) ast.Expr {
	e = unparen(e)
	if c, ok := e.(*ast.CallExpr); ok && len(c.Args) == 0 {
		if sel, ok := c.Fun.(*ast.SelectorExpr); ok && sel.Sel.Name == "Done" {
			in.used = true
			return call(vs("DoneChan"), sel.X)
		}
	}
	return e
}

func (in *inst) rewriteFile(f *ast.File) {
	in.collect(f)
	if *fieldsFlag && !in.mapRange {
		in.instrumentFields(f)
	}
	astutil.Apply(f, nil, in.post)
	if in.used {
		astutil.AddNamedImport(in.fset, f, "vsched", vschedPath)
	}
	for _, p := range []string{"sync", "sync/atomic", "context", "runtime"} {
		if !astutil.UsesImport(f, p) {
			astutil.DeleteImport(in.fset, f, p)
		}
	}
}

func (in *inst) post(c *astutil.Cursor) bool {
	switch n := c.Node().(type) {
	case *ast.ChanType:
		in.used = true
		c.Replace(&ast.StarExpr{X: &ast.IndexExpr{X: vs("Chan"), Index: n.Value}})
	case *ast.SelectStmt:
		c.Replace(in.rewriteSelect(n))
	case *ast.RangeStmt:
		if in.chanRanges[n] {
			c.Replace(in.rewriteRangeChan(n))
		} else if in.mapRange && in.mapRanges[n] {
			c.Replace(in.rewriteRangeMap(n))
		}
	case *ast.GoStmt:
		c.Replace(in.rewriteGo(n))
	case *ast.CallExpr:
		if m, ok := in.builtins[n]; ok {
			c.Replace(method(n.Args[0], m))
			break
		}
		if id, ok := n.Fun.(*ast.Ident); ok && id.Name == "make" && len(n.Args) >= 1 {
			if elem, ok := isChanTypeExpr(n.Args[0]); ok {
				size := ast.Expr(&ast.BasicLit{Kind: token.INT, Value: "0"})
				if len(n.Args) > 1 {
					size = n.Args[1]
				}
				in.used = true
				c.Replace(call(&ast.IndexExpr{X: vs("MakeChan"), Index: elem}, size))
			}
		}
	case *ast.SendStmt:
		if in.commOps[n] {
			break // rewritten with its select statement
		}
		c.Replace(&ast.ExprStmt{X: method(n.Chan, "Send", n.Value)})
	case *ast.UnaryExpr:
		if n.Op != token.ARROW || in.commOps[n] {
			break
		}
		name := "Recv"
		switch p := c.Parent().(type) {
		case *ast.AssignStmt:
			if len(p.Lhs) == 2 && len(p.Rhs) == 1 {
				name = "Recv2"
			}
		case *ast.ValueSpec:
			if len(p.Names) == 2 && len(p.Values) == 1 {
				name = "Recv2"
			}
		}
		c.Replace(method(in.chanOperand(n.X), name))
	case *ast.SelectorExpr:
		switch {
		case in.pkgIdent(n.X, "sync"):
			switch n.Sel.Name {
			case "WaitGroup", "Mutex", "RWMutex", "Once", "Pool":
				in.used = true
				c.Replace(vs(n.Sel.Name))
			default:
				fatalf("unsupported construct %s: sync.%s", in.pos(n), n.Sel.Name)
			}
		case in.pkgIdent(n.X, "sync/atomic"):
			switch n.Sel.Name {
			case "LoadInt64", "StoreInt64", "AddInt64", "LoadInt32", "StoreInt32", "AddInt32", "CompareAndSwapInt64", "CompareAndSwapInt32",
				"SwapInt64", "SwapInt32", "LoadUint64", "StoreUint64", "AddUint64", "SwapUint64", "CompareAndSwapUint64",
				"LoadUint32", "StoreUint32", "AddUint32", "SwapUint32", "CompareAndSwapUint32",
				"Int64", "Int32", "Uint64", "Uint32", "Bool": // the last five: the typed atomics
				in.used = true
				c.Replace(vs("Atomic" + n.Sel.Name))
			default:
				fatalf("unsupported construct %s: atomic.%s", in.pos(n), n.Sel.Name)
			}
		case in.pkgIdent(n.X, "context"):
			switch n.Sel.Name {
			case "WithCancel", "WithTimeout", "WithDeadline", "WithCancelCause", "Cause":
				in.used = true
				c.Replace(vs(n.Sel.Name))
			case "WithTimeoutCause", "WithDeadlineCause", "AfterFunc", "WithoutCancel":
				fatalf("unsupported construct %s: context.%s", in.pos(n), n.Sel.Name)
			}
		case in.pkgIdent(n.X, "runtime"):
			if n.Sel.Name == "Gosched" {
				// a spin loop that yields to the Go scheduler yields to ours
				in.used = true
				c.Replace(vs("Gosched"))
			}
		case in.pkgIdent(n.X, "time"):
			switch n.Sel.Name {
			case "Sleep":
				// a pause inside a retry / polling loop: like Gosched a scheduling point at
				// which the thread stays enabled (no clock is modelled: nothing in the
				// explored executions may depend on how long the pause is)
				in.used = true
				c.Replace(vs("Sleep"))
			case "After", "NewTimer", "NewTicker", "Tick", "AfterFunc":
				fatalf("unsupported construct %s: time.%s (timers are not modelled)", in.pos(n), n.Sel.Name)
			}
		}
	}
	return true
}

func (in *inst) tmp(prefix string) string {
	in.counter++
	return fmt.Sprintf("_v%s%d", prefix, in.counter)
}

func (in *inst) rewriteSelect(s *ast.SelectStmt) ast.Stmt {
	in.used = true
	block := &ast.BlockStmt{}
	sw := &ast.SwitchStmt{Body: &ast.BlockStmt{}}
	hasDefault := false
	var arms []ast.Expr
	for _, cl := range s.Body.List {
		cc := cl.(*ast.CommClause)
		if cc.Comm == nil {
			hasDefault = true
			sw.Body.List = append(sw.Body.List, &ast.CaseClause{List: nil, Body: cc.Body})
			continue
		}
		name := in.tmp("arm")
		idx := &ast.BasicLit{Kind: token.INT, Value: fmt.Sprint(len(arms))}
		var init ast.Expr
		body := cc.Body
		switch comm := cc.Comm.(type) {
		case *ast.SendStmt:
			init = method(comm.Chan, "SendCase", comm.Value)
		case *ast.ExprStmt:
			u, ok := unparen(comm.X).(*ast.UnaryExpr)
			if !ok || u.Op != token.ARROW {
				fatalf("unsupported construct %s: select case", in.pos(comm))
			}
			init = method(in.chanOperand(u.X), "RecvCase")
		case *ast.AssignStmt:
			if len(comm.Rhs) != 1 {
				fatalf("unsupported construct %s: select case", in.pos(comm))
			}
			u, ok := unparen(comm.Rhs[0]).(*ast.UnaryExpr)
			if !ok || u.Op != token.ARROW {
				fatalf("unsupported construct %s: select case", in.pos(comm))
			}
			init = method(in.chanOperand(u.X), "RecvCase")
			rhs := []ast.Expr{&ast.SelectorExpr{X: ast.NewIdent(name), Sel: ast.NewIdent("Val")}}
			if len(comm.Lhs) == 2 {
				rhs = append(rhs, &ast.SelectorExpr{X: ast.NewIdent(name), Sel: ast.NewIdent("Ok")})
			}
			asg := &ast.AssignStmt{Lhs: comm.Lhs, Tok: comm.Tok, Rhs: rhs}
			body = append([]ast.Stmt{asg}, body...)
			// a variable defined by the case but unused in the body would not compile
			if comm.Tok == token.DEFINE {
				for _, l := range comm.Lhs {
					if id, ok := l.(*ast.Ident); ok && id.Name != "_" {
						body = append(body[:1:1], append([]ast.Stmt{&ast.AssignStmt{Lhs: []ast.Expr{ast.NewIdent("_")}, Tok: token.ASSIGN, Rhs: []ast.Expr{ast.NewIdent(id.Name)}}}, body[1:]...)...)
					}
				}
			}
		default:
			fatalf("unsupported construct %s: select case", in.pos(cc))
		}
		block.List = append(block.List, &ast.AssignStmt{Lhs: []ast.Expr{ast.NewIdent(name)}, Tok: token.DEFINE, Rhs: []ast.Expr{init}})
		arms = append(arms, ast.NewIdent(name))
		sw.Body.List = append(sw.Body.List, &ast.CaseClause{List: []ast.Expr{idx}, Body: body})
	}
	hd := ast.NewIdent("false")
	if hasDefault {
		hd = ast.NewIdent("true")
	} else {
		// keeps the statement terminating when every case is (like the select it replaces)
		sw.Body.List = append(sw.Body.List, &ast.CaseClause{List: nil, Body: []ast.Stmt{&ast.ExprStmt{X: call(ast.NewIdent("panic"), &ast.BasicLit{Kind: token.STRING, Value: `"vsched: select returned no case"`})}}})
	}
	sw.Tag = call(vs("Select"), append([]ast.Expr{hd}, arms...)...)
	block.List = append(block.List, sw)
	return block
}

func (in *inst) rewriteRangeChan(n *ast.RangeStmt) ast.Stmt {
	in.used = true
	ok := in.tmp("ok")
	var recv ast.Stmt
	lhs0 := ast.Expr(ast.NewIdent("_"))
	if n.Key != nil {
		lhs0 = n.Key
	}
	var pre []ast.Stmt
	if n.Key != nil && n.Tok == token.ASSIGN {
		pre = append(pre, &ast.DeclStmt{Decl: &ast.GenDecl{Tok: token.VAR, Specs: []ast.Spec{&ast.ValueSpec{Names: []*ast.Ident{ast.NewIdent(ok)}, Type: ast.NewIdent("bool")}}}})
		recv = &ast.AssignStmt{Lhs: []ast.Expr{lhs0, ast.NewIdent(ok)}, Tok: token.ASSIGN, Rhs: []ast.Expr{method(n.X, "Recv2")}}
	} else {
		recv = &ast.AssignStmt{Lhs: []ast.Expr{lhs0, ast.NewIdent(ok)}, Tok: token.DEFINE, Rhs: []ast.Expr{method(n.X, "Recv2")}}
	}
	brk := &ast.IfStmt{Cond: &ast.UnaryExpr{Op: token.NOT, X: ast.NewIdent(ok)}, Body: &ast.BlockStmt{List: []ast.Stmt{&ast.BranchStmt{Tok: token.BREAK}}}}
	body := &ast.BlockStmt{List: append(append(pre, recv, brk), n.Body.List...)}
	return &ast.ForStmt{Body: body}
}

func (in *inst) rewriteRangeMap(n *ast.RangeStmt) ast.Stmt {
	in.used = true
	m := in.tmp("m")
	k := in.tmp("k")
	// { _m := X; for _, _k := range vsched.MapKeys(_m) { key, val := _k, _m[_k]; body } }
	var assigns []ast.Stmt
	if n.Key != nil || n.Value != nil {
		var lhs, rhs []ast.Expr
		if n.Key != nil {
			lhs = append(lhs, n.Key)
			rhs = append(rhs, ast.NewIdent(k))
		}
		if n.Value != nil {
			lhs = append(lhs, n.Value)
			rhs = append(rhs, &ast.IndexExpr{X: ast.NewIdent(m), Index: ast.NewIdent(k)})
		}
		assigns = append(assigns, &ast.AssignStmt{Lhs: lhs, Tok: n.Tok, Rhs: rhs})
		if n.Tok == token.DEFINE {
			for _, l := range lhs {
				if id, ok := l.(*ast.Ident); ok && id.Name != "_" {
					assigns = append(assigns, &ast.AssignStmt{Lhs: []ast.Expr{ast.NewIdent("_")}, Tok: token.ASSIGN, Rhs: []ast.Expr{ast.NewIdent(id.Name)}})
				}
			}
		}
	}
	loop := &ast.RangeStmt{Key: ast.NewIdent("_"), Value: ast.NewIdent(k), Tok: token.DEFINE, X: call(vs("MapKeys"), ast.NewIdent(m)),
		Body: &ast.BlockStmt{List: append(assigns, n.Body.List...)}}
	return &ast.BlockStmt{List: []ast.Stmt{
		&ast.AssignStmt{Lhs: []ast.Expr{ast.NewIdent(m)}, Tok: token.DEFINE, Rhs: []ast.Expr{n.X}},
		loop,
	}}
}

func (in *inst) rewriteGo(n *ast.GoStmt) ast.Stmt {
	in.used = true
	if fl, ok := n.Call.Fun.(*ast.FuncLit); ok && len(n.Call.Args) == 0 {
		return &ast.ExprStmt{X: call(vs("Go"), fl)}
	}
	// evaluate the arguments now, call later
	block := &ast.BlockStmt{}
	var args []ast.Expr
	for _, a := range n.Call.Args {
		name := in.tmp("arg")
		block.List = append(block.List, &ast.AssignStmt{Lhs: []ast.Expr{ast.NewIdent(name)}, Tok: token.DEFINE, Rhs: []ast.Expr{a}})
		args = append(args, ast.NewIdent(name))
	}
	fn := &ast.FuncLit{Type: &ast.FuncType{Params: &ast.FieldList{}}, Body: &ast.BlockStmt{List: []ast.Stmt{&ast.ExprStmt{X: &ast.CallExpr{Fun: n.Call.Fun, Args: args, Ellipsis: n.Call.Ellipsis}}}}}
	block.List = append(block.List, &ast.ExprStmt{X: call(vs("Go"), fn)})
	return block
}

// ---- field access instrumentation for the happens-before race tracker ----

// instrumentFields wraps reads and writes of fields of struct types declared
// in this package, and of package-level variables, in *vsched.R(&x) / *vsched.W(&x).
// It runs BEFORE the concurrency rewrite, on the original (typed) AST.
func (in *inst) instrumentFields(f *ast.File) {
	writes := map[ast.Expr]bool{}
	skip := map[ast.Expr]bool{}
	ast.Inspect(f, func(n ast.Node) bool {
		switch s := n.(type) {
		case *ast.AssignStmt:
			if s.Tok != token.DEFINE {
				for _, l := range s.Lhs {
					writes[unparen(l)] = true
				}
			}
		case *ast.IncDecStmt:
			writes[unparen(s.X)] = true
		case *ast.UnaryExpr:
			if s.Op == token.AND {
				// &x.f: the address is taken, what happens through the pointer is not visible here
				skip[unparen(s.X)] = true
			}
		case *ast.CallExpr:
			// method calls on a field value (x.wg.Add): the receiver expression is
			// only addressed; the callee synchronises itself (sync types) or is instrumented itself
			if sel, ok := s.Fun.(*ast.SelectorExpr); ok {
				if ms, isSel := in.info.Selections[sel]; isSel && ms.Kind() == types.MethodVal {
					if t := in.info.TypeOf(sel.X); t != nil {
						if _, isStruct := t.Underlying().(*types.Struct); isStruct {
							skip[unparen(sel.X)] = true
						}
					}
				}
			}
		case *ast.RangeStmt:
			if s.Tok != token.DEFINE {
				if s.Key != nil {
					writes[unparen(s.Key)] = true
				}
				if s.Value != nil {
					writes[unparen(s.Value)] = true
				}
			}
		}
		return true
	})
	astutil.Apply(f, nil, func(c *astutil.Cursor) bool {
		e, ok := c.Node().(ast.Expr)
		if !ok {
			return true
		}
		switch x := e.(type) {
		case *ast.SelectorExpr:
			sel := in.info.Selections[x]
			if sel == nil || sel.Kind() != types.FieldVal {
				return true
			}
			if !in.trackedField(sel) || skip[x] {
				return true
			}
			// an inner part of a longer selector chain on a struct VALUE is only an
			// address computation: x.a.b with a of struct type accesses b only
			if p, ok := c.Parent().(*ast.SelectorExpr); ok && p.X == x {
				if _, isPtr := in.info.TypeOf(x).Underlying().(*types.Pointer); !isPtr {
					if ps := in.info.Selections[p]; ps != nil && ps.Kind() == types.FieldVal {
						return true
					}
				}
			}
			if !in.addressable(x) {
				return true
			}
			in.used = true
			fn := "R"
			if writes[x] {
				fn = "W"
			}
			c.Replace(&ast.StarExpr{X: call(vs(fn), &ast.UnaryExpr{Op: token.AND, X: x})})
		case *ast.Ident:
			v, ok := in.info.Uses[x].(*types.Var)
			if !ok || v.IsField() || v.Pkg() != in.pkg || v.Parent() != in.pkg.Scope() {
				return true
			}
			if skip[x] || !in.plainData(v.Type()) {
				return true
			}
			switch p := c.Parent().(type) {
			case *ast.SelectorExpr:
				if p.Sel == x {
					return true
				}
			case *ast.KeyValueExpr:
				if p.Key == x {
					return true
				}
			}
			in.used = true
			fn := "R"
			if writes[x] {
				fn = "W"
			}
			c.Replace(&ast.StarExpr{X: call(vs(fn), &ast.UnaryExpr{Op: token.AND, X: x})})
		}
		return true
	})
}

// trackedField: a field of a struct type declared in this package whose type is
// plain data (not a synchronisation object).
func (in *inst) trackedField(sel *types.Selection) bool {
	v, ok := sel.Obj().(*types.Var)
	if !ok || v.Pkg() != in.pkg {
		return false
	}
	return in.plainData(v.Type())
}

func (in *inst) plainData(t types.Type) bool {
	switch u := t.Underlying().(type) {
	case *types.Chan:
		return false
	case *types.Struct:
		if n, ok := t.(*types.Named); ok && n.Obj().Pkg() != nil {
			switch n.Obj().Pkg().Path() {
			case "sync", "sync/atomic":
				return false
			}
		}
		_ = u
	}
	return true
}

// addressable: the selector can have its address taken.
func (in *inst) addressable(x *ast.SelectorExpr) bool {
	tv, ok := in.info.Types[x]
	return ok && tv.Addressable()
}

var _ = sort.Strings
