#!/bin/bash
# tools/seedtest_overlay.sh <id> [check ids to run, default the id's property]
# Like tools/seedtest.sh, but /repo is never touched: the independently written change stays
# applied in its scratch worktree /tmp/seed/<id> and the checks are built with a go build
# overlay that maps every file the patch changes or adds onto the worktree's copy
# (VERIF_OVERLAY for the checks with a run.sh, go build -overlay for the plain ones).
# The worktree must have been created from /repo's current HEAD.
set -u
id=$1; shift
checks=${*:-${id:0:3}}
W=/tmp/seed/$id; O=/tmp/seed/$id.out
T=$(mktemp -d /tmp/seedov.XXXXXX)
mkdir -p $T/root; cp /verif/known_findings.json $T/root/
export GOFLAGS=-mod=mod GOPROXY=off GOSUMDB=off GOTOOLCHAIN=local
cd $W || exit 9
if [ "$(git rev-parse HEAD)" != "$(git -C /repo rev-parse HEAD)" ]; then echo "WORKTREE IS NOT AT /repo HEAD"; exit 5; fi
git checkout -q -- . && git clean -fdq
head -1 $O/demo_test.go
dir=$(head -3 $O/demo_test.go | grep -o -E '(osmpbf|osmxml|annotate(/internal/core)?|osmgeojson|osmapi|replication|internal/mputil|repository root|root package|\(root\)|^// *\.)' | head -1)
case "$dir" in ""|"repository root"|"root package"|"(root)"|*". ") dir=.;; esac
[ -n "${SEED_DIR:-}" ] && dir=$SEED_DIR
echo "demo dir: $dir"
cp $O/demo_test.go $W/$dir/zz_seed_demo_test.go
tests="$(grep -o -E 'func (Test[A-Za-z0-9_]+)' $W/$dir/zz_seed_demo_test.go | sed 's/func //' | paste -sd'|')"
echo "--- demo WITHOUT change (expect ok)"
(cd $W/$dir && go test -vet=off -count=1 -timeout 120s -run "$tests" . 2>&1 | tail -3)
rm -f $W/$dir/zz_seed_demo_test.go
git apply $O/patch.diff || { echo "PATCH DOES NOT APPLY"; exit 8; }
files=$(git diff --name-only; git ls-files --others --exclude-standard)
pkgs=$(for f in $files; do echo ./$(dirname $f); done | sort -u | grep -v osmpbf | tr '\n' ' ')
echo "changed: $files"
go build ./... || { echo "BUILD FAILS"; git checkout -q -- .; git clean -fdq; exit 7; }
if [ -n "$pkgs" ]; then
  deps="$pkgs"; echo "$pkgs" | grep -q '^\./\. \|^\./\.$\| \./\. ' && deps="./ ./annotate/... ./osmgeojson ./osmapi ./osmxml ./replication ./internal/..."
  go test -vet=off -count=1 $deps 2>&1 | grep -v "no test files" | tail -12
fi
cp $O/demo_test.go $W/$dir/zz_seed_demo_test.go
echo "--- demo WITH change (expect FAIL)"
(cd $W/$dir && go test -vet=off -count=1 -timeout 120s -run "$tests" . 2>&1 | tail -4)
rm -f $W/$dir/zz_seed_demo_test.go
echo "--- checks built with an overlay of the changed files (the worktree keeps the change; /repo untouched)"
echo '{"Replace":{' > $T/o.json; sep=""
for f in $files; do echo "$sep\"/repo/$f\":\"$W/$f\"" >> $T/o.json; sep=","; done
echo '}}' >> $T/o.json
cd /verif; . ./env.sh
for c in $checks; do
  lc=$(echo "$c" | tr 'A-Z' 'a-z')
  if [ -x props/$lc/run.sh ]; then
    VERIF_ROOT=$T/root VERIF_OVERLAY=$T/o.json VERIF_BIN=$T props/$lc/run.sh quick 2>&1 | grep -v "^  \|^KNOWN" | tail -5 | cut -c1-400
  else
    go build -overlay $T/o.json -o $T/$lc ./props/$lc || { echo "HARNESS BUILD FAILED"; continue; }
    VERIF_ROOT=$T/root $T/$lc -tier quick 2>&1 | grep -v "^  \|^KNOWN" | tail -5 | cut -c1-400
  fi
done
cd $W && git checkout -q -- . && git clean -fdq
rm -rf $T
