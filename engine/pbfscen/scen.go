//go:build verif

// Package pbfscen holds the small closed drivers (scenarios) around the
// instrumented osmpbf pipeline that C02, C06, C07 and C08 explore under vsched.
package pbfscen

import (
	"fmt"
	"io"

	"github.com/paulmach/osm"
	"github.com/paulmach/osm/vsched"

	"verif/gen/pbfgen"
)

// File builds header + b data blocks; block i holds two objects whose ids are
// 100*(i+1)+position; block kinds cycle dense / ways / relations.
func File(b int, header bool) *pbfgen.File {
	f := &pbfgen.File{}
	if header {
		f.Header = pbfgen.StdHeader()
	}
	for i := 0; i < b; i++ {
		base := int64(100 * (i + 1))
		var g pbfgen.Group
		switch i % 3 {
		case 0:
			d := &pbfgen.Dense{Info: true, Cols: pbfgen.ColsMask(63), KeysVals: true,
				Nodes: []pbfgen.DNode{pbfgen.DenseNode(base+1, base+1), pbfgen.DenseNode(base+2, base+2)}}
			g = pbfgen.Group{Dense: d}
		case 1:
			g = pbfgen.Group{Ways: []pbfgen.Way{
				{ID: base + 1, Tags: [][2]string{{"highway", "path"}}, Info: pbfgen.FullInfo(base + 1), Refs: []int64{base, base + 5, base + 9}},
				{ID: base + 2, Info: pbfgen.FullInfo(base + 2), Refs: []int64{base + 3, base + 4}, Lats: []int64{1, 2}, Lons: []int64{3, 4}}}}
		case 2:
			g = pbfgen.Group{Relations: []pbfgen.Relation{
				{ID: base + 1, Tags: [][2]string{{"type", "route"}}, Info: pbfgen.FullInfo(base + 1), Members: []pbfgen.Member{{0, base, "a"}, {1, base + 1, "b"}}},
				{ID: base + 2, Info: pbfgen.FullInfo(base + 2), Members: []pbfgen.Member{{2, base + 7, ""}}}}}
		}
		f.Blocks = append(f.Blocks, pbfgen.Block{Groups: []pbfgen.Group{g}})
	}
	return f
}

// FileVaried is File with the first two blocks stating non-default block
// parameters (granularity, offsets, date granularity) and the later ones
// omitting them: a decoder that handled one of the first blocks must not carry
// its parameters into a later block. All objects share one uid under different
// user names.
func FileVaried(b int, header bool) *pbfgen.File {
	f := File(b, header)
	for i := 0; i < 2 && i < len(f.Blocks); i++ {
		f.Blocks[i].Granularity, f.Blocks[i].LatOffset, f.Blocks[i].LonOffset, f.Blocks[i].DateGranularity =
			pbfgen.I32(1000), pbfgen.I64(123456000), pbfgen.I64(-98765000), pbfgen.I32(2000)
	}
	// one uid under a different display name in every object (a user who renamed):
	// what one block says about a uid says nothing about the next block
	for i := range f.Blocks {
		for _, g := range f.Blocks[i].Groups {
			if g.Dense != nil {
				for k := range g.Dense.Nodes {
					g.Dense.Nodes[k].UID = 777
				}
			}
			for k := range g.Ways {
				g.Ways[k].Info.UID = pbfgen.I32(777)
			}
			for k := range g.Relations {
				g.Relations[k].Info.UID = pbfgen.I32(777)
			}
		}
	}
	return f
}

// Reader is the scenario's input: it counts the bytes handed out and is a
// scheduling point (a slow input). With BlockOnly it yields only when a file
// block's 4-byte size prefix is requested, i.e. once per block.
type Reader struct {
	Data      []byte
	Pos       int
	BlockOnly bool
	Reads     int
	// BlocksBegun counts reads of a 4-byte size prefix that returned data.
	BlocksBegun int
	// OnRead, if set, is called before every read (after the yield).
	OnRead func(r *Reader)
	// MaxChunk limits the bytes handed out per Read (0 = no limit).
	MaxChunk int
	// Gate, if set, stalls the input: the read of the size prefix that would
	// begin file block number GateAt (0 = the header block) does not return
	// before Gate is closed - a reader parked in Read on a stalled stream.
	Gate   *vsched.Chan[struct{}]
	GateAt int
	// AfterGate, if set, is what the stalled Read and every later Read return once
	// the gate was opened (no data any more): a connection whose read deadline was
	// moved into the past when the scan was stopped keeps answering with a
	// temporary timeout error.
	AfterGate error
	gone      bool
}

func (r *Reader) Read(p []byte) (int, error) {
	if !r.BlockOnly || len(p) == 4 {
		vsched.Yield("read")
	}
	if r.gone {
		r.Reads++
		return 0, r.AfterGate
	}
	if r.Gate != nil && len(p) == 4 && r.BlocksBegun == r.GateAt {
		r.Gate.Recv()
		if r.AfterGate != nil {
			r.gone = true
			r.Reads++
			return 0, r.AfterGate
		}
	}
	if r.OnRead != nil {
		r.OnRead(r)
	}
	r.Reads++
	if r.Pos >= len(r.Data) {
		return 0, io.EOF
	}
	if r.MaxChunk > 0 && len(p) > r.MaxChunk {
		p = p[:r.MaxChunk]
	}
	n := copy(p, r.Data[r.Pos:])
	if len(p) == 4 && n > 0 {
		r.BlocksBegun++
	}
	r.Pos += n
	return n, nil
}

// Collected is what a consumer kept from a scan.
type Collected struct {
	Objects []osm.Object
	// AtReturn[i] is the difference between object i and the expected object at
	// the moment it was returned ("" = equal).
	AtReturn []string
}

// Take records object o as the next returned object.
func (c *Collected) Take(o osm.Object, want []osm.Object) {
	i := len(c.Objects)
	c.Objects = append(c.Objects, o)
	d := ""
	if i < len(want) {
		d = pbfgen.DiffObject(o, want[i])
	} else {
		d = fmt.Sprintf("object %d beyond the %d expected", i, len(want))
	}
	c.AtReturn = append(c.AtReturn, d)
}

// Judge compares what was collected with the expected prefix/sequence, both at
// return time and now (at the end of the execution: retained objects must not
// have been modified since). Returns (clause, message) or "".
func (c *Collected) Judge(want []osm.Object, complete bool) (string, string) {
	for i, d := range c.AtReturn {
		if d != "" {
			return "sequence", fmt.Sprintf("object %d as returned: %s (got ids %v, want %v)", i, d, pbfgen.IDs(c.Objects), pbfgen.IDs(want))
		}
	}
	for i, o := range c.Objects {
		if d := pbfgen.DiffObject(o, want[i]); d != "" {
			return "modified-after-return", fmt.Sprintf("object %d was equal to the expected object when returned and differs at the end of the scan: %s", i, d)
		}
	}
	if complete && len(c.Objects) != len(want) {
		return "sequence", fmt.Sprintf("scan delivered %v, want %v", pbfgen.IDs(c.Objects), pbfgen.IDs(want))
	}
	return "", ""
}
