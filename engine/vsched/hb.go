//go:build go1.21

package vsched

import (
	"fmt"
	"runtime"
	"sort"
	"strings"
	"unsafe"
)

// Happens-before tracking with vector clocks. Clocks are joined along the
// MODELLED synchronisation only (channel send->receive, k-th receive ->
// (k+cap)-th send, close -> receive-of-close, rendezvous, WaitGroup Done->Wait,
// Unlock->Lock, cancel -> observed cancellation, spawn, atomics), never along
// scheduler hand-offs. R and W record accesses of instrumented locations in a
// word-granular shadow map; two accesses to a common word from different
// threads, at least one a write, not ordered by the clocks, are a data race in
// that schedule.

type vclock []uint32

type access struct {
	tid   int
	clock uint32
	site  string
}

type shadowWord struct {
	w     access
	hasW  bool
	reads []access
}

type hbState struct {
	shadow map[uintptr]*shadowWord
	keep   []interface{}
	atoms  map[uintptr]vclock
	races  map[string]struct{}
	off    bool
}

func (h *hbState) init() {
	h.shadow = map[uintptr]*shadowWord{}
	h.atoms = map[uintptr]vclock{}
	h.races = map[string]struct{}{}
}

func (h *hbState) newClock(parent *thread, id int) vclock {
	var vc vclock
	if parent != nil {
		vc = append(vclock{}, parent.vc...)
		parent.vc = inc(parent.vc, parent.id)
	}
	return inc(vc, id)
}

func inc(vc vclock, id int) vclock {
	for len(vc) <= id {
		vc = append(vc, 0)
	}
	vc[id]++
	return vc
}

func (h *hbState) join(a, b vclock) vclock {
	out := append(vclock{}, a...)
	for len(out) < len(b) {
		out = append(out, 0)
	}
	for i, v := range b {
		if v > out[i] {
			out[i] = v
		}
	}
	return out
}

// release returns a snapshot of t's clock and advances t.
func (h *hbState) release(t *thread) vclock {
	snap := append(vclock{}, t.vc...)
	t.vc = inc(t.vc, t.id)
	return snap
}

func (h *hbState) acquire(t *thread, vc vclock) {
	if vc == nil {
		return
	}
	t.vc = h.join(t.vc, vc)
}

func (h *hbState) rendezvous(t, u *thread) {
	m := h.join(t.vc, u.vc)
	t.vc = inc(append(vclock{}, m...), t.id)
	u.vc = inc(append(vclock{}, m...), u.id)
}

func (h *hbState) threadEnd(t *thread) {}

func (h *hbState) atomic(t *thread, p interface{}, write bool) {
	var addr uintptr
	switch v := p.(type) {
	case *int64:
		addr = uintptr(unsafe.Pointer(v))
	case *int32:
		addr = uintptr(unsafe.Pointer(v))
	case *uint64:
		addr = uintptr(unsafe.Pointer(v))
	case *uint32:
		addr = uintptr(unsafe.Pointer(v))
	default:
		return
	}
	h.keep = append(h.keep, p)
	h.acquire(t, h.atoms[addr])
	if write {
		h.atoms[addr] = h.release(t)
	}
}

func before(a access, vc vclock) bool {
	return a.tid < len(vc) && a.clock <= vc[a.tid]
}

func site() string {
	_, file, line, ok := runtime.Caller(3)
	if !ok {
		return "?"
	}
	if i := strings.LastIndex(file, "/"); i >= 0 {
		// keep "dir/file.go"
		if j := strings.LastIndex(file[:i], "/"); j >= 0 {
			file = file[j+1:]
		}
	}
	return fmt.Sprintf("%s:%d", file, line)
}

func (h *hbState) record(t *thread, addr, size uintptr, write bool, keep interface{}) {
	if h.off {
		return
	}
	h.keep = append(h.keep, keep)
	st := site()
	me := access{tid: t.id, clock: t.vc[t.id], site: st}
	for a := addr &^ 7; a < addr+size; a += 8 {
		sw := h.shadow[a]
		if sw == nil {
			sw = &shadowWord{}
			h.shadow[a] = sw
		}
		if sw.hasW && sw.w.tid != t.id && !before(sw.w, t.vc) {
			h.race(sw.w, "write", me, write)
		}
		if write {
			for _, r := range sw.reads {
				if r.tid != t.id && !before(r, t.vc) {
					h.race(r, "read", me, true)
				}
			}
			sw.w, sw.hasW = me, true
			sw.reads = sw.reads[:0]
		} else {
			found := false
			for i := range sw.reads {
				if sw.reads[i].tid == t.id {
					sw.reads[i] = me
					found = true
				}
			}
			if !found {
				sw.reads = append(sw.reads, me)
			}
		}
	}
}

func (h *hbState) race(prev access, prevKind string, cur access, curWrite bool) {
	k := "read"
	if curWrite {
		k = "write"
	}
	a := fmt.Sprintf("%s at %s", prevKind, prev.site)
	b := fmt.Sprintf("%s at %s", k, cur.site)
	if a > b {
		a, b = b, a
	}
	h.races[a+" / "+b] = struct{}{}
}

func (h *hbState) report() []string {
	var out []string
	for k := range h.races {
		out = append(out, k)
	}
	sort.Strings(out)
	return out
}

// R records a read of *p by the running thread and returns p.
func R[T any](p *T) *T {
	s := S
	if s == nil || s.aborting || s.cur == nil {
		return p
	}
	s.hb.record(s.cur, uintptr(unsafe.Pointer(p)), unsafe.Sizeof(*p), false, p)
	return p
}

// W records a write of *p by the running thread and returns p.
func W[T any](p *T) *T {
	s := S
	if s == nil || s.aborting || s.cur == nil {
		return p
	}
	s.hb.record(s.cur, uintptr(unsafe.Pointer(p)), unsafe.Sizeof(*p), true, p)
	return p
}
