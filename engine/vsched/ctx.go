//go:build go1.21

package vsched

import (
	"context"
	"time"
)

// Ctx is a cancellable context whose cancellation and observation are visible
// operations of the scheduler.
type Ctx struct {
	parent   context.Context
	children []*Ctx
	done     *Chan[struct{}]
	realDone chan struct{}
	err      error
	cause    error // context.Cause: the reason given to a CancelCauseFunc (nil: err)
	vc       vclock
}

var _ context.Context = (*Ctx)(nil)

// WithCancel replaces context.WithCancel.
func WithCancel(parent context.Context) (context.Context, context.CancelFunc) {
	if S == nil {
		return context.WithCancel(parent)
	}
	c := &Ctx{parent: parent, done: &Chan[struct{}]{c: newCore(0)}, realDone: make(chan struct{})}
	if p, ok := parent.(*Ctx); ok {
		if p.err != nil {
			c.cause = p.cause
			c.cancelNow(p.err, p.vc)
		} else {
			p.children = append(p.children, c)
		}
	} else if parent != nil && parent.Done() != nil {
		panic("vsched: WithCancel on a cancellable context that is not controlled by vsched")
	}
	return c, func() { c.Cancel(context.Canceled) }
}

// WithCancelCause replaces context.WithCancelCause: Err() reports context.Canceled,
// Cause(ctx) the error handed to the cancel function (context.Canceled for nil).
func WithCancelCause(parent context.Context) (context.Context, context.CancelCauseFunc) {
	if S == nil {
		return context.WithCancelCause(parent)
	}
	ctx, _ := WithCancel(parent)
	c := ctx.(*Ctx)
	return c, func(cause error) {
		if cause == nil {
			cause = context.Canceled
		}
		c.CancelCause(context.Canceled, cause)
	}
}

// Cause replaces context.Cause (a scheduling point, like Err).
func Cause(ctx context.Context) error {
	c, ok := ctx.(*Ctx)
	if !ok {
		return context.Cause(ctx)
	}
	if err := c.Err(); err == nil {
		return nil
	}
	if c.cause != nil {
		return c.cause
	}
	return c.err
}

// WithTimeout and WithDeadline are modelled as WithCancel: time never passes in
// a controlled execution.
func WithTimeout(parent context.Context, _ time.Duration) (context.Context, context.CancelFunc) {
	return WithCancel(parent)
}

// WithDeadline: see WithTimeout.
func WithDeadline(parent context.Context, _ time.Time) (context.Context, context.CancelFunc) {
	return WithCancel(parent)
}

// OnCancel, when set, is called at the moment a context is cancelled (inside
// the cancelling operation, atomically with respect to all other threads).
// Scenarios use it to take measurements "at the stop".
var OnCancel func()

func (c *Ctx) cancelNow(err error, vc vclock) {
	if c.err != nil {
		return
	}
	if OnCancel != nil {
		OnCancel()
	}
	c.err = err
	c.vc = vc
	c.done.c.closed = true
	c.done.c.closeVC = vc
	close(c.realDone)
	for _, ch := range c.children {
		if ch.err == nil {
			ch.cause = c.cause
		}
		ch.cancelNow(err, vc)
	}
}

// CancelCause is Cancel with a cause for Cause(ctx).
func (c *Ctx) CancelCause(err, cause error) {
	s := S
	if s == nil || s.aborting {
		return
	}
	if c.err != nil {
		return
	}
	s.yield(localOp{name: "ctx.cancel", f: func() {
		c.cause = cause
		c.cancelNow(err, s.hb.release(s.cur))
	}})
}

// Cancel cancels c and everything derived from it (a visible operation).
func (c *Ctx) Cancel(err error) {
	s := S
	if s == nil || s.aborting {
		return
	}
	if c.err != nil {
		return // later cancels are no-ops and commute with everything
	}
	s.yield(localOp{name: "ctx.cancel", f: func() { c.cancelNow(err, s.hb.release(s.cur)) }})
}

func (c *Ctx) Deadline() (time.Time, bool) {
	if c.parent != nil {
		return c.parent.Deadline()
	}
	return time.Time{}, false
}

// Done returns a real channel closed on cancellation. Instrumented code never
// receives from it directly (vinst rewrites <-ctx.Done() to DoneChan).
func (c *Ctx) Done() <-chan struct{} { return c.realDone }

// Err is a scheduling point: it observes shared state.
func (c *Ctx) Err() error {
	s := S
	if s == nil || s.aborting {
		return c.err
	}
	s.yield(localOp{name: "ctx.Err"})
	if c.err != nil {
		s.hb.acquire(s.cur, c.vc)
	}
	return c.err
}

func (c *Ctx) Value(key interface{}) interface{} {
	if c.parent != nil {
		return c.parent.Value(key)
	}
	return nil
}

// DoneChan returns the modelled channel that is closed when ctx is cancelled;
// nil (never ready) for contexts that cannot be cancelled.
func DoneChan(ctx context.Context) *Chan[struct{}] {
	if c, ok := ctx.(*Ctx); ok {
		return c.done
	}
	if ctx == nil || ctx.Done() == nil {
		return nil
	}
	if S == nil {
		// free-running use of instrumented code: bridge the real channel
		return &Chan[struct{}]{rc: bridge(ctx.Done())}
	}
	panic("vsched: Done() of a cancellable context that is not controlled by vsched")
}

func bridge(d <-chan struct{}) chan struct{} {
	out := make(chan struct{})
	go func() { <-d; close(out) }()
	return out
}
