//go:build go1.21

package vsched

import (
	"fmt"
	"runtime"
)

// core is the untyped model of a channel.
type core struct {
	id     int
	cap    int
	q      []qitem
	closed bool
	// clocks for happens-before: closeVC is the closer's clock; recvVC[k] is the
	// clock of the k-th receive (for "k-th receive happens before (k+cap)-th send
	// completes" on buffered channels only the last cap entries matter).
	closeVC vclock
	recvVCs []vclock
	nsent   int
	nrecv   int
	real    bool // backed by real channel semantics (outside Run)
}

type qitem struct {
	v  interface{}
	vc vclock
}

func newCore(n int) *core {
	c := &core{cap: n}
	if S != nil {
		S.nextChan++
		c.id = S.nextChan
	}
	return c
}

const (
	dirSend = 1
	dirRecv = 2
)

// scase is one case of a (possibly one-armed) select.
type scase struct {
	ch  *core // nil: never ready
	dir int
	val interface{} // value to send
	// result of a receive
	rval interface{}
	rok  bool
}

type selectOp struct {
	cases      []*scase
	hasDefault bool
	chosen     int     // index of the executed case, -1 for default
	completed  bool    // completed by a rendezvous partner
	site       uintptr // call site of a multi-way select (0 = single operation)
}

// partner finds a parked thread other than t whose pending select has a case
// of direction dir on channel c. Returns the thread, its select and case index.
func partner(t *thread, c *core, dir int) (*thread, *selectOp, int) {
	for _, u := range S.prio {
		if u == t || u.done || u.pending == nil {
			continue
		}
		so, ok := u.pending.(*selectOp)
		if !ok || so.completed {
			continue
		}
		for i, cs := range so.cases {
			if cs.ch == c && cs.dir == dir {
				return u, so, i
			}
		}
	}
	return nil, nil, 0
}

func (cs *scase) ready(t *thread) bool {
	c := cs.ch
	if c == nil {
		return false
	}
	if cs.dir == dirSend {
		if c.closed {
			return true // will panic, as in Go
		}
		if c.cap > 0 {
			return len(c.q) < c.cap
		}
		u, _, _ := partner(t, c, dirRecv)
		return u != nil
	}
	if len(c.q) > 0 || c.closed {
		return true
	}
	if c.cap == 0 {
		u, _, _ := partner(t, c, dirSend)
		return u != nil
	}
	return false
}

func (so *selectOp) alts(t *thread) []int {
	if so.completed {
		return one
	}
	var a []int
	for i, cs := range so.cases {
		if cs.ready(t) {
			a = append(a, i)
		}
	}
	if len(a) == 0 && so.hasDefault {
		return []int{-1}
	}
	if len(a) > 1 && so.site != 0 {
		// Fair default: Go picks uniformly among the ready cases, so a case that
		// stays ready is taken eventually. The deterministic default prefers the
		// ready case taken least often so far at this select statement (ties: source
		// order); the other ready cases remain alternatives at cost 1.
		cnt := S.selCounts[so.site]
		get := func(i int) int {
			if i < len(cnt) {
				return cnt[i]
			}
			return 0
		}
		for i := 1; i < len(a); i++ {
			for j := i; j > 0 && get(a[j]) < get(a[j-1]); j-- {
				a[j], a[j-1] = a[j-1], a[j]
			}
		}
	}
	return a
}

func (so *selectOp) describe() string {
	if so.completed {
		return "resume-after-rendezvous"
	}
	s := ""
	for i, cs := range so.cases {
		if i > 0 {
			s += ","
		}
		id := 0
		if cs.ch != nil {
			id = cs.ch.id
		}
		if cs.dir == dirSend {
			s += fmt.Sprintf("send(c%d)", id)
		} else {
			s += fmt.Sprintf("recv(c%d)", id)
		}
	}
	if so.hasDefault {
		s += ",default"
	}
	if len(so.cases) > 1 || so.hasDefault {
		return "select{" + s + "}"
	}
	return s
}

func (so *selectOp) exec(t *thread, a int) {
	if so.completed {
		return // the partner did the work; chosen/rval are set
	}
	so.chosen = a
	if a < 0 {
		return
	}
	if so.site != 0 {
		cnt := S.selCounts[so.site]
		for len(cnt) <= a {
			cnt = append(cnt, 0)
		}
		cnt[a]++
		S.selCounts[so.site] = cnt
	}
	cs := so.cases[a]
	c := cs.ch
	hb := &S.hb
	if cs.dir == dirSend {
		if c.closed {
			panic("send on closed channel")
		}
		if c.cap > 0 {
			// the (k+cap)-th send completes after the k-th receive
			if k := c.nsent - c.cap; k >= 0 && k < len(c.recvVCs) {
				hb.acquire(t, c.recvVCs[k])
			}
			c.q = append(c.q, qitem{cs.val, hb.release(t)})
			c.nsent++
			return
		}
		u, uso, ui := partner(t, c, dirRecv)
		if u == nil {
			panic("vsched: send scheduled without a receiver")
		}
		uso.cases[ui].rval, uso.cases[ui].rok = cs.val, true
		uso.chosen = ui
		uso.completed = true
		hb.rendezvous(t, u)
		return
	}
	// receive
	if len(c.q) > 0 {
		it := c.q[0]
		c.q = c.q[1:]
		cs.rval, cs.rok = it.v, true
		hb.acquire(t, it.vc)
		if c.cap > 0 {
			c.recvVCs = append(c.recvVCs, hb.release(t))
			c.nrecv++
		}
		return
	}
	if c.cap == 0 {
		if u, uso, ui := partner(t, c, dirSend); u != nil {
			cs.rval, cs.rok = uso.cases[ui].val, true
			uso.chosen = ui
			uso.completed = true
			hb.rendezvous(t, u)
			return
		}
	}
	if c.closed {
		cs.rval, cs.rok = nil, false
		hb.acquire(t, c.closeVC)
		return
	}
	panic("vsched: receive scheduled on an empty open channel")
}

type closeOp struct{ c *core }

func (o closeOp) alts(*thread) []int { return one }
func (o closeOp) describe() string   { return fmt.Sprintf("close(c%d)", o.c.id) }
func (o closeOp) exec(t *thread, _ int) {
	if o.c.closed {
		panic("close of closed channel")
	}
	o.c.closed = true
	o.c.closeVC = S.hb.release(t)
}

// Chan is the modelled counterpart of chan T (any direction).
type Chan[T any] struct {
	c  *core
	rc chan T // used outside controlled executions
}

// MakeChan is make(chan T, n).
func MakeChan[T any](n int) *Chan[T] {
	if S == nil {
		return &Chan[T]{rc: make(chan T, n)}
	}
	return &Chan[T]{c: newCore(n)}
}

func (ch *Chan[T]) core() *core {
	if ch == nil {
		return nil
	}
	return ch.c
}

// Send is ch <- v.
func (ch *Chan[T]) Send(v T) {
	if ch != nil && ch.rc != nil {
		ch.rc <- v
		return
	}
	s := S
	if s == nil || s.aborting {
		if s != nil {
			return
		}
		panic("vsched: modelled channel used outside Run")
	}
	so := &selectOp{cases: []*scase{{ch: ch.core(), dir: dirSend, val: v}}}
	s.yield(so)
}

// Recv2 is v, ok := <-ch.
func (ch *Chan[T]) Recv2() (T, bool) {
	var zero T
	if ch != nil && ch.rc != nil {
		v, ok := <-ch.rc
		return v, ok
	}
	s := S
	if s == nil || s.aborting {
		if s != nil {
			return zero, false
		}
		panic("vsched: modelled channel used outside Run")
	}
	cs := &scase{ch: ch.core(), dir: dirRecv}
	s.yield(&selectOp{cases: []*scase{cs}})
	if !cs.rok || cs.rval == nil {
		return zero, cs.rok
	}
	return cs.rval.(T), true
}

// Recv is <-ch.
func (ch *Chan[T]) Recv() T {
	v, _ := ch.Recv2()
	return v
}

// Close is close(ch).
func (ch *Chan[T]) Close() {
	if ch != nil && ch.rc != nil {
		close(ch.rc)
		return
	}
	s := S
	if s == nil || s.aborting {
		return
	}
	if ch == nil {
		panic("close of nil channel")
	}
	s.yield(closeOp{ch.c})
}

// Len is len(ch).
func (ch *Chan[T]) Len() int {
	if ch == nil {
		return 0
	}
	if ch.rc != nil {
		return len(ch.rc)
	}
	return len(ch.c.q)
}

// Cap is cap(ch).
func (ch *Chan[T]) Cap() int {
	if ch == nil {
		return 0
	}
	if ch.rc != nil {
		return cap(ch.rc)
	}
	return ch.c.cap
}

// Case is one arm of Select.
type Case interface {
	scase() *scase
	finish()
}

// SendC is a send arm.
type SendC[T any] struct{ cs *scase }

func (c *SendC[T]) scase() *scase { return c.cs }
func (c *SendC[T]) finish()       {}

// RecvC is a receive arm; Val and Ok hold the result when it was chosen.
type RecvC[T any] struct {
	cs  *scase
	Val T
	Ok  bool
}

func (c *RecvC[T]) scase() *scase { return c.cs }
func (c *RecvC[T]) finish() {
	c.Ok = c.cs.rok
	if c.cs.rok && c.cs.rval != nil {
		c.Val = c.cs.rval.(T)
	}
}

// SendCase builds the arm "case ch <- v".
func (ch *Chan[T]) SendCase(v T) *SendC[T] {
	if ch != nil && ch.rc != nil {
		panic("vsched: select on a real-backed channel is not supported")
	}
	return &SendC[T]{cs: &scase{ch: ch.core(), dir: dirSend, val: v}}
}

// RecvCase builds the arm "case v, ok := <-ch".
func (ch *Chan[T]) RecvCase() *RecvC[T] {
	if ch != nil && ch.rc != nil {
		panic("vsched: select on a real-backed channel is not supported")
	}
	return &RecvC[T]{cs: &scase{ch: ch.core(), dir: dirRecv}}
}

// Select executes a select statement over the arms and returns the index of
// the chosen arm, or -1 for the default arm (hasDefault).
func Select(hasDefault bool, arms ...Case) int {
	s := S
	if s == nil {
		panic("vsched: Select outside Run")
	}
	if s.aborting {
		panic(abortPanic{})
	}
	so := &selectOp{hasDefault: hasDefault}
	if pc, _, _, ok := runtime.Caller(1); ok {
		so.site = pc
	}
	for _, a := range arms {
		so.cases = append(so.cases, a.scase())
	}
	if len(arms) == 0 && !hasDefault {
		// select {} blocks forever
		s.yield(&selectOp{})
	}
	s.yield(so)
	if so.chosen >= 0 {
		arms[so.chosen].finish()
	}
	return so.chosen
}
