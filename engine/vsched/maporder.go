//go:build go1.21

package vsched

import (
	"fmt"
	"sort"
)

// MapKeys returns the keys of m in an order chosen by the explorer: the keys
// are sorted canonically (by their printed form) and then permuted by free
// choices, so that every iteration order of the map is enumerated. Outside a
// controlled execution the canonical order is returned.
func MapKeys[K comparable, V any](m map[K]V) []K {
	keys := make([]K, 0, len(m))
	for k := range m {
		keys = append(keys, k)
	}
	sort.Slice(keys, func(i, j int) bool { return fmt.Sprint(keys[i]) < fmt.Sprint(keys[j]) })
	if S == nil {
		return keys
	}
	out := make([]K, 0, len(keys))
	for len(keys) > 0 {
		i := Choose(len(keys), "map-order")
		out = append(out, keys[i])
		keys = append(keys[:i:i], keys[i+1:]...)
	}
	return out
}
