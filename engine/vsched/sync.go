//go:build go1.21

package vsched

import (
	"fmt"
	"sync"
	"sync/atomic"
)

// WaitGroup replaces sync.WaitGroup.
type WaitGroup struct {
	n    int
	vc   vclock
	real sync.WaitGroup
}

// Add is not a scheduling point: it commutes with everything except Wait,
// which it can only enable (when the counter reaches zero).
func (w *WaitGroup) Add(d int) {
	s := S
	if s == nil {
		w.real.Add(d)
		return
	}
	if s.aborting {
		return
	}
	w.n += d
	if w.n < 0 {
		panic("sync: negative WaitGroup counter")
	}
	if d < 0 {
		w.vc = s.hb.join(w.vc, s.hb.release(s.cur))
	}
}

// Done is Add(-1).
func (w *WaitGroup) Done() { w.Add(-1) }

type wgWait struct{ w *WaitGroup }

func (o wgWait) alts(*thread) []int {
	if o.w.n == 0 {
		return one
	}
	return nil
}
func (o wgWait) exec(t *thread, _ int) { S.hb.acquire(t, o.w.vc) }
func (o wgWait) describe() string      { return fmt.Sprintf("wg.Wait(n=%d)", o.w.n) }

// Wait blocks until the counter is zero.
func (w *WaitGroup) Wait() {
	s := S
	if s == nil {
		w.real.Wait()
		return
	}
	if s.aborting {
		return
	}
	s.yield(wgWait{w})
}

// Mutex replaces sync.Mutex.
type Mutex struct {
	locked bool
	vc     vclock
	real   sync.Mutex
}

type lockOp struct{ m *Mutex }

func (o lockOp) alts(*thread) []int {
	if !o.m.locked {
		return one
	}
	return nil
}
func (o lockOp) exec(t *thread, _ int) { o.m.locked = true; S.hb.acquire(t, o.m.vc) }
func (o lockOp) describe() string      { return "mutex.Lock" }

// Lock locks m.
func (m *Mutex) Lock() {
	s := S
	if s == nil {
		m.real.Lock()
		return
	}
	if s.aborting {
		return
	}
	s.yield(lockOp{m})
}

// Unlock unlocks m (not a scheduling point: it only enables lockers).
func (m *Mutex) Unlock() {
	s := S
	if s == nil {
		m.real.Unlock()
		return
	}
	if s.aborting {
		return
	}
	if !m.locked {
		panic("sync: unlock of unlocked mutex")
	}
	m.locked = false
	m.vc = s.hb.release(s.cur)
}

// RWMutex is modelled as an exclusive lock (a sound over-approximation of
// blocking for the code under test, which has no RWMutex today).
type RWMutex struct{ Mutex }

func (m *RWMutex) RLock()   { m.Lock() }
func (m *RWMutex) RUnlock() { m.Unlock() }

// Once replaces sync.Once.
type Once struct {
	m    Mutex
	done bool
}

// Do calls f once.
func (o *Once) Do(f func()) {
	o.m.Lock()
	defer o.m.Unlock()
	if !o.done {
		o.done = true
		f()
	}
}

func atomicPoint(name string, p interface{}, write bool) {
	s := S
	if s == nil || s.aborting {
		return
	}
	s.yield(localOp{name: name})
	s.hb.atomic(s.cur, p, write)
}

// AtomicLoadInt64 replaces atomic.LoadInt64.
func AtomicLoadInt64(p *int64) int64 {
	atomicPoint("atomic.Load", p, false)
	return atomic.LoadInt64(p)
}

// AtomicStoreInt64 replaces atomic.StoreInt64.
func AtomicStoreInt64(p *int64, v int64) {
	atomicPoint("atomic.Store", p, true)
	atomic.StoreInt64(p, v)
}

// AtomicAddInt64 replaces atomic.AddInt64.
func AtomicAddInt64(p *int64, d int64) int64 {
	atomicPoint("atomic.Add", p, true)
	return atomic.AddInt64(p, d)
}

// AtomicLoadInt32 replaces atomic.LoadInt32.
func AtomicLoadInt32(p *int32) int32 {
	atomicPoint("atomic.Load", p, false)
	return atomic.LoadInt32(p)
}

// AtomicStoreInt32 replaces atomic.StoreInt32.
func AtomicStoreInt32(p *int32, v int32) {
	atomicPoint("atomic.Store", p, true)
	atomic.StoreInt32(p, v)
}

// AtomicAddInt32 replaces atomic.AddInt32.
func AtomicAddInt32(p *int32, d int32) int32 {
	atomicPoint("atomic.Add", p, true)
	return atomic.AddInt32(p, d)
}

// AtomicCompareAndSwapInt64 replaces atomic.CompareAndSwapInt64.
func AtomicCompareAndSwapInt64(p *int64, o, n int64) bool {
	atomicPoint("atomic.CAS", p, true)
	return atomic.CompareAndSwapInt64(p, o, n)
}

// AtomicCompareAndSwapInt32 replaces atomic.CompareAndSwapInt32.
func AtomicCompareAndSwapInt32(p *int32, o, n int32) bool {
	atomicPoint("atomic.CAS", p, true)
	return atomic.CompareAndSwapInt32(p, o, n)
}

// ---- the remaining sync/atomic function family ----

func AtomicSwapInt64(p *int64, v int64) int64 {
	atomicPoint("atomic.Swap", p, true)
	return atomic.SwapInt64(p, v)
}

func AtomicSwapInt32(p *int32, v int32) int32 {
	atomicPoint("atomic.Swap", p, true)
	return atomic.SwapInt32(p, v)
}

func AtomicLoadUint64(p *uint64) uint64 {
	atomicPoint("atomic.Load", p, false)
	return atomic.LoadUint64(p)
}

func AtomicStoreUint64(p *uint64, v uint64) {
	atomicPoint("atomic.Store", p, true)
	atomic.StoreUint64(p, v)
}

func AtomicAddUint64(p *uint64, d uint64) uint64 {
	atomicPoint("atomic.Add", p, true)
	return atomic.AddUint64(p, d)
}

func AtomicSwapUint64(p *uint64, v uint64) uint64 {
	atomicPoint("atomic.Swap", p, true)
	return atomic.SwapUint64(p, v)
}

func AtomicCompareAndSwapUint64(p *uint64, o, n uint64) bool {
	atomicPoint("atomic.CAS", p, true)
	return atomic.CompareAndSwapUint64(p, o, n)
}

func AtomicLoadUint32(p *uint32) uint32 {
	atomicPoint("atomic.Load", p, false)
	return atomic.LoadUint32(p)
}

func AtomicStoreUint32(p *uint32, v uint32) {
	atomicPoint("atomic.Store", p, true)
	atomic.StoreUint32(p, v)
}

func AtomicAddUint32(p *uint32, d uint32) uint32 {
	atomicPoint("atomic.Add", p, true)
	return atomic.AddUint32(p, d)
}

func AtomicSwapUint32(p *uint32, v uint32) uint32 {
	atomicPoint("atomic.Swap", p, true)
	return atomic.SwapUint32(p, v)
}

func AtomicCompareAndSwapUint32(p *uint32, o, n uint32) bool {
	atomicPoint("atomic.CAS", p, true)
	return atomic.CompareAndSwapUint32(p, o, n)
}

// Pool replaces sync.Pool with a deterministic LIFO free list (one of the
// behaviours the real pool can show: it may also drop items at any time, which
// a program must tolerate anyway). Put -> Get of the same item is a
// happens-before edge, as in the real pool.
type Pool struct {
	New   func() interface{}
	items []poolItem
	owner *Sched // the execution the items belong to
	real  sync.Pool
}

// fresh empties a pool that outlives an execution (a package-level pool of the
// code under test): what an earlier execution put must not reach this one,
// every execution starts from the same state. The real pool may drop its items
// at any time, so this is one of its behaviours.
func (p *Pool) fresh(s *Sched) {
	if p.owner != s {
		p.items, p.owner = nil, s
	}
}

type poolItem struct {
	v  interface{}
	vc vclock
}

// Get takes the most recently put item, or calls New.
func (p *Pool) Get() interface{} {
	s := S
	if s == nil {
		p.real.New = p.New
		return p.real.Get()
	}
	p.fresh(s)
	if n := len(p.items); n > 0 {
		it := p.items[n-1]
		p.items = p.items[:n-1]
		if !s.aborting && s.cur != nil {
			s.hb.acquire(s.cur, it.vc)
		}
		return it.v
	}
	if p.New != nil {
		return p.New()
	}
	return nil
}

// Put returns an item to the pool.
func (p *Pool) Put(v interface{}) {
	s := S
	if s == nil {
		p.real.Put(v)
		return
	}
	p.fresh(s)
	var vc vclock
	if !s.aborting && s.cur != nil {
		vc = s.hb.release(s.cur)
	}
	p.items = append(p.items, poolItem{v, vc})
}

// Typed atomics (sync/atomic since go1.19): the same scheduling points as the
// function forms.

type AtomicInt64 struct{ v int64 }

func (x *AtomicInt64) Load() int64                    { return AtomicLoadInt64(&x.v) }
func (x *AtomicInt64) Store(v int64)                  { AtomicStoreInt64(&x.v, v) }
func (x *AtomicInt64) Add(d int64) int64              { return AtomicAddInt64(&x.v, d) }
func (x *AtomicInt64) Swap(v int64) int64             { return AtomicSwapInt64(&x.v, v) }
func (x *AtomicInt64) CompareAndSwap(o, n int64) bool { return AtomicCompareAndSwapInt64(&x.v, o, n) }

type AtomicInt32 struct{ v int32 }

func (x *AtomicInt32) Load() int32                    { return AtomicLoadInt32(&x.v) }
func (x *AtomicInt32) Store(v int32)                  { AtomicStoreInt32(&x.v, v) }
func (x *AtomicInt32) Add(d int32) int32              { return AtomicAddInt32(&x.v, d) }
func (x *AtomicInt32) Swap(v int32) int32             { return AtomicSwapInt32(&x.v, v) }
func (x *AtomicInt32) CompareAndSwap(o, n int32) bool { return AtomicCompareAndSwapInt32(&x.v, o, n) }

type AtomicUint64 struct{ v uint64 }

func (x *AtomicUint64) Load() uint64         { return AtomicLoadUint64(&x.v) }
func (x *AtomicUint64) Store(v uint64)       { AtomicStoreUint64(&x.v, v) }
func (x *AtomicUint64) Add(d uint64) uint64  { return AtomicAddUint64(&x.v, d) }
func (x *AtomicUint64) Swap(v uint64) uint64 { return AtomicSwapUint64(&x.v, v) }
func (x *AtomicUint64) CompareAndSwap(o, n uint64) bool {
	return AtomicCompareAndSwapUint64(&x.v, o, n)
}

type AtomicUint32 struct{ v uint32 }

func (x *AtomicUint32) Load() uint32         { return AtomicLoadUint32(&x.v) }
func (x *AtomicUint32) Store(v uint32)       { AtomicStoreUint32(&x.v, v) }
func (x *AtomicUint32) Add(d uint32) uint32  { return AtomicAddUint32(&x.v, d) }
func (x *AtomicUint32) Swap(v uint32) uint32 { return AtomicSwapUint32(&x.v, v) }
func (x *AtomicUint32) CompareAndSwap(o, n uint32) bool {
	return AtomicCompareAndSwapUint32(&x.v, o, n)
}

// AtomicBool is atomic.Bool.
type AtomicBool struct{ v uint32 }

func b2u(b bool) uint32 {
	if b {
		return 1
	}
	return 0
}

func (x *AtomicBool) Load() bool       { return AtomicLoadUint32(&x.v) != 0 }
func (x *AtomicBool) Store(v bool)     { AtomicStoreUint32(&x.v, b2u(v)) }
func (x *AtomicBool) Swap(v bool) bool { return AtomicSwapUint32(&x.v, b2u(v)) != 0 }
func (x *AtomicBool) CompareAndSwap(o, n bool) bool {
	return AtomicCompareAndSwapUint32(&x.v, b2u(o), b2u(n))
}
