//go:build go1.21

// Package vsched is a cooperative scheduler for systematic exploration of
// goroutine schedules of real Go code. Source files of the code under test are
// rewritten (tools/vinst) so that channel operations, select, go statements,
// sync and atomic primitives and context cancellation go through this package.
// Real goroutines are used, but exactly one runs at a time; at every visible
// operation the running thread publishes what it is about to do and the
// scheduler decides which enabled (thread, alternative) pair goes next.
//
// The default scheduler is a deterministic priority scheduler. Deviations from
// it (delay: demote the would-be-running thread to the bottom of the priority
// list; choice: take another ready alternative) are what the explorer
// enumerates, bounded by their number (delay bounding, Emmi/Qadeer/Rakamaric
// POPL 2011).
//
// It is mapped into the module under test as github.com/paulmach/osm/vsched by
// a go build overlay; it does not exist in /repo.
package vsched

import (
	"fmt"
	"hash/fnv"
	"runtime/debug"
	"strings"
	"time"
)

// Outcome of one execution.
type Outcome struct {
	// Kind: "ok" (all threads finished), "leak" (main finished, some thread can
	// never run again), "deadlock" (main unfinished, nothing enabled),
	// "livelock" (step horizon reached), "crash" (panic in a thread).
	Kind string
	// Detail: blocked threads and their pending operations, or the panic.
	Detail string
	// Steps is the number of visible operations executed.
	Steps int
	// Points are the branching decision points in order.
	Points []Point
	// Choices actually taken at the branching points.
	Choices []int
	// LogHash fingerprints the complete sequence of executed operations.
	LogHash uint64
	// Races found by the happens-before tracker (distinct location pairs).
	Races []string
	// Threads is the number of threads created (including main).
	Threads int
}

// Point is a decision point with more than one option.
type Point struct {
	Costs []int8 // cost of each option; option 0 is the default (cost 0)
	Free  bool   // a free choice (map order): not deviation bounded
	Desc  string // only filled when tracing
}

// Config of one execution.
type Config struct {
	// ChildAbove inserts a new thread directly above its parent in the priority
	// list instead of directly below.
	ChildAbove bool
	// Prefix of choices to replay; later points take option 0.
	Prefix []int
	// MaxSteps is the livelock horizon (default 20000).
	MaxSteps int
	// Trace records a description of every decision point and step.
	Trace bool
	// SwitchMode: a deviation to another enabled thread does not demote the
	// threads above it (a single context switch costs 1 wherever it goes, the
	// priority order stays as it is). The default is delay bounding.
	SwitchMode bool
}

const abortSignal = -1 << 30 // distinct from every alternative index (-1 is a select's default arm)

// fairStreak: see decide.
const fairStreak = 3000

type abortPanic struct{}

type thread struct {
	id      int
	name    string
	resume  chan int
	exited  chan struct{}
	pending op
	done    bool
	vc      vclock
}

// op is a pending visible operation of a parked (or about to park) thread.
type op interface {
	// alts returns the number of currently enabled alternatives (0 = blocked).
	alts(t *thread) []int
	// exec performs alternative a. It runs in thread t.
	exec(t *thread, a int)
	// String describes the operation.
	describe() string
}

// Sched is the state of one execution.
type Sched struct {
	cfg      Config
	threads  []*thread
	prio     []*thread
	cur      *thread
	steps    int
	points   []Point
	choices  []int
	aborting bool
	outcome  Outcome
	finished chan struct{}
	log      uint64
	trace    []string
	nextChan int
	hb       hbState
	diverged string
	// selCounts[site][case]: how often each case of a select statement was taken
	selCounts map[uintptr][]int
	// fairness among threads: consecutive steps of one thread while others were enabled
	streakThread *thread
	streak       int
}

// S is the scheduler of the execution in progress (nil outside Run).
var S *Sched

// Active reports whether a controlled execution is in progress.
func Active() bool { return S != nil }

// Run executes main under the scheduler and returns the outcome. Not
// reentrant: one execution at a time per process.
func Run(cfg Config, main func()) *Outcome {
	if S != nil {
		panic("vsched: Run is not reentrant")
	}
	if cfg.MaxSteps == 0 {
		cfg.MaxSteps = 20000
	}
	s := &Sched{cfg: cfg, finished: make(chan struct{}), selCounts: map[uintptr][]int{}}
	s.log = 14695981039346656037
	s.hb.init()
	S = s
	t := s.newThread(nil, "main")
	t.pending = nil
	s.cur = t
	go s.threadBody(t, main, true)
	t.resume <- 0
	<-s.finished
	S = nil
	o := s.outcome
	o.Steps = s.steps
	o.Points = s.points
	o.Choices = s.choices
	o.LogHash = s.log
	o.Threads = len(s.threads)
	o.Races = s.hb.report()
	if s.diverged != "" {
		o.Kind = "diverged"
		o.Detail = s.diverged
	}
	if cfg.Trace {
		o.Detail += "\nTRACE:\n" + strings.Join(s.trace, "\n")
	}
	return &o
}

func (s *Sched) newThread(parent *thread, name string) *thread {
	t := &thread{id: len(s.threads), name: name, resume: make(chan int), exited: make(chan struct{})}
	s.threads = append(s.threads, t)
	if parent == nil {
		s.prio = append(s.prio, t)
		t.vc = s.hb.newClock(nil, t.id)
		return t
	}
	t.vc = s.hb.newClock(parent, t.id)
	// insert directly below (after) or above (before) the parent
	idx := 0
	for i, p := range s.prio {
		if p == parent {
			idx = i
			break
		}
	}
	if !s.cfg.ChildAbove {
		idx++
	}
	s.prio = append(s.prio, nil)
	copy(s.prio[idx+1:], s.prio[idx:])
	s.prio[idx] = t
	return t
}

func (s *Sched) threadBody(t *thread, f func(), isMain bool) {
	a := <-t.resume
	defer close(t.exited)
	if a == abortSignal {
		t.done = true
		return
	}
	defer func() {
		r := recover()
		if _, ok := r.(abortPanic); ok {
			t.done = true
			if s.cur == t {
				// this thread ran the abort: everything else is unwound
				close(s.finished)
			}
			return
		}
		if r != nil {
			// a panic in a goroutine kills a real process
			stack := string(debug.Stack())
			s.cur = t
			s.killOthers(t)
			s.outcome = Outcome{Kind: "crash", Detail: fmt.Sprintf("panic in thread %d (%s): %v\n%s", t.id, t.name, r, trimStack(stack))}
			t.done = true
			close(s.finished)
			return
		}
		// normal exit: hand over
		t.done = true
		s.hb.threadEnd(t)
		s.next(t)
	}()
	f()
}

func trimStack(st string) string {
	lines := strings.Split(st, "\n")
	var out []string
	for _, l := range lines {
		if strings.Contains(l, "paulmach/osm") && !strings.Contains(l, "/vsched") {
			out = append(out, strings.TrimSpace(l))
		}
		if len(out) >= 6 {
			break
		}
	}
	return strings.Join(out, "\n")
}

// killOthers unwinds every parked thread other than self, one at a time.
func (s *Sched) killOthers(self *thread) {
	s.aborting = true
	for _, u := range s.threads {
		if u == self || u.done {
			continue
		}
		select {
		case <-u.exited:
			continue
		default:
		}
		u.resume <- abortSignal
		<-u.exited
	}
}

// abort ends the execution from the running thread t with the given outcome.
func (s *Sched) abort(t *thread, kind, detail string) {
	s.outcome = Outcome{Kind: kind, Detail: detail}
	s.cur = t
	s.killOthers(t)
	if t.done {
		close(s.finished)
		return
	}
	panic(abortPanic{})
}

func (s *Sched) logStep(t *thread, what string, a int) {
	h := fnv.New64a()
	fmt.Fprintf(h, "%d|%d|%s|%d", s.log, t.id, what, a)
	s.log = h.Sum64()
	if s.cfg.Trace {
		s.trace = append(s.trace, fmt.Sprintf("  step %d: T%d(%s) %s alt=%d", s.steps, t.id, t.name, what, a))
	}
}

type enabledThread struct {
	t    *thread
	alts []int
}

// decide picks the next (thread, alternative) according to the priority list,
// the replayed prefix and defaults. Returns nil when nothing is enabled.
func (s *Sched) decide() (*thread, int) {
	var en []enabledThread
	for _, t := range s.prio {
		if t.done || t.pending == nil {
			continue
		}
		if a := t.pending.alts(t); len(a) > 0 {
			en = append(en, enabledThread{t, a})
		}
	}
	if len(en) == 0 {
		return nil, 0
	}
	// Fairness among threads (Musuvathi/Qadeer, fair stateless model checking, in
	// its simplest form): a thread that has taken fairStreak consecutive steps
	// while another thread was enabled all along is demoted for free, so that a
	// polling loop cannot starve the thread it is waiting for.
	if len(en) > 1 && s.streakThread == en[0].t {
		s.streak++
		if s.streak > fairStreak {
			s.demote(en[0].t)
			en = append(en[1:], en[0])
			s.streak = 0
			s.streakThread = en[0].t
		}
	} else {
		s.streakThread = en[0].t
		s.streak = 0
	}
	// options: (k delays, j-th alternative of en[k])
	type option struct{ k, j int }
	var opts []option
	for k := range en {
		for j := range en[k].alts {
			opts = append(opts, option{k, j})
		}
	}
	choice := 0
	if len(opts) > 1 {
		costs := make([]int8, len(opts))
		for i, o := range opts {
			c := o.k
			if s.cfg.SwitchMode && o.k > 0 {
				c = 1
			}
			if o.j > 0 {
				c++
			}
			if c > 127 {
				c = 127
			}
			costs[i] = int8(c)
		}
		p := Point{Costs: costs}
		if s.cfg.Trace {
			var b strings.Builder
			for _, e := range en {
				fmt.Fprintf(&b, "T%d:%s%v ", e.t.id, e.t.pending.describe(), e.alts)
			}
			p.Desc = b.String()
		}
		idx := len(s.points)
		s.points = append(s.points, p)
		if idx < len(s.cfg.Prefix) {
			choice = s.cfg.Prefix[idx]
			if choice < 0 || choice >= len(opts) {
				s.diverged = fmt.Sprintf("replay divergence at point %d: choice %d of %d options", idx, choice, len(opts))
				choice = 0
			}
		}
		s.choices = append(s.choices, choice)
		if s.cfg.Trace {
			s.trace = append(s.trace, fmt.Sprintf("point %d: %s-> option %d (delays=%d alt#%d)", idx, p.Desc, choice, opts[choice].k, opts[choice].j))
		}
	}
	o := opts[choice]
	// apply the delays: the first k enabled threads go to the bottom, in order
	for d := 0; d < o.k && !s.cfg.SwitchMode; d++ {
		s.demote(en[d].t)
	}
	return en[o.k].t, en[o.k].alts[o.j]
}

func (s *Sched) demote(t *thread) {
	for i, p := range s.prio {
		if p == t {
			copy(s.prio[i:], s.prio[i+1:])
			s.prio[len(s.prio)-1] = t
			return
		}
	}
}

// Choose is a free decision point with n options (used for map iteration
// order): every option costs 0, so the explorer enumerates all of them.
func Choose(n int, what string) int {
	s := S
	if s == nil || n <= 1 || s.aborting {
		return 0
	}
	costs := make([]int8, n)
	p := Point{Costs: costs, Free: true}
	if s.cfg.Trace {
		p.Desc = what
	}
	idx := len(s.points)
	s.points = append(s.points, p)
	choice := 0
	if idx < len(s.cfg.Prefix) {
		choice = s.cfg.Prefix[idx]
		if choice < 0 || choice >= n {
			s.diverged = fmt.Sprintf("replay divergence at free point %d: choice %d of %d", idx, choice, n)
			choice = 0
		}
	}
	s.choices = append(s.choices, choice)
	h := fnv.New64a()
	fmt.Fprintf(h, "%d|choose|%d|%d", s.log, n, choice)
	s.log = h.Sum64()
	return choice
}

// yield publishes o as the pending operation of the running thread, lets the
// scheduler decide, and returns after this thread has executed o.
func (s *Sched) yield(o op) {
	t := s.cur
	if s.aborting {
		panic(abortPanic{})
	}
	t.pending = o
	s.steps++
	if s.steps > s.cfg.MaxSteps {
		s.abort(t, "livelock", fmt.Sprintf("more than %d visible operations; last: T%d %s", s.cfg.MaxSteps, t.id, o.describe()))
	}
	nt, a := s.decide()
	if nt == nil {
		s.blocked(t)
		return // not reached
	}
	if nt != t {
		s.cur = nt
		nt.resume <- a
		a = <-t.resume
		if a == abortSignal {
			panic(abortPanic{})
		}
		// s.cur was set to t by whoever woke us
	}
	p := t.pending
	t.pending = nil
	s.logStep(t, p.describe(), a)
	p.exec(t, a)
}

// next is called by a thread that finished: hand control to somebody else.
func (s *Sched) next(t *thread) {
	nt, a := s.decide()
	if nt == nil {
		s.blocked(t)
		return
	}
	s.cur = nt
	nt.resume <- a
}

// blocked: nothing is enabled. t is the thread that noticed (running or just done).
func (s *Sched) blocked(t *thread) {
	allDone := true
	var b strings.Builder
	for _, u := range s.threads {
		if !u.done {
			allDone = false
			d := "running"
			if u.pending != nil {
				d = u.pending.describe()
			}
			fmt.Fprintf(&b, "T%d(%s) blocked at %s; ", u.id, u.name, d)
		}
	}
	if allDone {
		s.outcome = Outcome{Kind: "ok"}
		close(s.finished)
		return
	}
	kind := "deadlock"
	if s.threads[0].done {
		kind = "leak"
	}
	s.abort(t, kind, b.String())
}

// Go starts f as a new thread.
func Go(f func()) {
	s := S
	if s == nil {
		go f()
		return
	}
	if s.aborting {
		return
	}
	t := s.newThread(s.cur, fmt.Sprintf("g%d", len(s.threads)))
	t.pending = startOp{}
	go s.threadBody(t, f, false)
}

// GoNamed is Go with a thread name for traces.
func GoNamed(name string, f func()) {
	s := S
	if s == nil {
		go f()
		return
	}
	if s.aborting {
		return
	}
	t := s.newThread(s.cur, name)
	t.pending = startOp{}
	go s.threadBody(t, f, false)
}

type startOp struct{}

func (startOp) alts(*thread) []int { return one }
func (startOp) exec(*thread, int)  {}
func (startOp) describe() string   { return "start" }

var one = []int{0}

// localOp is an always-enabled operation with an effect.
type localOp struct {
	name string
	f    func()
}

func (l localOp) alts(*thread) []int { return one }
func (l localOp) exec(*thread, int) {
	if l.f != nil {
		l.f()
	}
}
func (l localOp) describe() string { return l.name }

// Yield is an explicit scheduling point of the harness (a slow reader, a slow
// callback, the consumer between two API calls).
func Yield(label string) {
	s := S
	if s == nil || s.aborting {
		return
	}
	s.yield(localOp{name: label})
}

// ThreadID returns the id of the running thread (0 = main), -1 outside Run.
func ThreadID() int {
	if S == nil || S.cur == nil {
		return -1
	}
	return S.cur.id
}

// Gosched replaces runtime.Gosched: a scheduling point.
func Gosched() { Yield("gosched") }

// Sleep replaces time.Sleep: a scheduling point at which the thread stays
// enabled, whatever the duration (no clock is modelled). A loop that only
// sleeps and retries is a spin loop: thread fairness lets the others run, and
// if nobody ever ends it the execution runs into the step limit (livelock).
func Sleep(d time.Duration) { Yield("sleep") }
