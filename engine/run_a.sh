#!/bin/bash
# engine/run_a.sh <Cxx> <tier> <vinst args...> -- [check args]
# Engine A driver: regenerates the instrumented sources from /repo's CURRENT working tree
# (or from the mutated sources named by VERIF_OVERLAY) into a scratch overlay, builds the
# property's harness with -tags verif against it and runs it. Scratch is removed on exit.
set -u
ROOT=$(cd "$(dirname "$0")/.." && pwd)
cd "$ROOT"; . ./env.sh
id=$1; tier=$2; shift 2
vargs=()
sub=""
while [ $# -gt 0 ] && [ "$1" != "--" ]; do
  if [ "$1" = "-sub" ]; then sub="/$2"; shift 2; continue; fi
  vargs+=("$1"); shift
done
[ "${1:-}" = "--" ] && shift
lc=$(echo "$id" | tr 'A-Z' 'a-z')
T=$(mktemp -d "${TMPDIR:-/tmp}/verif-$lc.XXXXXX")
trap 'rm -rf "$T"' EXIT
mkdir -p "$ROOT/bin"
if [ ! -x "$ROOT/bin/vinst" ] || [ "$ROOT/tools/vinst/main.go" -nt "$ROOT/bin/vinst" ]; then
  (cd "$ROOT/tools/vinst" && go build -o "$ROOT/bin/vinst" .) || { echo "HARNESS-ERROR cannot build vinst"; exit 2; }
fi
base=()
[ -n "${VERIF_OVERLAY:-}" ] && base=(-base-overlay "$VERIF_OVERLAY")
"$ROOT/bin/vinst" -repo /repo -out "$T/gen" -vsched "$ROOT/engine/vsched" "${base[@]+"${base[@]}"}" "${vargs[@]}" > "$T/vinst.log" 2>&1
rc=$?
if [ $rc -ne 0 ]; then cat "$T/vinst.log"; echo "HARNESS-ERROR instrumentation failed"; exit 2; fi
bin="${VERIF_BIN:-$ROOT/bin}/$lc$(echo "$sub" | tr -d /)"
if ! go build -tags verif -overlay "$T/gen/overlay.json" -o "$bin" "./props/$lc$sub" 2> "$T/build.log"; then
  echo "HARNESS-ERROR build of $id against the instrumented tree failed"; head -40 "$T/build.log"; exit 2
fi
[ -n "${VERIF_BUILD_ONLY:-}" ] && exit 0
"$bin" -tier "$tier" "$@"
