//go:build go1.21

// Package vexplore is the stateless explorer on top of vsched: a depth-first
// enumeration of every execution of a scenario that deviates at most D times
// (delays / alternative choices, see vsched) from the deterministic priority
// scheduler, for both initial priority configurations, plus complete
// enumeration of free choices (map iteration orders). Sub-trees are sharded
// over crash-isolated worker processes (kit.ParIsolated).
package vexplore

import (
	"fmt"
	"os"
	"strconv"
	"strings"
	"time"

	"github.com/paulmach/osm/vsched"

	"verif/kit"
)

// Finding is one oracle failure of one execution.
type Finding struct {
	Key string
	Msg string
}

// Scenario is a small closed driver around the code under test.
type Scenario struct {
	Name string
	// New returns, for ONE execution, the main-thread body and the oracle that
	// judges the execution afterwards. tags returned by check are recorded as
	// distinct observed outcomes (e.g. the order in which blocks completed);
	// nonvacuous says whether this execution exercised the situation the
	// scenario is about.
	New func() (main func(), check func(o *vsched.Outcome) (findings []Finding, tag string, nonvacuous bool))
	// Bound is the deviation bound D for this scenario (per tier, set by the caller).
	Bound int
	// Family groups scenarios in the evidence (default: the name).
	Family string
	// MaxSteps overrides the livelock horizon.
	MaxSteps int
	// RacesAreFindings turns happens-before races into findings (key "race/...").
	RacesAreFindings bool
	// Configs: which initial priority configurations to enumerate
	// (default both: child-below and child-above).
	OnlyChildBelow bool
	// SwitchMode explores with single context switches (cost 1 to run any other
	// enabled thread for the next step, no persistent demotion) instead of delays.
	SwitchMode bool
}

// Replay is the replay artefact of a finding.
type Replay struct {
	Scenario   string
	ChildAbove bool
	Choices    []int
	Trace      string `json:",omitempty"`
}

// Generator produces scenarios lazily inside a worker job (for spaces too large
// to hold as a list in every process). All its scenarios must have Bound 0:
// they are explored for their free choices only.
type Generator struct {
	Name string
	// Gen calls yield for every scenario; it should stop when yield returns false
	// (the time cap was reached).
	Gen func(yield func(sc *Scenario) bool)
}

type job struct {
	gen        int // index into Generators + 1 (0 = a scenario job)
	sc         int
	scEnd      int // batch of bound-0 scenarios [sc, scEnd)
	childAbove bool
	prefix     []int // nil + rootOnly: just the root execution
	rootOnly   bool
}

// Explorer runs scenarios for one check.
type Explorer struct {
	R          *kit.Run
	Scenarios  []Scenario
	Generators []Generator
	deadline   time.Time
	jobs       []job
}

func (e *Explorer) run(sc *Scenario, childAbove bool, prefix []int, trace bool) (*vsched.Outcome, []Finding, string, bool) {
	main, check := sc.New()
	done := make(chan *vsched.Outcome, 1)
	go func() {
		done <- vsched.Run(vsched.Config{ChildAbove: childAbove, Prefix: prefix, MaxSteps: sc.MaxSteps, Trace: trace, SwitchMode: sc.SwitchMode}, main)
	}()
	var o *vsched.Outcome
	select {
	case o = <-done:
	case <-time.After(120 * time.Second):
		// a thread is spinning without reaching a scheduling point
		o = &vsched.Outcome{Kind: "hang", Detail: "an execution did not finish within 120 s of wall time: some thread loops without a visible operation", Choices: prefix}
		return o, []Finding{{"hang/" + sc.Name, o.Detail}}, "hang", true
	}
	if o.Kind == "diverged" {
		kit.Fatalf("divergence while replaying a recorded prefix in scenario %s: %s", sc.Name, o.Detail)
	}
	fs, tag, nv := check(o)
	if sc.RacesAreFindings {
		for _, rc := range o.Races {
			fs = append(fs, Finding{"race/" + rc, "data race (unordered by the modelled happens-before relation): " + rc})
		}
	}
	return o, fs, tag, nv
}

func cost(points []vsched.Point, choices []int) int {
	c := 0
	for i, ch := range choices {
		if i < len(points) && ch < len(points[i].Costs) {
			c += int(points[i].Costs[ch])
		}
	}
	return c
}

// explore enumerates the subtree below prefix.
func (e *Explorer) explore(sc *Scenario, childAbove bool, prefix []int) {
	if !e.deadline.IsZero() && time.Now().After(e.deadline) {
		e.R.Capped(fmt.Sprintf("time cap reached inside scenario %s (bound %d): the subtree below %v was not completed", sc.Name, sc.Bound, prefix))
		return
	}
	o, fs, tag, nv := e.run(sc, childAbove, prefix, false)
	e.account(sc, childAbove, o, fs, tag, nv, len(prefix))
	if o.Kind == "hang" {
		e.R.Capped("hang: worker restarted, rest of this subtree skipped")
		e.R.RestartWorker()
		return
	}
	used := cost(o.Points, prefix)
	for i := len(prefix); i < len(o.Points); i++ {
		p := o.Points[i]
		for alt := 1; alt < len(p.Costs); alt++ {
			if used+int(p.Costs[alt]) > sc.Bound {
				continue
			}
			np := make([]int, i+1)
			copy(np, o.Choices[:i])
			np[i] = alt
			e.explore(sc, childAbove, np)
		}
	}
}

func (e *Explorer) account(sc *Scenario, childAbove bool, o *vsched.Outcome, fs []Finding, tag string, nv bool, plen int) {
	r := e.R
	r.Eval(1)
	r.Add("executions", 1)
	// every explored trace IS an implementation trace
	r.Add("traces_validated_against_impl", 1)
	r.Add("transitions", int64(o.Steps+len(o.Choices)))
	// execution-tree nodes first visited by this execution
	if n := len(o.Points) - plen + 1; n > 0 {
		r.Add("states", int64(n))
	}
	r.Add("outcome_"+o.Kind, 1)
	if nv {
		r.Add("nonvacuous_executions", 1)
	}
	// distinct AND non-vacuous: distinct complete operation sequences of
	// executions that exercised the scenario's situation
	if nv {
		r.NontrivialHash(o.LogHash ^ hashStr(sc.Name))
	}
	if r.WantSample() && len(o.Choices) > 0 && cost(o.Points, o.Choices) > 0 {
		r.Sample(map[string]interface{}{"scenario": sc.Name, "child_above": childAbove, "choices_at_branching_points": trim(o.Choices), "outcome": o.Kind, "steps": o.Steps, "observed": tag})
	}
	if len(fs) == 0 {
		return
	}
	// a finding must reproduce on every one of 5 re-runs of the same choices
	for k := 0; k < 5 && o.Kind != "hang"; k++ {
		o2, fs2, _, _ := e.run(sc, childAbove, o.Choices, false)
		if o2.LogHash != o.LogHash || len(fs2) == 0 || fs2[0].Key != fs[0].Key {
			kit.Fatalf("scenario %s: a failing execution did not reproduce identically on re-run %d (choices %v): nondeterminism outside the scheduler's control", sc.Name, k+1, trim(o.Choices))
		}
	}
	tr := ""
	if o.Kind != "hang" {
		o3, _, _, _ := e.run(sc, childAbove, o.Choices, true)
		tr = o3.Detail
		if len(tr) > 6000 {
			tr = tr[:6000] + "..."
		}
	}
	seen := map[string]bool{}
	for _, f := range fs {
		if seen[f.Key] {
			continue
		}
		seen[f.Key] = true
		r.Violation(f.Key, fmt.Sprintf("scenario %s (child_above=%v, %d deviations, choices %v, outcome %s %s): %s", sc.Name, childAbove, cost(o.Points, o.Choices), trim(o.Choices), o.Kind, firstLine(o.Detail), f.Msg),
			Replay{Scenario: sc.Name, ChildAbove: childAbove, Choices: trim(o.Choices), Trace: tr})
	}
}

func firstLine(s string) string {
	if i := strings.Index(s, "\n"); i >= 0 {
		s = s[:i]
	}
	if len(s) > 300 {
		s = s[:300]
	}
	return s
}

func trim(c []int) []int {
	n := len(c)
	for n > 0 && c[n-1] == 0 {
		n--
	}
	return append([]int{}, c[:n]...)
}

func hashStr(s string) uint64 {
	var h uint64 = 14695981039346656037
	for i := 0; i < len(s); i++ {
		h ^= uint64(s[i])
		h *= 1099511628211
	}
	return h
}

// Run explores all scenarios. budget is the wall-clock cap for the whole
// exploration (a capped run reports exhaustive:false and exits 0).
func (e *Explorer) Run(budget time.Duration) {
	r := e.R
	// the deadline must be the same in parent and workers: pass it through the environment
	if v := os.Getenv("VEXPLORE_DEADLINE"); v != "" {
		n, _ := strconv.ParseInt(v, 10, 64)
		e.deadline = time.Unix(n, 0)
	} else {
		e.deadline = time.Now().Add(budget)
		os.Setenv("VEXPLORE_DEADLINE", strconv.FormatInt(e.deadline.Unix(), 10))
	}
	if r.ReplayPath != "" {
		e.replay()
		return
	}
	bounds := map[string]int{}
	nscen := map[string]int{}
	for si := 0; si < len(e.Scenarios); si++ {
		sc := &e.Scenarios[si]
		fam := sc.Family
		if fam == "" {
			fam = sc.Name
		}
		bounds[fam] = sc.Bound
		nscen[fam]++
		cfgs := []bool{false, true}
		if sc.OnlyChildBelow {
			cfgs = []bool{false}
		}
		if sc.Bound == 0 {
			// no deviations: one execution per configuration; batch consecutive ones
			end := si + 1
			for end < len(e.Scenarios) && end-si < 256 && e.Scenarios[end].Bound == 0 && e.Scenarios[end].OnlyChildBelow == sc.OnlyChildBelow {
				f2 := e.Scenarios[end].Family
				if f2 == "" {
					f2 = e.Scenarios[end].Name
				}
				nscen[f2]++
				end++
			}
			for _, ca := range cfgs {
				e.jobs = append(e.jobs, job{sc: si, scEnd: end, childAbove: ca, rootOnly: true})
			}
			si = end - 1
			continue
		}
		for _, ca := range cfgs {
			o, _, _, _ := e.run(sc, ca, nil, false)
			e.jobs = append(e.jobs, job{sc: si, scEnd: si + 1, childAbove: ca, rootOnly: true})
			for i := 0; i < len(o.Points); i++ {
				for alt := 1; alt < len(o.Points[i].Costs); alt++ {
					if int(o.Points[i].Costs[alt]) > sc.Bound {
						continue
					}
					np := make([]int, i+1)
					np[i] = alt
					e.jobs = append(e.jobs, job{sc: si, childAbove: ca, prefix: np})
				}
			}
		}
	}
	r.Set("scenarios_per_family", nscen)
	for gi := range e.Generators {
		e.jobs = append(e.jobs, job{gen: gi + 1})
	}
	r.Set("deviation_bounds", bounds)
	r.Set("subtree_jobs", len(e.jobs))
	kit.CaseTimeout = budget + 10*time.Minute
	r.ParIsolated(len(e.jobs), func(i int) {
		j := e.jobs[i]
		if j.gen > 0 {
			g := &e.Generators[j.gen-1]
			stopped := false
			g.Gen(func(sc *Scenario) bool {
				if stopped {
					return false
				}
				if !e.deadline.IsZero() && time.Now().After(e.deadline) {
					stopped = true
					r.Capped(fmt.Sprintf("time cap reached inside generator %s: its remaining scenarios were not explored", g.Name))
					return false
				}
				if sc.Bound != 0 {
					kit.Fatalf("generator %s produced scenario %s with a deviation bound", g.Name, sc.Name)
				}
				r.Add("generated_scenarios", 1)
				e.exploreFree(sc, false)
				return true
			})
			return
		}
		sc := &e.Scenarios[j.sc]
		if j.rootOnly {
			for si := j.sc; si < j.scEnd; si++ {
				e.exploreFree(&e.Scenarios[si], j.childAbove)
			}
			return
		}
		e.explore(sc, j.childAbove, j.prefix)
	}, func(i int, what, detail string) {
		j := e.jobs[i]
		kit.Fatalf("worker exploring scenario %s below prefix %v ended in a %s that the scheduler could not attribute to a thread:\n%s", e.Scenarios[j.sc].Name, j.prefix, what, detail)
	})
}

// exploreFree runs the default execution of a scenario (twice: determinism
// proof) and then every combination of its free choices.
func (e *Explorer) exploreFree(sc *Scenario, childAbove bool) {
	o, fs, tag, nv := e.run(sc, childAbove, nil, false)
	o2, _, _, _ := e.run(sc, childAbove, nil, false)
	if o2.LogHash != o.LogHash || o2.Steps != o.Steps {
		kit.Fatalf("scenario %s: the default execution is not deterministic (log %x vs %x, steps %d vs %d)", sc.Name, o.LogHash, o2.LogHash, o.Steps, o2.Steps)
	}
	if sc.Bound != 0 {
		// the root of a bounded scenario: its subtrees are separate jobs
		e.account(sc, childAbove, o, fs, tag, nv, 0)
		return
	}
	e.explore(sc, childAbove, nil)
}

func (e *Explorer) replay() {
	var rp Replay
	e.R.LoadReplay(&rp)
	do := func(sc *Scenario) {
		o, fs, tag, nv := e.run(sc, rp.ChildAbove, rp.Choices, true)
		fmt.Printf("replay of scenario %s: outcome %s, %d steps, observed %q\n%s\n", sc.Name, o.Kind, o.Steps, tag, o.Detail)
		e.account(sc, rp.ChildAbove, o, fs, tag, nv, 0)
	}
	for si := range e.Scenarios {
		if e.Scenarios[si].Name == rp.Scenario {
			do(&e.Scenarios[si])
			return
		}
	}
	found := false
	for gi := range e.Generators {
		e.Generators[gi].Gen(func(sc *Scenario) bool {
			if !found && sc.Name == rp.Scenario {
				found = true
				do(sc)
			}
			return !found
		})
		if found {
			return
		}
	}
	kit.Fatalf("replay: unknown scenario %q", rp.Scenario)
}
