// Package kit is the small shared runner behind every check in /verif:
// flags, counting, distinct non-trivial fingerprints, samples, known findings,
// violations with replay files, evidence output and exit codes.
//
// Contract (see MANIFEST.json): exit 0 = property held on everything explored
// (KNOWN-FINDING lines may be printed), exit 1 = at least one line
// "VIOLATION property=<id> replay=<path>", exit 2 = HARNESS-ERROR (the check
// itself could not run; never a verdict about the property).
package kit

import (
	"encoding/json"
	"flag"
	"fmt"
	"hash/fnv"
	"os"
	"path/filepath"
	"regexp"
	"runtime"
	"sort"
	"strconv"
	"strings"
	"sync"
	"sync/atomic"
	"time"
)

// Root is the verification directory. Everything the checks write lives here.
var Root = "/verif"

func init() {
	if v := os.Getenv("VERIF_ROOT"); v != "" {
		Root = v
	}
}

// Finding is one entry of known_findings.json.
type Finding struct {
	Property string `json:"property"`
	Status   string `json:"status"` // "known" or "fixed"
	Key      string `json:"key"`
	What     string `json:"what"`
	Commit   string `json:"commit,omitempty"`
}

type violation struct {
	Key    string
	What   string
	Replay string
}

// Run is the state of one check run.
type Run struct {
	Prop  string
	Tier  string // "quick" or "thorough"
	Seed  int64
	Level string

	// ReplayPath is non-empty when the check was started with -replay.
	ReplayPath string

	start    time.Time
	deadline time.Time

	evals int64

	mu          sync.Mutex
	shards      [64]fpShard
	samples     []interface{}
	maxSamples  int
	extra       map[string]interface{}
	counters    map[string]*int64
	assumptions []string
	rule        string
	violations  []violation
	nviol       int64
	known       []Finding
	knownHit    map[string]int
	capped      bool
	notes       []string
}

type fpShard struct {
	mu sync.Mutex
	m  map[uint64]struct{}
}

// Main runs body as the check for property prop at evidence level level.
func Main(prop, level string, body func(r *Run)) {
	tier := flag.String("tier", "quick", "quick or thorough")
	replay := flag.String("replay", "", "replay file of a previous violation")
	budget := flag.Duration("budget", 0, "driver time cap (0 = tier default)")
	flag.Parse()
	if *tier != "quick" && *tier != "thorough" {
		Fatalf("unknown tier %q", *tier)
	}
	if t := os.Getenv("VERIF_TIER"); t == "quick" || t == "thorough" {
		// explicit flag wins; VERIF_TIER only applies when the flag was not given
		set := false
		flag.Visit(func(f *flag.Flag) {
			if f.Name == "tier" {
				set = true
			}
		})
		if !set {
			*tier = t
		}
	}
	r := &Run{Prop: prop, Tier: *tier, Level: level, ReplayPath: *replay,
		start: time.Now(), maxSamples: 6,
		extra: map[string]interface{}{}, counters: map[string]*int64{}, knownHit: map[string]int{}}
	if s := os.Getenv("VERIF_SEED"); s != "" {
		if v, err := strconv.ParseInt(s, 10, 64); err == nil {
			r.Seed = v
		}
	}
	b := *budget
	if b == 0 {
		if r.Quick() {
			b = 8 * time.Minute
		} else {
			b = 45 * time.Minute
		}
	}
	r.deadline = r.start.Add(b)
	for i := range r.shards {
		r.shards[i].m = map[uint64]struct{}{}
	}
	if isWorker() {
		body(r)
		os.Exit(0)
	}
	r.loadKnown()
	body(r)
	r.finish()
}

// Quick reports whether this is the quick tier.
func (r *Run) Quick() bool { return r.Tier == "quick" }

// Pick returns q in the quick tier and t in the thorough tier.
func (r *Run) Pick(q, t int) int {
	if r.Quick() {
		return q
	}
	return t
}

// Rule sets the description of how cases are enumerated and which are non-trivial.
func (r *Run) Rule(s string) { r.rule = s }

// Assume records an assumption / trusted-base statement for the evidence.
func (r *Run) Assume(s string) {
	r.mu.Lock()
	r.assumptions = append(r.assumptions, s)
	r.mu.Unlock()
}

// Note adds a free-text note to the evidence.
func (r *Run) Note(s string) {
	r.mu.Lock()
	r.notes = append(r.notes, s)
	r.mu.Unlock()
}

// Eval counts n evaluated cases.
func (r *Run) Eval(n int) {
	if isWorker() {
		if worker != nil {
			worker.mu.Lock()
			worker.d.Evals += int64(n)
			worker.mu.Unlock()
		}
		return
	}
	atomic.AddInt64(&r.evals, int64(n))
}

// Evals returns the number of evaluations so far.
func (r *Run) Evals() int64 { return atomic.LoadInt64(&r.evals) }

// Nontrivial records the fingerprint of a case that is non-trivial by the
// check's rule. Distinct fingerprints are counted.
func (r *Run) Nontrivial(fp string) {
	h := fnv.New64a()
	h.Write([]byte(fp))
	r.NontrivialHash(h.Sum64())
}

// NontrivialHash is Nontrivial for a pre-hashed fingerprint.
func (r *Run) NontrivialHash(v uint64) {
	if isWorker() {
		if worker != nil {
			worker.mu.Lock()
			worker.d.Hashes = append(worker.d.Hashes, v)
			worker.mu.Unlock()
		}
		return
	}
	s := &r.shards[v%64]
	s.mu.Lock()
	s.m[v] = struct{}{}
	s.mu.Unlock()
}

// Case counts one evaluation and, when nontrivial, its fingerprint.
func (r *Run) Case(fp string, nontrivial bool) {
	r.Eval(1)
	if nontrivial {
		r.Nontrivial(fp)
	}
}

// Counter returns a named counter that is written to the evidence coverage.
func (r *Run) Counter(name string) *int64 {
	r.mu.Lock()
	defer r.mu.Unlock()
	c := r.counters[name]
	if c == nil {
		c = new(int64)
		r.counters[name] = c
	}
	return c
}

// Add adds n to a named counter.
func (r *Run) Add(name string, n int64) {
	if isWorker() {
		if worker != nil {
			worker.mu.Lock()
			if worker.d.Counters == nil {
				worker.d.Counters = map[string]int64{}
			}
			worker.d.Counters[name] += n
			worker.mu.Unlock()
		}
		return
	}
	atomic.AddInt64(r.Counter(name), n)
}

// Set stores an extra coverage key.
func (r *Run) Set(key string, v interface{}) {
	r.mu.Lock()
	r.extra[key] = v
	r.mu.Unlock()
}

// Sample keeps v as one of the written-out cases (the first few are kept).
func (r *Run) Sample(v interface{}) {
	if isWorker() {
		if worker != nil {
			if raw, err := json.Marshal(v); err == nil {
				worker.mu.Lock()
				worker.d.Samples = append(worker.d.Samples, raw)
				worker.mu.Unlock()
				atomic.AddInt64(&workerSamples, 1)
			}
		}
		return
	}
	r.mu.Lock()
	if len(r.samples) < r.maxSamples {
		r.samples = append(r.samples, v)
	}
	r.mu.Unlock()
}

// WantSample reports whether more samples are still wanted (cheap test to
// avoid building a sample value for every case).
func (r *Run) WantSample() bool {
	if isWorker() {
		return worker != nil && atomic.LoadInt64(&workerSamples) < 2
	}
	r.mu.Lock()
	defer r.mu.Unlock()
	return len(r.samples) < r.maxSamples
}

// TimeUp reports whether the driver-level time cap was reached. A check that
// stops because of it must call Capped.
func (r *Run) TimeUp() bool { return time.Now().After(r.deadline) }

// Capped marks the run as not exhaustive with a reason.
func (r *Run) Capped(why string) {
	if isWorker() {
		if worker != nil {
			worker.mu.Lock()
			worker.d.Capped = append(worker.d.Capped, why)
			worker.mu.Unlock()
		}
		return
	}
	r.mu.Lock()
	r.capped = true
	r.notes = append(r.notes, "capped: "+why)
	r.mu.Unlock()
}

// Par runs f(i) for i in [0,n) on all cores.
func (r *Run) Par(n int, f func(i int)) {
	ParN(runtime.NumCPU(), n, f)
}

// ParN runs f(i) for i in [0,n) on w workers.
func ParN(w, n int, f func(i int)) {
	if w > n {
		w = n
	}
	if w <= 1 {
		for i := 0; i < n; i++ {
			f(i)
		}
		return
	}
	var next int64 = -1
	var wg sync.WaitGroup
	for k := 0; k < w; k++ {
		wg.Add(1)
		go func() {
			defer wg.Done()
			for {
				i := int(atomic.AddInt64(&next, 1))
				if i >= n {
					return
				}
				f(i)
			}
		}()
	}
	wg.Wait()
}

func (r *Run) loadKnown() {
	data, err := os.ReadFile(filepath.Join(Root, "known_findings.json"))
	if err != nil {
		return
	}
	var all []Finding
	if err := json.Unmarshal(data, &all); err != nil {
		Fatalf("known_findings.json: %v", err)
	}
	for _, f := range all {
		if f.Property == r.Prop && f.Status == "known" {
			r.known = append(r.known, f)
		}
	}
}

// Violations returns the number of (unlisted) violations so far.
func (r *Run) Violations() int64 { return atomic.LoadInt64(&r.nviol) }

var workerSamples int64

var unsafeChars = regexp.MustCompile(`[^A-Za-z0-9_.=-]+`)

// Violation reports a failing case. key identifies the failing input / class
// (it is what known_findings.json lists); what is a one-line description;
// replay is any JSON-serialisable description sufficient to re-run the case.
// If key is a listed known finding the case is counted as such and no
// violation is raised.
func (r *Run) Violation(key, what string, replay interface{}) {
	if isWorker() {
		if worker != nil {
			r.workerViolation(key, what, replay)
		}
		return
	}
	r.mu.Lock()
	defer r.mu.Unlock()
	for _, f := range r.known {
		if f.Key == key {
			r.knownHit[key]++
			return
		}
	}
	atomic.AddInt64(&r.nviol, 1)
	for _, v := range r.violations {
		if v.Key == key {
			return // one replay per key
		}
	}
	if len(r.violations) >= 25 {
		return
	}
	dir := filepath.Join(Root, "replays", r.Prop)
	os.MkdirAll(dir, 0o755)
	name := unsafeChars.ReplaceAllString(key, "_")
	if len(name) > 80 {
		h := fnv.New32a()
		h.Write([]byte(key))
		name = name[:70] + fmt.Sprintf("_%08x", h.Sum32())
	}
	path := filepath.Join(dir, name+".json")
	doc := map[string]interface{}{"property": r.Prop, "tier": r.Tier, "key": key, "what": what, "case": replay}
	data, err := json.MarshalIndent(doc, "", " ")
	if err != nil {
		data = []byte(fmt.Sprintf(`{"property":%q,"key":%q,"what":%q,"case":"<unserialisable: %v>"}`, r.Prop, key, what, err))
	}
	os.WriteFile(path, data, 0o644)
	r.violations = append(r.violations, violation{Key: key, What: what, Replay: path})
}

// LoadReplay decodes the "case" member of the replay file into v.
func (r *Run) LoadReplay(v interface{}) {
	data, err := os.ReadFile(r.ReplayPath)
	if err != nil {
		Fatalf("replay: %v", err)
	}
	var doc struct {
		Case json.RawMessage `json:"case"`
	}
	if err := json.Unmarshal(data, &doc); err != nil {
		Fatalf("replay: %v", err)
	}
	if err := json.Unmarshal(doc.Case, v); err != nil {
		Fatalf("replay case: %v", err)
	}
}

func (r *Run) distinct() int {
	n := 0
	for i := range r.shards {
		n += len(r.shards[i].m)
	}
	return n
}

func (r *Run) finish() {
	wall := time.Since(r.start).Seconds()
	cov := map[string]interface{}{}
	for k, v := range r.extra {
		cov[k] = v
	}
	for k, c := range r.counters {
		cov[k] = atomic.LoadInt64(c)
	}
	cov["evaluations"] = r.Evals()
	cov["distinct_nontrivial"] = r.distinct()
	cov["rule"] = r.rule
	if len(r.samples) == 0 {
		r.samples = append(r.samples, "no sample recorded")
	}
	cov["samples"] = r.samples
	if _, ok := cov["exhaustive"]; !ok {
		cov["exhaustive"] = !r.capped
	} else if r.capped {
		cov["exhaustive"] = false
	}
	if len(r.notes) > 0 {
		cov["notes"] = r.notes
	}
	kh := []string{}
	for k, n := range r.knownHit {
		kh = append(kh, fmt.Sprintf("%s (%d cases)", k, n))
	}
	sort.Strings(kh)
	if len(kh) > 0 {
		cov["known_findings_reproduced"] = kh
	}
	if r.ReplayPath != "" {
		cov["replay_of"] = r.ReplayPath
	}
	ev := map[string]interface{}{
		"property_id": r.Prop,
		"tier":        r.Tier,
		"seed":        r.Seed,
		"level":       r.Level,
		"coverage":    cov,
		"assumptions": append([]string{}, r.assumptions...),
		"wall_s":      wall,
		"violations":  int(r.Violations()),
	}
	if part := os.Getenv("VERIF_EVIDENCE_PART"); part != "" && r.ReplayPath == "" {
		ev = mergeEvidence(filepath.Join(Root, "evidence", r.Prop+".json"), part, ev)
	}
	data, err := json.MarshalIndent(ev, "", " ")
	if err != nil {
		Fatalf("evidence: %v", err)
	}
	if r.ReplayPath == "" {
		os.MkdirAll(filepath.Join(Root, "evidence"), 0o755)
		if err := os.WriteFile(filepath.Join(Root, "evidence", r.Prop+".json"), append(data, '\n'), 0o644); err != nil {
			Fatalf("evidence: %v", err)
		}
	}
	for _, f := range r.known {
		if r.knownHit[f.Key] > 0 {
			fmt.Printf("KNOWN-FINDING: property=%s %s [key=%s, %d cases]\n", r.Prop, f.What, f.Key, r.knownHit[f.Key])
		}
	}
	fmt.Printf("%s %s: evaluations=%d distinct_nontrivial=%d violations=%d exhaustive=%v wall=%.1fs\n",
		r.Prop, r.Tier, r.Evals(), r.distinct(), r.Violations(), cov["exhaustive"], wall)
	if len(r.violations) > 0 {
		for _, v := range r.violations {
			fmt.Printf("VIOLATION property=%s replay=%s\n", r.Prop, v.Replay)
			fmt.Printf("  %s: %s\n", v.Key, strings.ReplaceAll(v.What, "\n", "\n  "))
		}
		os.Exit(1)
	}
	os.Exit(0)
}

// mergeEvidence folds this run into the evidence written by an earlier part of
// the same check invocation (a check that consists of two programs, e.g. an
// enumeration part and a schedule-exploration part): counts are added, the
// part's own coverage is kept under coverage.parts[<name>].
func mergeEvidence(path, part string, ev map[string]interface{}) map[string]interface{} {
	data, err := os.ReadFile(path)
	if err != nil {
		return ev
	}
	var prev map[string]interface{}
	if json.Unmarshal(data, &prev) != nil || prev["tier"] != ev["tier"] {
		return ev
	}
	pc, _ := prev["coverage"].(map[string]interface{})
	nc := ev["coverage"].(map[string]interface{})
	if pc == nil {
		return ev
	}
	num := func(v interface{}) float64 {
		switch x := v.(type) {
		case float64:
			return x
		case int64:
			return float64(x)
		case int:
			return float64(x)
		}
		return 0
	}
	parts, _ := pc["parts"].(map[string]interface{})
	if parts == nil {
		parts = map[string]interface{}{}
	}
	parts[part] = nc
	pc["parts"] = parts
	pc["evaluations"] = int64(num(pc["evaluations"]) + num(nc["evaluations"]))
	pc["distinct_nontrivial"] = int64(num(pc["distinct_nontrivial"]) + num(nc["distinct_nontrivial"]))
	pe, _ := pc["exhaustive"].(bool)
	ne, _ := nc["exhaustive"].(bool)
	pc["exhaustive"] = pe && ne
	if ps, ok := pc["samples"].([]interface{}); ok {
		if ns, ok := nc["samples"].([]interface{}); ok {
			pc["samples"] = append(ps, ns...)
		}
	}
	if r, ok := nc["rule"].(string); ok {
		pc["rule"] = fmt.Sprint(pc["rule"]) + " || part " + part + ": " + r
	}
	prev["coverage"] = pc
	prev["wall_s"] = num(prev["wall_s"]) + num(ev["wall_s"])
	prev["violations"] = int(num(prev["violations"]) + num(ev["violations"]))
	if pa, ok := prev["assumptions"].([]interface{}); ok {
		for _, a := range ev["assumptions"].([]string) {
			pa = append(pa, a)
		}
		prev["assumptions"] = pa
	}
	return prev
}

// Fatalf reports a harness error (exit 2): the check could not run.
func Fatalf(format string, a ...interface{}) {
	if isWorker() {
		// the parent reads the worker's stderr tail when it dies
		fmt.Fprintf(os.Stderr, "fatal error: HARNESS-ERROR "+format+"\n", a...)
		os.Exit(2)
	}
	fmt.Printf("HARNESS-ERROR "+format+"\n", a...)
	os.Exit(2)
}
