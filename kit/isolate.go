package kit

import (
	"bufio"
	"bytes"
	"encoding/json"
	"fmt"
	"io"
	"os"
	"os/exec"
	"runtime"
	"strconv"
	"strings"
	"sync"
	"sync/atomic"
	"time"
)

// Crash isolation: ParIsolated runs f(i) for every i in worker *processes*
// (re-executions of the check binary with VERIF_WORKER=1). The enumeration of
// cases must be deterministic so that index i means the same case in every
// process. A worker that dies (a panic in a library goroutine kills the whole
// process) or hangs turns into an observation about the one case it was
// running, reported through the crash callback, instead of ending the check.

type delta struct {
	I          int               `json:"i"`
	Evals      int64             `json:"e,omitempty"`
	Hashes     []uint64          `json:"h,omitempty"`
	Counters   map[string]int64  `json:"c,omitempty"`
	Samples    []json.RawMessage `json:"s,omitempty"`
	Violations []wireViolation   `json:"v,omitempty"`
	Capped     []string          `json:"cap,omitempty"`
	Restart    bool              `json:"restart,omitempty"`
}

// RestartWorker asks for this worker process to be replaced after the current
// case (its state is no longer trustworthy, e.g. a runaway goroutine).
func (r *Run) RestartWorker() {
	if worker != nil {
		worker.mu.Lock()
		worker.d.Restart = true
		worker.mu.Unlock()
	}
}

type wireViolation struct {
	Key    string          `json:"k"`
	What   string          `json:"w"`
	Replay json.RawMessage `json:"r"`
}

func isWorker() bool { return os.Getenv("VERIF_WORKER") == "1" }

// workerState is non-nil in a worker process while it serves cases.
type workerState struct {
	mu sync.Mutex
	d  delta
}

var worker *workerState

func (r *Run) workerViolation(key, what string, replay interface{}) {
	raw, err := json.Marshal(replay)
	if err != nil {
		raw, _ = json.Marshal(fmt.Sprintf("<unserialisable: %v>", err))
	}
	worker.mu.Lock()
	worker.d.Violations = append(worker.d.Violations, wireViolation{key, what, raw})
	worker.mu.Unlock()
}

// CaseTimeout is the watchdog for one isolated case (only catches hangs of
// non-terminating code; confirmed by one isolated re-run before being reported).
var CaseTimeout = 90 * time.Second

// ParIsolated runs f(i) for i in [0,n) in worker processes. crash is called in
// the parent when the worker running case i died or hung (what = "crash" or
// "hang", detail = tail of the worker's stderr); it should call r.Violation.
func (r *Run) ParIsolated(n int, f func(i int), crash func(i int, what, detail string)) {
	if isWorker() {
		r.serve(n, f)
		return // not reached
	}
	if n == 0 {
		return
	}
	w := runtime.NumCPU()
	if v, err := strconv.Atoi(os.Getenv("VERIF_WORKERS")); err == nil && v > 0 {
		w = v
	}
	if w > n {
		w = n
	}
	var next int64 = -1
	var wg sync.WaitGroup
	for k := 0; k < w; k++ {
		wg.Add(1)
		go func() {
			defer wg.Done()
			var wp *workerProc
			defer func() {
				if wp != nil {
					wp.stop()
				}
			}()
			for {
				i := int(atomic.AddInt64(&next, 1))
				if i >= n {
					return
				}
				if wp == nil {
					wp = startWorker()
				}
				d, status := wp.run(i)
				if status == "" {
					r.merge(d)
					if d.Restart {
						wp.kill()
						wp = nil
					}
					continue
				}
				detail := wp.stderrTail()
				wp.stop()
				wp = nil
				if status == "hang" {
					// confirm in a fresh worker before believing it
					wp2 := startWorker()
					d2, st2 := wp2.run(i)
					if st2 == "" {
						r.merge(d2)
						r.Note(fmt.Sprintf("case %d exceeded the %v watchdog once but completed on an isolated re-run", i, CaseTimeout))
						wp2.stop()
						continue
					}
					detail = wp2.stderrTail()
					wp2.stop()
					status = st2
				}
				crash(i, status, detail)
			}
		}()
	}
	wg.Wait()
}

func (r *Run) merge(d *delta) {
	r.Eval(int(d.Evals))
	for _, h := range d.Hashes {
		r.NontrivialHash(h)
	}
	for k, v := range d.Counters {
		r.Add(k, v)
	}
	for _, s := range d.Samples {
		r.Sample(s)
	}
	for _, v := range d.Violations {
		r.Violation(v.Key, v.What, v.Replay)
	}
	for _, c := range d.Capped {
		r.Capped(c)
	}
}

type workerProc struct {
	cmd    *exec.Cmd
	in     io.WriteCloser
	out    *bufio.Reader
	stderr *tailBuffer
	lines  chan string
}

type tailBuffer struct {
	mu sync.Mutex
	b  []byte
}

func (t *tailBuffer) Write(p []byte) (int, error) {
	t.mu.Lock()
	t.b = append(t.b, p...)
	if len(t.b) > 16384 {
		t.b = t.b[len(t.b)-16384:]
	}
	t.mu.Unlock()
	return len(p), nil
}

func startWorker() *workerProc {
	cmd := exec.Command(os.Args[0], os.Args[1:]...)
	cmd.Env = append(os.Environ(), "VERIF_WORKER=1", "GOMAXPROCS=2")
	in, err := cmd.StdinPipe()
	if err != nil {
		Fatalf("worker: %v", err)
	}
	out, err := cmd.StdoutPipe()
	if err != nil {
		Fatalf("worker: %v", err)
	}
	tb := &tailBuffer{}
	cmd.Stderr = tb
	if err := cmd.Start(); err != nil {
		Fatalf("worker: %v", err)
	}
	wp := &workerProc{cmd: cmd, in: in, out: bufio.NewReaderSize(out, 1<<20), stderr: tb, lines: make(chan string, 1)}
	go func() {
		for {
			line, err := wp.out.ReadString('\n')
			if err != nil {
				close(wp.lines)
				return
			}
			wp.lines <- line
		}
	}()
	return wp
}

func (wp *workerProc) run(i int) (*delta, string) {
	if _, err := fmt.Fprintf(wp.in, "%d\n", i); err != nil {
		return nil, "crash"
	}
	timer := time.NewTimer(CaseTimeout)
	defer timer.Stop()
	for {
		select {
		case line, ok := <-wp.lines:
			if !ok {
				return nil, "crash"
			}
			if !strings.HasPrefix(line, "\x01DELTA ") {
				continue // stray output of the code under test
			}
			var d delta
			if err := json.Unmarshal([]byte(line[7:]), &d); err != nil {
				Fatalf("worker protocol: %v in %q", err, line)
			}
			if d.I != i {
				Fatalf("worker protocol: answer for case %d while running %d", d.I, i)
			}
			return &d, ""
		case <-timer.C:
			return nil, "hang"
		}
	}
}

func (wp *workerProc) stderrTail() string {
	time.Sleep(20 * time.Millisecond) // let the dying process flush its trace
	wp.stderr.mu.Lock()
	defer wp.stderr.mu.Unlock()
	s := string(wp.stderr.b)
	// keep the head of the panic message and the first frames
	if i := strings.Index(s, "panic:"); i >= 0 {
		s = s[i:]
	} else if i := strings.Index(s, "fatal error:"); i >= 0 {
		s = s[i:]
	}
	lines := strings.Split(s, "\n")
	if len(lines) > 14 {
		lines = lines[:14]
	}
	return strings.Join(lines, "\n")
}

func (wp *workerProc) kill() {
	wp.cmd.Process.Kill()
	wp.in.Close()
	wp.cmd.Wait()
}

func (wp *workerProc) stop() {
	wp.in.Close()
	done := make(chan struct{})
	go func() { wp.cmd.Wait(); close(done) }()
	select {
	case <-done:
	case <-time.After(2 * time.Second):
		wp.cmd.Process.Kill()
		<-done
	}
}

// serve is the worker side: read case indices from stdin, run them, answer.
func (r *Run) serve(n int, f func(i int)) {
	worker = &workerState{}
	in := bufio.NewReader(os.Stdin)
	out := bufio.NewWriter(os.Stdout)
	for {
		line, err := in.ReadString('\n')
		if err != nil {
			os.Exit(0)
		}
		i, err := strconv.Atoi(strings.TrimSpace(line))
		if err != nil || i < 0 || i >= n {
			fmt.Fprintf(os.Stderr, "worker: bad index %q (n=%d)\n", line, n)
			os.Exit(3)
		}
		worker.mu.Lock()
		worker.d = delta{I: i}
		worker.mu.Unlock()
		f(i)
		worker.mu.Lock()
		data, err := json.Marshal(&worker.d)
		worker.mu.Unlock()
		if err != nil {
			fmt.Fprintf(os.Stderr, "worker: %v\n", err)
			os.Exit(3)
		}
		out.WriteString("\x01DELTA ")
		out.Write(bytes.ReplaceAll(data, []byte("\n"), []byte(" ")))
		out.WriteByte('\n')
		out.Flush()
		if worker.d.Restart {
			os.Exit(0)
		}
	}
}

// CrashClass reduces a crash report (tail of a worker's stderr) to a stable
// class: the panic message without numbers plus the first frame inside the
// library under test.
func CrashClass(detail string) string {
	lines := strings.Split(detail, "\n")
	head := ""
	if len(lines) > 0 {
		head = lines[0]
	}
	var b strings.Builder
	for _, c := range head {
		if c >= '0' && c <= '9' {
			continue
		}
		b.WriteRune(c)
	}
	head = strings.Join(strings.Fields(b.String()), " ")
	if len(head) > 60 {
		head = head[:60]
	}
	frame := ""
	for _, l := range lines {
		l = strings.TrimSpace(l)
		if strings.HasPrefix(l, "github.com/paulmach/osm") {
			frame = l
			if i := strings.Index(frame, "("); i > 0 && strings.HasSuffix(frame, ")") {
				// drop the argument list "(0x..., ...)" at the end
				if j := strings.LastIndex(frame, "("); j > 0 {
					frame = frame[:j]
				}
			}
			frame = strings.TrimPrefix(frame, "github.com/paulmach/osm/")
			break
		}
	}
	return head + " @" + frame
}
