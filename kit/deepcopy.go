package kit

import "reflect"

// DeepCopy returns a copy of v that shares no pointer, slice or map with it
// (unexported struct fields, e.g. inside time.Time, are copied by value).
func DeepCopy(v interface{}) interface{} {
	if v == nil {
		return nil
	}
	return deepCopy(reflect.ValueOf(v)).Interface()
}

func deepCopy(v reflect.Value) reflect.Value {
	switch v.Kind() {
	case reflect.Ptr:
		if v.IsNil() {
			return v
		}
		n := reflect.New(v.Type().Elem())
		n.Elem().Set(deepCopy(v.Elem()))
		return n
	case reflect.Interface:
		if v.IsNil() {
			return v
		}
		n := reflect.New(v.Type()).Elem()
		n.Set(deepCopy(v.Elem()))
		return n
	case reflect.Slice:
		if v.IsNil() {
			return v
		}
		n := reflect.MakeSlice(v.Type(), v.Len(), v.Len())
		for i := 0; i < v.Len(); i++ {
			n.Index(i).Set(deepCopy(v.Index(i)))
		}
		return n
	case reflect.Array:
		n := reflect.New(v.Type()).Elem()
		for i := 0; i < v.Len(); i++ {
			n.Index(i).Set(deepCopy(v.Index(i)))
		}
		return n
	case reflect.Map:
		if v.IsNil() {
			return v
		}
		n := reflect.MakeMapWithSize(v.Type(), v.Len())
		it := v.MapRange()
		for it.Next() {
			n.SetMapIndex(deepCopy(it.Key()), deepCopy(it.Value()))
		}
		return n
	case reflect.Struct:
		n := reflect.New(v.Type()).Elem()
		n.Set(v) // shallow copy, including unexported fields
		for i := 0; i < v.NumField(); i++ {
			if f := n.Field(i); f.CanSet() {
				switch f.Kind() {
				case reflect.Ptr, reflect.Interface, reflect.Slice, reflect.Map, reflect.Struct, reflect.Array:
					f.Set(deepCopy(v.Field(i)))
				}
			}
		}
		return n
	}
	return v
}
