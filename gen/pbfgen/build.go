package pbfgen

import (
	"fmt"
	"regexp"
)

// Small constructors shared by the checks.

func I32(v int32) *int32   { return &v }
func I64(v int64) *int64   { return &v }
func Str(v string) *string { return &v }
func Bool(v bool) *bool    { return &v }

// StdHeader is a plain header block.
func StdHeader() *Header {
	return &Header{Required: []string{"OsmSchema-V0.6", "DenseNodes"}, WritingProgram: Str("pbfgen")}
}

// FullInfo returns an Info with all six fields derived from seed.
func FullInfo(seed int64) *Info {
	return &Info{Version: I32(int32(seed%7 + 1)), Timestamp: I64(20000000 + seed*1000), Changeset: I64(5000 + seed),
		UID: I32(int32(300 + seed)), User: Str(fmt.Sprintf("user%d", seed)), Visible: Bool(seed%2 == 0)}
}

// SubInfo keeps the fields of in selected by the bit mask (bit i = field i+1).
func SubInfo(in *Info, mask int) *Info {
	out := &Info{}
	if mask&1 != 0 {
		out.Version = in.Version
	}
	if mask&2 != 0 {
		out.Timestamp = in.Timestamp
	}
	if mask&4 != 0 {
		out.Changeset = in.Changeset
	}
	if mask&8 != 0 {
		out.UID = in.UID
	}
	if mask&16 != 0 {
		out.User = in.User
	}
	if mask&32 != 0 {
		out.Visible = in.Visible
	}
	return out
}

// DenseNode builds a fully populated dense node from a seed.
func DenseNode(id, seed int64) DNode {
	return DNode{ID: id, Lat: 515000000 + seed*1234, Lon: -1200000 - seed*777, Version: int32(seed%5 + 1),
		Timestamp: 21000000 + seed*60, Changeset: 9000 + seed*3, UID: int32(40 + seed), User: fmt.Sprintf("u%d", seed%3),
		Visible: seed%3 != 0, Tags: [][2]string{{fmt.Sprintf("k%d", seed), fmt.Sprintf("v%d", seed)}, {"name", fmt.Sprintf("n%d", seed)}}}
}

// ColsMask converts a 6-bit mask to the Cols array.
func ColsMask(mask int) (c [6]bool) {
	for i := 0; i < 6; i++ {
		c[i] = mask&(1<<uint(i)) != 0
	}
	return
}

var (
	reNum = regexp.MustCompile(`-?[0-9][0-9.e+-]*`)
	reStr = regexp.MustCompile(`"[^"]*"`)
)

// Class reduces a difference message to a stable class (numbers and quoted
// strings removed) usable as part of a violation key.
func Class(diff string) string {
	s := reStr.ReplaceAllString(diff, "S")
	s = reNum.ReplaceAllString(s, "N")
	if len(s) > 70 {
		s = s[:70]
	}
	return s
}
