// Package pbfgen is an independent OSM PBF writer plus the format model used as
// the oracle of the PBF checks (C01, C02, C06, C07, C08, C09). It shares no code
// with /repo: protobuf wire encoding is written by hand here, and the expected
// objects are computed from the abstract model by the format's definition, never
// by decoding.
package pbfgen

// buf is a protobuf wire-format writer.
type buf struct{ b []byte }

func (w *buf) varint(v uint64) {
	for v >= 0x80 {
		w.b = append(w.b, byte(v)|0x80)
		v >>= 7
	}
	w.b = append(w.b, byte(v))
}

func zigzag(v int64) uint64 { return uint64(v<<1) ^ uint64(v>>63) }

func (w *buf) tag(field, wt int) { w.varint(uint64(field)<<3 | uint64(wt)) }

// int64 field as plain varint (two's complement for negatives, 10 bytes).
func (w *buf) fInt(field int, v int64) { w.tag(field, 0); w.varint(uint64(v)) }

func (w *buf) fSint(field int, v int64) { w.tag(field, 0); w.varint(zigzag(v)) }

func (w *buf) fBool(field int, v bool) {
	w.tag(field, 0)
	if v {
		w.varint(1)
	} else {
		w.varint(0)
	}
}

func (w *buf) fBytes(field int, p []byte) {
	w.tag(field, 2)
	w.varint(uint64(len(p)))
	w.b = append(w.b, p...)
}

func (w *buf) fString(field int, s string) { w.fBytes(field, []byte(s)) }

func packedInt(vs []int64) []byte {
	var p buf
	for _, v := range vs {
		p.varint(uint64(v))
	}
	return p.b
}

func packedSint(vs []int64) []byte {
	var p buf
	for _, v := range vs {
		p.varint(zigzag(v))
	}
	return p.b
}

// delta returns the delta coding of vs.
func delta(vs []int64) []int64 {
	out := make([]int64, len(vs))
	var prev int64
	for i, v := range vs {
		out[i] = v - prev
		prev = v
	}
	return out
}
