package pbfgen

import (
	"fmt"
	"math"
	"time"

	"github.com/paulmach/osm"
	"github.com/paulmach/osm/osmpbf"
)

const coordTol = 1e-10

func coordEq(a, b float64) bool { return math.Abs(a-b) <= coordTol }

// timeEq compares instants; an absent timestamp (zero want) may be reported as
// the zero time or as the Unix epoch ("zero metadata").
func timeEq(got, want time.Time) bool {
	if want.IsZero() {
		return got.IsZero() || got.Equal(time.Unix(0, 0))
	}
	return got.Equal(want)
}

func tagsDiff(got, want osm.Tags) string {
	if len(got) != len(want) {
		return fmt.Sprintf("tags: got %v want %v", got, want)
	}
	for i := range got {
		if got[i] != want[i] {
			return fmt.Sprintf("tags[%d]: got %v want %v", i, got[i], want[i])
		}
	}
	return ""
}

// DiffObject returns "" when got equals want field for field (the fields the PBF
// format carries; every other field must be zero), else the first difference.
func DiffObject(got, want osm.Object) string {
	switch w := want.(type) {
	case *osm.Node:
		g, ok := got.(*osm.Node)
		if !ok || g == nil {
			return fmt.Sprintf("kind: got %T want node %d", got, w.ID)
		}
		switch {
		case g.ID != w.ID:
			return fmt.Sprintf("node id: got %d want %d", g.ID, w.ID)
		case g.Version != w.Version:
			return fmt.Sprintf("node %d version: got %d want %d", w.ID, g.Version, w.Version)
		case !timeEq(g.Timestamp, w.Timestamp):
			return fmt.Sprintf("node %d timestamp: got %v want %v", w.ID, g.Timestamp, w.Timestamp)
		case g.ChangesetID != w.ChangesetID:
			return fmt.Sprintf("node %d changeset: got %d want %d", w.ID, g.ChangesetID, w.ChangesetID)
		case g.UserID != w.UserID:
			return fmt.Sprintf("node %d uid: got %d want %d", w.ID, g.UserID, w.UserID)
		case g.User != w.User:
			return fmt.Sprintf("node %d user: got %q want %q", w.ID, g.User, w.User)
		case g.Visible != w.Visible:
			return fmt.Sprintf("node %d visible: got %v want %v", w.ID, g.Visible, w.Visible)
		case !coordEq(g.Lat, w.Lat) || !coordEq(g.Lon, w.Lon):
			return fmt.Sprintf("node %d location: got (%.10f,%.10f) want (%.10f,%.10f)", w.ID, g.Lat, g.Lon, w.Lat, w.Lon)
		case g.Committed != nil:
			return fmt.Sprintf("node %d: invented committed time", w.ID)
		}
		if d := tagsDiff(g.Tags, w.Tags); d != "" {
			return fmt.Sprintf("node %d %s", w.ID, d)
		}
	case *osm.Way:
		g, ok := got.(*osm.Way)
		if !ok || g == nil {
			return fmt.Sprintf("kind: got %T want way %d", got, w.ID)
		}
		switch {
		case g.ID != w.ID:
			return fmt.Sprintf("way id: got %d want %d", g.ID, w.ID)
		case g.Version != w.Version:
			return fmt.Sprintf("way %d version: got %d want %d", w.ID, g.Version, w.Version)
		case !timeEq(g.Timestamp, w.Timestamp):
			return fmt.Sprintf("way %d timestamp: got %v want %v", w.ID, g.Timestamp, w.Timestamp)
		case g.ChangesetID != w.ChangesetID:
			return fmt.Sprintf("way %d changeset: got %d want %d", w.ID, g.ChangesetID, w.ChangesetID)
		case g.UserID != w.UserID:
			return fmt.Sprintf("way %d uid: got %d want %d", w.ID, g.UserID, w.UserID)
		case g.User != w.User:
			return fmt.Sprintf("way %d user: got %q want %q", w.ID, g.User, w.User)
		case g.Visible != w.Visible:
			return fmt.Sprintf("way %d visible: got %v want %v", w.ID, g.Visible, w.Visible)
		case len(g.Nodes) != len(w.Nodes):
			return fmt.Sprintf("way %d nodes: got %v want %v", w.ID, g.Nodes, w.Nodes)
		case len(g.Updates) != 0 || g.Committed != nil || g.Bounds != nil:
			return fmt.Sprintf("way %d: invented annotation", w.ID)
		}
		for i := range g.Nodes {
			a, b := g.Nodes[i], w.Nodes[i]
			if a.ID != b.ID || a.Version != 0 || a.ChangesetID != 0 || !coordEq(a.Lat, b.Lat) || !coordEq(a.Lon, b.Lon) {
				return fmt.Sprintf("way %d node[%d]: got %+v want %+v", w.ID, i, a, b)
			}
		}
		if d := tagsDiff(g.Tags, w.Tags); d != "" {
			return fmt.Sprintf("way %d %s", w.ID, d)
		}
	case *osm.Relation:
		g, ok := got.(*osm.Relation)
		if !ok || g == nil {
			return fmt.Sprintf("kind: got %T want relation %d", got, w.ID)
		}
		switch {
		case g.ID != w.ID:
			return fmt.Sprintf("relation id: got %d want %d", g.ID, w.ID)
		case g.Version != w.Version:
			return fmt.Sprintf("relation %d version: got %d want %d", w.ID, g.Version, w.Version)
		case !timeEq(g.Timestamp, w.Timestamp):
			return fmt.Sprintf("relation %d timestamp: got %v want %v", w.ID, g.Timestamp, w.Timestamp)
		case g.ChangesetID != w.ChangesetID:
			return fmt.Sprintf("relation %d changeset: got %d want %d", w.ID, g.ChangesetID, w.ChangesetID)
		case g.UserID != w.UserID:
			return fmt.Sprintf("relation %d uid: got %d want %d", w.ID, g.UserID, w.UserID)
		case g.User != w.User:
			return fmt.Sprintf("relation %d user: got %q want %q", w.ID, g.User, w.User)
		case g.Visible != w.Visible:
			return fmt.Sprintf("relation %d visible: got %v want %v", w.ID, g.Visible, w.Visible)
		case len(g.Members) != len(w.Members):
			return fmt.Sprintf("relation %d members: got %v want %v", w.ID, g.Members, w.Members)
		case len(g.Updates) != 0 || g.Committed != nil || g.Bounds != nil:
			return fmt.Sprintf("relation %d: invented annotation", w.ID)
		}
		for i := range g.Members {
			a, b := g.Members[i], w.Members[i]
			if a.Type != b.Type || a.Ref != b.Ref || a.Role != b.Role || a.Version != 0 || a.ChangesetID != 0 ||
				a.Lat != 0 || a.Lon != 0 || a.Orientation != 0 || len(a.Nodes) != 0 {
				return fmt.Sprintf("relation %d member[%d]: got %+v want %+v", w.ID, i, a, b)
			}
		}
		if d := tagsDiff(g.Tags, w.Tags); d != "" {
			return fmt.Sprintf("relation %d %s", w.ID, d)
		}
	default:
		return fmt.Sprintf("unexpected expected type %T", want)
	}
	return ""
}

// DiffObjects compares two sequences; "" when equal.
func DiffObjects(got, want []osm.Object) string {
	for i := 0; i < len(got) && i < len(want); i++ {
		if d := DiffObject(got[i], want[i]); d != "" {
			return fmt.Sprintf("object %d: %s", i, d)
		}
	}
	if len(got) != len(want) {
		return fmt.Sprintf("object count: got %d want %d (got ids %v, want ids %v)", len(got), len(want), IDs(got), IDs(want))
	}
	return ""
}

// IDs lists the object ids of a sequence (for messages).
func IDs(objs []osm.Object) []string {
	out := make([]string, len(objs))
	for i, o := range objs {
		if o == nil {
			out[i] = "<nil>"
			continue
		}
		// not through osm.ObjectID: it keeps 40 bits of the id, and its Type()
		// panics when a negative or larger id has overwritten the type bits
		switch v := o.(type) {
		case *osm.Node:
			if v == nil {
				out[i] = "<nil node>"
				continue
			}
			out[i] = fmt.Sprintf("n%d", int64(v.ID))
		case *osm.Way:
			if v == nil {
				out[i] = "<nil way>"
				continue
			}
			out[i] = fmt.Sprintf("w%d", int64(v.ID))
		case *osm.Relation:
			if v == nil {
				out[i] = "<nil relation>"
				continue
			}
			out[i] = fmt.Sprintf("r%d", int64(v.ID))
		default:
			out[i] = fmt.Sprintf("%T", o)
		}
	}
	return out
}

func strsEq(a, b []string) bool {
	if len(a) != len(b) {
		return false
	}
	for i := range a {
		if a[i] != b[i] {
			return false
		}
	}
	return true
}

// DiffHeader compares headers; "" when equal.
func DiffHeader(got, want *osmpbf.Header) string {
	if (got == nil) != (want == nil) {
		return fmt.Sprintf("header: got %+v want %+v", got, want)
	}
	if got == nil {
		return ""
	}
	switch {
	case (got.Bounds == nil) != (want.Bounds == nil):
		return fmt.Sprintf("header bounds: got %v want %v", got.Bounds, want.Bounds)
	case got.Bounds != nil && !(coordEq(got.Bounds.MinLat, want.Bounds.MinLat) && coordEq(got.Bounds.MaxLat, want.Bounds.MaxLat) &&
		coordEq(got.Bounds.MinLon, want.Bounds.MinLon) && coordEq(got.Bounds.MaxLon, want.Bounds.MaxLon)):
		return fmt.Sprintf("header bounds: got %+v want %+v", *got.Bounds, *want.Bounds)
	case !strsEq(got.RequiredFeatures, want.RequiredFeatures):
		return fmt.Sprintf("required features: got %q want %q", got.RequiredFeatures, want.RequiredFeatures)
	case !strsEq(got.OptionalFeatures, want.OptionalFeatures):
		return fmt.Sprintf("optional features: got %q want %q", got.OptionalFeatures, want.OptionalFeatures)
	case got.WritingProgram != want.WritingProgram:
		return fmt.Sprintf("writingprogram: got %q want %q", got.WritingProgram, want.WritingProgram)
	case got.Source != want.Source:
		return fmt.Sprintf("source: got %q want %q", got.Source, want.Source)
	case !timeEq(got.ReplicationTimestamp, want.ReplicationTimestamp):
		return fmt.Sprintf("replication timestamp: got %v want %v", got.ReplicationTimestamp, want.ReplicationTimestamp)
	case got.ReplicationSeqNum != want.ReplicationSeqNum:
		return fmt.Sprintf("replication seq: got %d want %d", got.ReplicationSeqNum, want.ReplicationSeqNum)
	case got.ReplicationBaseURL != want.ReplicationBaseURL:
		return fmt.Sprintf("replication url: got %q want %q", got.ReplicationBaseURL, want.ReplicationBaseURL)
	}
	return ""
}
