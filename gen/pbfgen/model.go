package pbfgen

import (
	"bytes"
	"compress/zlib"
	"encoding/binary"
	"strings"
	"time"

	"github.com/paulmach/osm"
	"github.com/paulmach/osm/osmpbf"
)

// File is the abstract model of a PBF file.
type File struct {
	Header *Header // nil: the file starts with a data block (resumed scan)
	Blocks []Block
}

// Header is the abstract header block. nil pointer / nil slice = field absent.
type Header struct {
	BBox           *[4]int64 // left, right, top, bottom in nanodegrees
	Required       []string
	Optional       []string
	WritingProgram *string
	Source         *string
	ReplTimestamp  *int64
	ReplSeq        *int64
	ReplURL        *string
	Enc            Enc
}

// Enc says how a blob is encoded.
type Enc struct {
	Raw          bool   // raw instead of zlib_data
	RawSizeOnRaw bool   // also write raw_size on a raw blob (allowed, redundant)
	IndexData    []byte // BlobHeader.indexdata
	// ZlibLevel, when not nil, is the compress/zlib level of a zlib blob
	// (0 = stored blocks, 1..9, -2 = Huffman only); nil = the default level.
	ZlibLevel *int
}

// Block is one OSMData block.
type Block struct {
	Granularity     *int32
	LatOffset       *int64
	LonOffset       *int64
	DateGranularity *int32
	ExtraStrings    []string // unused string table entries, placed first (after index 0)
	Groups          []Group
	Enc             Enc
	// ParamsAfterGroups writes fields 17-20 after the groups (they have higher
	// field numbers, so this is the canonical order); false writes them first.
	ParamsFirst bool
	Damage      string // see damage.go; "" = intact
	// EmptyAtZero makes the empty string use string-table index 0 (the entry every
	// writer has to put there; osmium and osmosis use it for an empty role or an
	// anonymous user) wherever an index 0 is allowed: user_sid, way/relation tag
	// keys and values, roles, dense tag values. A dense tag KEY "" keeps an index
	// of its own (0 is the delimiter of keys_vals). false: "" gets its own entry.
	EmptyAtZero bool
	// ZeroString, if not empty, is written at string-table index 0 and used from there
	// (index 0 is an ordinary entry for everything but the keys of dense nodes, where 0 is
	// the delimiter; a block of ways / relations may well have its first real string there).
	ZeroString string
	// Bare makes the PrimitiveBlock message zero bytes long (no string table, no groups):
	// together with Enc.Raw a blob whose raw field is present and empty.
	Bare bool
}

// Group is one primitive group: exactly one of the fields is used.
type Group struct {
	Dense      *Dense
	Ways       []Way
	Relations  []Relation
	PlainNodes []DNode // encoded as repeated Node (field 1); the library does not support them
	Changesets []int64
}

// Dense is a DenseNodes message. Info=false means no DenseInfo at all; Cols says
// which of the six DenseInfo columns are written (version, timestamp, changeset,
// uid, user_sid, visible). KeysVals=false omits the keys_vals column (then all
// nodes must be tagless).
type Dense struct {
	Nodes    []DNode
	Info     bool
	Cols     [6]bool
	KeysVals bool
	// EmptyKeysVals writes keys_vals as a packed field of length 0 (the protobuf
	// encoding of "no values", equivalent to leaving the field out) instead of one
	// 0 per node; only meaningful with KeysVals and all nodes tagless.
	EmptyKeysVals bool
}

// DNode is a node in logical (absolute, not delta-coded) values. Lat/Lon are raw
// integer units of the block's granularity, Timestamp is in units of the block's
// date granularity.
type DNode struct {
	ID        int64
	Lat, Lon  int64
	Version   int32
	Timestamp int64
	Changeset int64
	UID       int32
	User      string
	Visible   bool
	Tags      [][2]string
}

// Info is the per-way/relation Info message; nil pointer = field absent.
type Info struct {
	Version   *int32
	Timestamp *int64
	Changeset *int64
	UID       *int32
	User      *string
	Visible   *bool
}

// Way in logical values. Lats/Lons nil = column absent.
type Way struct {
	ID   int64
	Tags [][2]string
	Info *Info
	Refs []int64
	Lats []int64
	Lons []int64
	// NoRefs omits field 8 entirely (an empty way); with false and len(Refs)==0 an
	// empty packed field is written.
	NoRefs bool
	// FieldsReversed writes the fields of the Way message in the opposite order (lons, lats,
	// refs, info, vals, keys, id): any field order is a legal encoding of the same message.
	FieldsReversed bool
}

// Member of a relation. Type: 0 node, 1 way, 2 relation.
type Member struct {
	Type int
	Ref  int64
	Role string
}

// Relation in logical values.
type Relation struct {
	ID      int64
	Tags    [][2]string
	Info    *Info
	Members []Member
	// NoMembers omits fields 8-10 entirely.
	NoMembers bool
	// FieldsReversed: see Way.FieldsReversed.
	FieldsReversed bool
}

// strtab builds a block's string table.
type strtab struct {
	s   []string
	idx map[string]int
	// emptyAtZero: id("") is 0; denseKey("") still gets a non-zero entry
	emptyAtZero bool
	emptyKey    int
	zero        bool // index 0 holds a real string
	zeroKey     int
}

func newStrtabZ(extra []string, emptyAtZero bool) *strtab {
	t := &strtab{s: []string{""}, idx: map[string]int{}, emptyAtZero: emptyAtZero}
	for _, e := range extra {
		t.s = append(t.s, e) // deliberately not indexed: unused entries
	}
	return t
}

func (t *strtab) id(s string) int64 {
	if s == "" && t.emptyAtZero {
		return 0
	}
	if i, ok := t.idx[s]; ok {
		return int64(i)
	}
	t.s = append(t.s, s)
	t.idx[s] = len(t.s) - 1
	return int64(len(t.s) - 1)
}

// denseKey is id for a key inside keys_vals, where index 0 is the delimiter.
func (t *strtab) denseKey(s string) int64 {
	if s == "" && t.emptyAtZero {
		if t.emptyKey == 0 {
			t.s = append(t.s, "")
			t.emptyKey = len(t.s) - 1
		}
		return int64(t.emptyKey)
	}
	if t.zero && s == t.s[0] {
		// a dense key cannot use index 0: a second entry for the same string
		if t.zeroKey == 0 {
			t.s = append(t.s, s)
			t.zeroKey = len(t.s) - 1
		}
		return int64(t.zeroKey)
	}
	return t.id(s)
}

func (t *strtab) bytes() []byte {
	var w buf
	for _, s := range t.s {
		w.fString(1, s)
	}
	return w.b
}

func encInfo(info *Info, st *strtab, dmg string) []byte {
	var w buf
	if info.Version != nil {
		w.fInt(1, int64(*info.Version))
	}
	if info.Timestamp != nil {
		w.fInt(2, *info.Timestamp)
	}
	if info.Changeset != nil {
		w.fInt(3, *info.Changeset)
	}
	if info.UID != nil {
		w.fInt(4, int64(*info.UID))
	}
	if info.User != nil {
		id := st.id(*info.User)
		if dmg == "info-user-sid-out-of-range" {
			id = 100000
		}
		w.fInt(5, id)
	}
	if info.Visible != nil {
		w.fBool(6, *info.Visible)
	}
	return w.b
}

func encDense(d *Dense, st *strtab, dmg string) []byte {
	n := len(d.Nodes)
	ids, lats, lons := make([]int64, n), make([]int64, n), make([]int64, n)
	vers, tss, css, uids, usids, viss := make([]int64, n), make([]int64, n), make([]int64, n), make([]int64, n), make([]int64, n), make([]int64, n)
	var kv []int64
	for i, nd := range d.Nodes {
		ids[i], lats[i], lons[i] = nd.ID, nd.Lat, nd.Lon
		vers[i], tss[i], css[i], uids[i] = int64(nd.Version), nd.Timestamp, nd.Changeset, int64(nd.UID)
		if d.Info && d.Cols[4] {
			usids[i] = st.id(nd.User)
		}
		if nd.Visible {
			viss[i] = 1
		}
		if d.KeysVals {
			for _, t := range nd.Tags {
				kv = append(kv, st.denseKey(t[0]), st.id(t[1]))
			}
			kv = append(kv, 0)
		}
	}
	cut := func(v []int64) []int64 {
		if len(v) > 0 {
			return v[:len(v)-1]
		}
		return v
	}
	switch dmg {
	case "user-sid-out-of-range":
		if n > 0 {
			usids[n-1] = 100000
		}
	case "keyvals-key-out-of-range":
		for i := 0; i+1 < len(kv); i++ {
			if kv[i] != 0 {
				kv[i] = 100000
				break
			}
		}
	case "keyvals-val-out-of-range":
		for i := 0; i+1 < len(kv); i++ {
			if kv[i] != 0 {
				kv[i+1] = 100000
				break
			}
		}
	case "keyvals-unterminated":
		if len(kv) > 0 {
			kv = kv[:len(kv)-1]
		}
	case "keyvals-odd":
		// a key without a value at the very end
		if len(kv) > 0 {
			kv = append(kv[:len(kv)-1], 1)
		}
	case "lats-short":
		lats = cut(lats)
	case "lons-short":
		lons = cut(lons)
	case "versions-short":
		vers = cut(vers)
	case "timestamps-short":
		tss = cut(tss)
	case "changesets-short":
		css = cut(css)
	case "uids-short":
		uids = cut(uids)
	case "usids-short":
		usids = cut(usids)
	case "visibles-short":
		viss = cut(viss)
	case "keyvals-short":
		// drop the whole tag list (and delimiter) of the last node
		if n > 0 && len(kv) > 0 {
			k := len(kv) - 1
			for k > 0 && kv[k-1] != 0 {
				k--
			}
			kv = kv[:k]
		}
	}
	var w buf
	if dmg != "no-ids" {
		w.fBytes(1, packedSint(delta(ids)))
	}
	if d.Info {
		var iw buf
		if d.Cols[0] {
			iw.fBytes(1, packedInt(vers))
		}
		if d.Cols[1] {
			iw.fBytes(2, packedSint(delta(tss)))
		}
		if d.Cols[2] {
			iw.fBytes(3, packedSint(delta(css)))
		}
		if d.Cols[3] {
			iw.fBytes(4, packedSint(delta(uids)))
		}
		if d.Cols[4] {
			iw.fBytes(5, packedSint(delta(usids)))
		}
		if d.Cols[5] {
			iw.fBytes(6, packedInt(viss))
		}
		w.fBytes(5, iw.b)
	}
	if dmg != "no-lats" {
		w.fBytes(8, packedSint(delta(lats)))
	}
	if dmg != "no-lons" {
		w.fBytes(9, packedSint(delta(lons)))
	}
	if d.KeysVals {
		if d.EmptyKeysVals {
			kv = nil
		}
		w.fBytes(10, packedInt(kv))
	}
	return w.b
}

func encTags(w *buf, tags [][2]string, st *strtab, dmg string) {
	if len(tags) == 0 {
		return
	}
	ks, vs := make([]int64, len(tags)), make([]int64, len(tags))
	for i, t := range tags {
		ks[i], vs[i] = st.id(t[0]), st.id(t[1])
	}
	switch dmg {
	case "tag-key-out-of-range":
		ks[len(ks)-1] = 100000
	case "tag-val-out-of-range":
		vs[len(vs)-1] = 100000
	case "tag-vals-short":
		vs = vs[:len(vs)-1]
	}
	w.fBytes(2, packedInt(ks))
	w.fBytes(3, packedInt(vs))
}

func encWay(wy *Way, st *strtab, dmg string) []byte {
	var w buf
	w.fInt(1, wy.ID)
	encTags(&w, wy.Tags, st, dmg)
	if wy.Info != nil {
		w.fBytes(4, encInfo(wy.Info, st, dmg))
	}
	if !wy.NoRefs {
		w.fBytes(8, packedSint(delta(wy.Refs)))
	}
	lats, lons := wy.Lats, wy.Lons
	switch dmg {
	case "lats-longer-than-refs":
		lats = append(append([]int64{}, lats...), 7)
	case "lons-longer-than-refs":
		lons = append(append([]int64{}, lons...), 7)
	}
	if lats != nil {
		w.fBytes(9, packedSint(delta(lats)))
	}
	if lons != nil {
		w.fBytes(10, packedSint(delta(lons)))
	}
	if wy.FieldsReversed {
		return reverseFields(w.b)
	}
	return w.b
}

// reverseFields re-emits the top-level fields of a message (varint and length-delimited
// fields only) in the opposite order.
func reverseFields(b []byte) []byte {
	var fields [][]byte
	for len(b) > 0 {
		i := 0
		for b[i]&0x80 != 0 {
			i++
		}
		wt := b[0] & 7
		i++
		switch wt {
		case 0:
			for b[i]&0x80 != 0 {
				i++
			}
			i++
		case 2:
			var l, shift uint64
			for {
				c := b[i]
				i++
				l |= uint64(c&0x7f) << shift
				shift += 7
				if c&0x80 == 0 {
					break
				}
			}
			i += int(l)
		default:
			panic("pbfgen: reverseFields: unexpected wire type")
		}
		fields = append(fields, b[:i])
		b = b[i:]
	}
	var out []byte
	for k := len(fields) - 1; k >= 0; k-- {
		out = append(out, fields[k]...)
	}
	return out
}

func encRelation(r *Relation, st *strtab, dmg string) []byte {
	var w buf
	w.fInt(1, r.ID)
	encTags(&w, r.Tags, st, dmg)
	if r.Info != nil {
		w.fBytes(4, encInfo(r.Info, st, dmg))
	}
	if !r.NoMembers {
		n := len(r.Members)
		roles, ids, types := make([]int64, n), make([]int64, n), make([]int64, n)
		for i, m := range r.Members {
			roles[i], ids[i], types[i] = st.id(m.Role), m.Ref, int64(m.Type)
		}
		switch dmg {
		case "role-out-of-range":
			if n > 0 {
				roles[n-1] = 100000
			}
		case "more-roles-than-types":
			if n > 0 {
				types = types[:n-1]
			}
		case "memids-short":
			if n > 0 {
				ids = ids[:n-1]
			}
		case "types-longer":
			types = append(types, 0)
		}
		w.fBytes(8, packedInt(roles))
		w.fBytes(9, packedSint(delta(ids)))
		w.fBytes(10, packedInt(types))
	}
	if r.FieldsReversed {
		return reverseFields(w.b)
	}
	return w.b
}

func encPlainNode(n *DNode, st *strtab) []byte {
	var w buf
	w.fSint(1, n.ID)
	encTags(&w, n.Tags, st, "")
	w.fSint(8, n.Lat)
	w.fSint(9, n.Lon)
	return w.b
}

// PrimitiveBlock returns the serialized PrimitiveBlock message.
func (b *Block) PrimitiveBlock() []byte {
	if b.Bare {
		return []byte{}
	}
	st := newStrtabZ(b.ExtraStrings, b.EmptyAtZero)
	if b.ZeroString != "" {
		st.s[0] = b.ZeroString
		st.idx[b.ZeroString] = 0
		st.zero = true
	}
	// Damage is "<target>:<name>" with target dense, way, rel or block.
	part := func(target string) string {
		if strings.HasPrefix(b.Damage, target+":") {
			return b.Damage[len(target)+1:]
		}
		return ""
	}
	ddmg, wdmg, rdmg, bdmg := part("dense"), part("way"), part("rel"), part("block")
	var groups [][]byte
	for gi := range b.Groups {
		g := &b.Groups[gi]
		var w buf
		for i := range g.PlainNodes {
			w.fBytes(1, encPlainNode(&g.PlainNodes[i], st))
		}
		if g.Dense != nil {
			w.fBytes(2, encDense(g.Dense, st, ddmg))
		}
		for i := range g.Ways {
			w.fBytes(3, encWay(&g.Ways[i], st, wdmg))
		}
		for i := range g.Relations {
			w.fBytes(4, encRelation(&g.Relations[i], st, rdmg))
		}
		for _, id := range g.Changesets {
			var c buf
			c.fInt(1, id)
			w.fBytes(5, c.b)
		}
		groups = append(groups, w.b)
	}
	var w buf
	params := func() {
		if b.Granularity != nil {
			w.fInt(17, int64(*b.Granularity))
		}
		if b.DateGranularity != nil {
			w.fInt(18, int64(*b.DateGranularity))
		}
		if b.LatOffset != nil {
			w.fInt(19, *b.LatOffset)
		}
		if b.LonOffset != nil {
			w.fInt(20, *b.LonOffset)
		}
	}
	if b.ParamsFirst {
		params()
	}
	if bdmg != "no-stringtable" {
		w.fBytes(1, st.bytes())
	}
	for _, g := range groups {
		w.fBytes(2, g)
	}
	if !b.ParamsFirst {
		params()
	}
	if bdmg == "truncated-varint" {
		w.b = append(w.b, 0x88, 0x01, 0x80) // field 17, varint that never ends
	}
	if bdmg == "bad-length" {
		w.b = append(w.b, 0x12, 0x7f, 0x01) // field 2, length 127, 1 byte of payload
	}
	return w.b
}

// Bytes returns the serialized HeaderBlock message.
func (h *Header) Bytes() []byte {
	var w buf
	if h.BBox != nil {
		var bb buf
		bb.fSint(1, h.BBox[0])
		bb.fSint(2, h.BBox[1])
		bb.fSint(3, h.BBox[2])
		bb.fSint(4, h.BBox[3])
		w.fBytes(1, bb.b)
	}
	for _, s := range h.Required {
		w.fString(4, s)
	}
	for _, s := range h.Optional {
		w.fString(5, s)
	}
	if h.WritingProgram != nil {
		w.fString(16, *h.WritingProgram)
	}
	if h.Source != nil {
		w.fString(17, *h.Source)
	}
	if h.ReplTimestamp != nil {
		w.fInt(32, *h.ReplTimestamp)
	}
	if h.ReplSeq != nil {
		w.fInt(33, *h.ReplSeq)
	}
	if h.ReplURL != nil {
		w.fString(34, *h.ReplURL)
	}
	return w.b
}

// BlobOpts are low-level overrides used by the damage catalogue.
type BlobOpts struct {
	Raw          bool
	RawSizeOnRaw bool
	OmitRawSize  bool  // zlib blob without raw_size
	RawSizeDelta int64 // added to raw_size
	CorruptZlib  bool  // flip bytes inside the compressed stream
	TruncateZlib bool  // drop the tail of the compressed stream (blob stays well-formed protobuf)
	BadChecksum  bool  // damage the Adler-32 trailer of the compressed stream
	ZlibLevel    *int  // compress/zlib level, nil = default
	LZMA         bool  // put the payload in lzma_data (field 4) only
	Empty        bool  // blob with no data field at all
	Garbage      bool  // blob bytes that are not a protobuf message
}

// EncodeBlob wraps payload into a serialized Blob message.
func EncodeBlob(payload []byte, o BlobOpts) []byte {
	var w buf
	switch {
	case o.Garbage:
		return []byte{0xff, 0xff, 0xff, 0xff, 0xff, 0xff, 0xff, 0xff, 0xff, 0xff, 0xff, 0x01}
	case o.Empty:
		return nil
	case o.LZMA:
		w.fInt(2, int64(len(payload)))
		w.fBytes(4, payload)
	case o.Raw:
		w.fBytes(1, payload)
		if o.RawSizeOnRaw {
			w.fInt(2, int64(len(payload))+o.RawSizeDelta)
		}
	default:
		var z bytes.Buffer
		zw := zlib.NewWriter(&z)
		if o.ZlibLevel != nil {
			zw, _ = zlib.NewWriterLevel(&z, *o.ZlibLevel)
		}
		zw.Write(payload)
		zw.Close()
		zb := z.Bytes()
		if o.CorruptZlib && len(zb) > 8 {
			zb = append([]byte{}, zb...)
			for i := 2; i < len(zb)-4 && i < 12; i++ {
				zb[i] ^= 0x5a
			}
		}
		if o.BadChecksum && len(zb) > 4 {
			zb = append([]byte{}, zb...)
			zb[len(zb)-1] ^= 0xff
			zb[len(zb)-3] ^= 0x55
		}
		if o.TruncateZlib && len(zb) > 6 {
			zb = zb[:len(zb)/2]
		}
		if !o.OmitRawSize {
			w.fInt(2, int64(len(payload))+o.RawSizeDelta)
		}
		w.fBytes(3, zb)
	}
	return w.b
}

// FileBlockOpts are low-level overrides of the framing.
type FileBlockOpts struct {
	IndexData     []byte
	DatasizeSet   bool
	Datasize      int64 // used when DatasizeSet
	HeaderSizeSet bool
	HeaderSize    uint32 // used when HeaderSizeSet (the 4-byte prefix)
	GarbageHeader bool   // BlobHeader bytes that do not parse
}

// EncodeFileBlock frames a serialized blob as a file block of the given type.
func EncodeFileBlock(typ string, blob []byte, o FileBlockOpts) []byte {
	var h buf
	h.fString(1, typ)
	if o.IndexData != nil {
		h.fBytes(2, o.IndexData)
	}
	ds := int64(len(blob))
	if o.DatasizeSet {
		ds = o.Datasize
	}
	h.fInt(3, ds)
	hb := h.b
	if o.GarbageHeader {
		hb = []byte{0x0a, 0x7f, 0x01, 0x02}
	}
	size := uint32(len(hb))
	if o.HeaderSizeSet {
		size = o.HeaderSize
	}
	out := make([]byte, 4, 4+len(hb)+len(blob))
	binary.BigEndian.PutUint32(out, size)
	out = append(out, hb...)
	out = append(out, blob...)
	return out
}

func (e Enc) blobOpts() BlobOpts {
	return BlobOpts{Raw: e.Raw, RawSizeOnRaw: e.RawSizeOnRaw, ZlibLevel: e.ZlibLevel}
}

// Encoded is the byte form of a File with the layout facts the oracles need.
type Encoded struct {
	Data []byte
	// Starts[i] is the offset of file block i (including the header block when
	// present), Starts[len] = len(Data).
	Starts []int64
	// DataStarts[i] is the offset of data block i (index into File.Blocks).
	DataStarts []int64
}

// Encode serializes the file.
func (f *File) Encode() *Encoded {
	e := &Encoded{}
	if f.Header != nil {
		e.Starts = append(e.Starts, int64(len(e.Data)))
		blob := EncodeBlob(f.Header.Bytes(), f.Header.Enc.blobOpts())
		e.Data = append(e.Data, EncodeFileBlock("OSMHeader", blob, FileBlockOpts{IndexData: f.Header.Enc.IndexData})...)
	}
	for i := range f.Blocks {
		b := &f.Blocks[i]
		e.Starts = append(e.Starts, int64(len(e.Data)))
		e.DataStarts = append(e.DataStarts, int64(len(e.Data)))
		blob := EncodeBlob(b.PrimitiveBlock(), b.Enc.blobOpts())
		e.Data = append(e.Data, EncodeFileBlock("OSMData", blob, FileBlockOpts{IndexData: b.Enc.IndexData})...)
	}
	e.Starts = append(e.Starts, int64(len(e.Data)))
	return e
}

// ---- expected values, by the format's definition ----

func (b *Block) gran() int64 {
	if b.Granularity != nil {
		return int64(*b.Granularity)
	}
	return 100
}

func (b *Block) dateGran() int64 {
	if b.DateGranularity != nil {
		return int64(*b.DateGranularity)
	}
	return 1000
}

func (b *Block) latOff() int64 {
	if b.LatOffset != nil {
		return *b.LatOffset
	}
	return 0
}

func (b *Block) lonOff() int64 {
	if b.LonOffset != nil {
		return *b.LonOffset
	}
	return 0
}

func (b *Block) coord(off, raw int64) float64 {
	return 1e-9 * float64(off+b.gran()*raw)
}

func (b *Block) ts(units int64) time.Time {
	ms := units * b.dateGran()
	return time.Unix(ms/1000, (ms%1000)*1e6).UTC()
}

func tagsOf(t [][2]string) osm.Tags {
	if len(t) == 0 {
		return nil
	}
	out := make(osm.Tags, len(t))
	for i, kv := range t {
		out[i] = osm.Tag{Key: kv[0], Value: kv[1]}
	}
	return out
}

// ExpectedBlock returns the objects block b encodes, in order.
func (b *Block) Expected() []osm.Object {
	var out []osm.Object
	for gi := range b.Groups {
		g := &b.Groups[gi]
		if d := g.Dense; d != nil {
			for _, nd := range d.Nodes {
				n := &osm.Node{ID: osm.NodeID(nd.ID), Visible: true,
					Lat: b.coord(b.latOff(), nd.Lat), Lon: b.coord(b.lonOff(), nd.Lon)}
				if d.Info {
					if d.Cols[0] {
						n.Version = int(nd.Version)
					}
					if d.Cols[1] {
						n.Timestamp = b.ts(nd.Timestamp)
					}
					if d.Cols[2] {
						n.ChangesetID = osm.ChangesetID(nd.Changeset)
					}
					if d.Cols[3] {
						n.UserID = osm.UserID(nd.UID)
					}
					if d.Cols[4] {
						n.User = nd.User
					}
					if d.Cols[5] {
						n.Visible = nd.Visible
					}
				}
				if d.KeysVals {
					n.Tags = tagsOf(nd.Tags)
				}
				out = append(out, n)
			}
		}
		for wi := range g.Ways {
			wy := &g.Ways[wi]
			w := &osm.Way{ID: osm.WayID(wy.ID), Visible: true, Tags: tagsOf(wy.Tags)}
			if in := wy.Info; in != nil {
				if in.Version != nil {
					w.Version = int(*in.Version)
				}
				if in.Timestamp != nil {
					w.Timestamp = b.ts(*in.Timestamp)
				}
				if in.Changeset != nil {
					w.ChangesetID = osm.ChangesetID(*in.Changeset)
				}
				if in.UID != nil {
					w.UserID = osm.UserID(*in.UID)
				}
				if in.User != nil {
					w.User = *in.User
				}
				if in.Visible != nil {
					w.Visible = *in.Visible
				}
			}
			if !wy.NoRefs {
				for i, ref := range wy.Refs {
					wn := osm.WayNode{ID: osm.NodeID(ref)}
					if wy.Lats != nil {
						wn.Lat = b.coord(b.latOff(), wy.Lats[i])
					}
					if wy.Lons != nil {
						wn.Lon = b.coord(b.lonOff(), wy.Lons[i])
					}
					w.Nodes = append(w.Nodes, wn)
				}
			}
			out = append(out, w)
		}
		for ri := range g.Relations {
			rl := &g.Relations[ri]
			r := &osm.Relation{ID: osm.RelationID(rl.ID), Visible: true, Tags: tagsOf(rl.Tags)}
			if in := rl.Info; in != nil {
				if in.Version != nil {
					r.Version = int(*in.Version)
				}
				if in.Timestamp != nil {
					r.Timestamp = b.ts(*in.Timestamp)
				}
				if in.Changeset != nil {
					r.ChangesetID = osm.ChangesetID(*in.Changeset)
				}
				if in.UID != nil {
					r.UserID = osm.UserID(*in.UID)
				}
				if in.User != nil {
					r.User = *in.User
				}
				if in.Visible != nil {
					r.Visible = *in.Visible
				}
			}
			if !rl.NoMembers {
				for _, m := range rl.Members {
					t := osm.TypeNode
					switch m.Type {
					case 1:
						t = osm.TypeWay
					case 2:
						t = osm.TypeRelation
					}
					r.Members = append(r.Members, osm.Member{Type: t, Ref: m.Ref, Role: m.Role})
				}
			}
			out = append(out, r)
		}
	}
	return out
}

// Expected returns all objects of the file, in file order.
func (f *File) Expected() []osm.Object {
	var out []osm.Object
	for i := range f.Blocks {
		out = append(out, f.Blocks[i].Expected()...)
	}
	return out
}

// ExpectedHeader returns the header the scanner must report (nil when the file
// has no header block).
func (f *File) ExpectedHeader() *osmpbf.Header {
	h := f.Header
	if h == nil {
		return nil
	}
	out := &osmpbf.Header{RequiredFeatures: h.Required, OptionalFeatures: h.Optional}
	if h.BBox != nil {
		out.Bounds = &osm.Bounds{
			MinLon: 1e-9 * float64(h.BBox[0]), MaxLon: 1e-9 * float64(h.BBox[1]),
			MaxLat: 1e-9 * float64(h.BBox[2]), MinLat: 1e-9 * float64(h.BBox[3]),
		}
	}
	if h.WritingProgram != nil {
		out.WritingProgram = *h.WritingProgram
	}
	if h.Source != nil {
		out.Source = *h.Source
	}
	if h.ReplTimestamp != nil {
		out.ReplicationTimestamp = time.Unix(*h.ReplTimestamp, 0).UTC()
	}
	if h.ReplSeq != nil {
		out.ReplicationSeqNum = uint64(*h.ReplSeq)
	}
	if h.ReplURL != nil {
		out.ReplicationBaseURL = *h.ReplURL
	}
	return out
}
