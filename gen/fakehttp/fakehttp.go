// Package fakehttp is an in-process stand-in for an HTTP server: an
// http.RoundTripper that never opens a socket, records every request it is
// given (method and full URL, in order) and answers from a table, from a
// callback, or with a default (404).
//
// It is self-contained (standard library only) and keeps no package-level
// state: independent Transport values can be used from different goroutines
// at the same time, and one Transport may also be shared by concurrent
// requests.
//
// A request budget turns non-termination of the client code into a verdict
// without wall-clock timeouts: once more than Budget requests have been made
// every further request fails with ErrBudget and Exhausted reports true.
package fakehttp

import (
	"bytes"
	"errors"
	"io"
	"net/http"
	"strconv"
	"sync"
)

// ErrBudget is the error of every request made after the budget was used up.
var ErrBudget = errors.New("fakehttp: request budget exhausted")

// Request is one recorded request.
type Request struct {
	Method string `json:"method"`
	URL    string `json:"url"`
}

func (r Request) String() string { return r.Method + " " + r.URL }

// Response describes the answer to one request.
type Response struct {
	Status int         // 0 means 200
	Body   []byte      // may be nil
	Header http.Header // may be nil
	Err    error       // non-nil: the round trip itself fails with this error
}

// Handler computes the answer to the n-th request (n counts from 1) of a
// Transport. Returning ok == false falls through to the table and then to the
// default response.
type Handler func(n int, req *http.Request) (resp Response, ok bool)

// Key is the table key of a request.
func Key(method, url string) string { return method + " " + url }

// Transport implements http.RoundTripper. The zero value answers 404 to
// everything and has no budget.
type Transport struct {
	// Handler, when set, is asked first.
	Handler Handler
	// Table maps Key(method, full URL) to the answer. It must not be
	// modified while requests are being made.
	Table map[string]Response
	// Default answers requests matched by neither; the zero value is a 404.
	Default Response
	// Budget is the number of requests that are answered; 0 means unlimited.
	Budget int
	// BodyChunks, if set, is cycled through by request number: the body of request n
	// is handed over in pieces of at most BodyChunks[(n-1) % len] bytes (0 = in one
	// piece). Any split is legal for an io.Reader.
	BodyChunks []int

	mu        sync.Mutex
	log       []Request
	exhausted bool
}

// notFound is the response used when Default is the zero value.
var notFound = Response{Status: http.StatusNotFound, Body: []byte("not found\n")}

// RoundTrip implements http.RoundTripper.
func (t *Transport) RoundTrip(req *http.Request) (*http.Response, error) {
	if req.Body != nil {
		// a RoundTripper must always close the request body
		io.Copy(io.Discard, req.Body)
		req.Body.Close()
	}
	rec := Request{Method: req.Method, URL: req.URL.String()}
	t.mu.Lock()
	t.log = append(t.log, rec)
	n := len(t.log)
	if t.Budget > 0 && n > t.Budget {
		t.exhausted = true
		t.mu.Unlock()
		return nil, ErrBudget
	}
	t.mu.Unlock()

	if err := req.Context().Err(); err != nil {
		return nil, err
	}

	var (
		resp Response
		ok   bool
	)
	if t.Handler != nil {
		resp, ok = t.Handler(n, req)
	}
	if !ok && t.Table != nil {
		resp, ok = t.Table[Key(rec.Method, rec.URL)]
	}
	if !ok {
		resp = t.Default
		if resp.Status == 0 && resp.Body == nil && resp.Err == nil && resp.Header == nil {
			resp = notFound
		}
	}
	if resp.Err != nil {
		return nil, resp.Err
	}
	chunk := 0
	if len(t.BodyChunks) > 0 {
		chunk = t.BodyChunks[(n-1)%len(t.BodyChunks)]
	}
	return build(req, resp, chunk), nil
}

func build(req *http.Request, r Response, chunk int) *http.Response {
	code := r.Status
	if code == 0 {
		code = http.StatusOK
	}
	var body io.Reader = bytes.NewReader(r.Body)
	if chunk > 0 {
		body = &chunked{data: r.Body, max: chunk}
	}
	h := http.Header{}
	for k, v := range r.Header {
		h[k] = append([]string(nil), v...)
	}
	return &http.Response{
		Status:        strconv.Itoa(code) + " " + http.StatusText(code),
		StatusCode:    code,
		Proto:         "HTTP/1.1",
		ProtoMajor:    1,
		ProtoMinor:    1,
		Header:        h,
		Body:          io.NopCloser(body),
		ContentLength: int64(len(r.Body)),
		Request:       req,
	}
}

// chunked hands a body over in pieces of at most max bytes (what a network does).
type chunked struct {
	data []byte
	max  int
}

func (c *chunked) Read(p []byte) (int, error) {
	if len(c.data) == 0 {
		return 0, io.EOF
	}
	n := c.max
	if n > len(p) {
		n = len(p)
	}
	if n > len(c.data) {
		n = len(c.data)
	}
	copy(p, c.data[:n])
	c.data = c.data[n:]
	return n, nil
}

// Client returns a new http.Client that sends everything through t. It has
// no timeout, no cookie jar and does not follow redirects.
func (t *Transport) Client() *http.Client {
	return &http.Client{
		Transport: t,
		CheckRedirect: func(*http.Request, []*http.Request) error {
			return http.ErrUseLastResponse
		},
	}
}

// Requests returns a copy of the requests seen so far, in order. Requests
// refused because of the budget are included.
func (t *Transport) Requests() []Request {
	t.mu.Lock()
	defer t.mu.Unlock()
	return append([]Request(nil), t.log...)
}

// Count returns the number of requests seen so far.
func (t *Transport) Count() int {
	t.mu.Lock()
	defer t.mu.Unlock()
	return len(t.log)
}

// Exhausted reports whether a request was refused because of the budget.
func (t *Transport) Exhausted() bool {
	t.mu.Lock()
	defer t.mu.Unlock()
	return t.exhausted
}

// Reset forgets the recorded requests and the exhausted flag.
func (t *Transport) Reset() {
	t.mu.Lock()
	t.log = nil
	t.exhausted = false
	t.mu.Unlock()
}
