// Package polycut is the ground-truth generator behind check C16 (and one
// case of C17): it holds small polygon sets on an integer grid, cuts their
// rings into way pieces in every possible way, and compares a geometry that
// was assembled from the pieces with the rings it started from.
//
// Nothing in this package calls the multipolygon code of paulmach/osm. All
// geometric decisions (winding, point in ring, segment intersection) are made
// in exact int64 arithmetic on grid coordinates; a grid point (X, Y) is the
// location lon = X*1e-7, lat = Y*1e-7.
//
// Small API:
//
//	t := polycut.Catalogue()[i]           // a validated ground truth
//	cfgs := polycut.Configs(t, 0)         // every cut set x piece direction
//	orders := polycut.Orders(cfg, 5)      // member orders
//	b := polycut.Build(t, c, opts)        // *osm.OSM + relation + per member truth
//	m := polycut.Compare(t, geometry)     // nil when geometry == ground truth
//	t, c := polycut.Example()             // one fixed non-trivial case (for C17)
package polycut

import (
	"fmt"
)

// Pt is a grid point. Its location is lon = X*1e-7, lat = Y*1e-7.
type Pt struct{ X, Y int64 }

// Lon is the longitude of the grid point at the default resolution
// (correctly rounded X/1e7); see Truth.Lon for truths with another Div.
func (p Pt) Lon() float64 { return float64(p.X) / 1e7 }

// Lat is the latitude of the grid point at the default resolution
// (correctly rounded Y/1e7); see Truth.Lat.
func (p Pt) Lat() float64 { return float64(p.Y) / 1e7 }

// Ring is a cyclic vertex list WITHOUT a repeated closing point, stored in
// one of its two directions.
type Ring []Pt

// Polygon is an outer ring and the holes strictly inside it.
type Polygon struct {
	Outer Ring
	Holes []Ring
}

// Truth is a ground-truth polygon set: disjoint, non-nested simple outers,
// every hole strictly inside its outer, holes of one outer disjoint and
// non-nested, all vertices distinct, none at (0,0).
type Truth struct {
	Name     string
	Polygons []Polygon
	// Div is the number of grid units per degree: a grid point (X, Y) lies at
	// lon = X/Div, lat = Y/Div. 0 means 1e7 (the resolution of OSM data);
	// 1e9 gives locations with nine decimals.
	Div float64
}

func (t Truth) div() float64 {
	if t.Div == 0 {
		return 1e7
	}
	return t.Div
}

// Lon is the longitude of grid point p of this truth (correctly rounded X/Div).
func (t Truth) Lon(p Pt) float64 { return float64(p.X) / t.div() }

// Lat is the latitude of grid point p of this truth (correctly rounded Y/Div).
func (t Truth) Lat(p Pt) float64 { return float64(p.Y) / t.div() }

// RingRef identifies ring number i of a truth. Rings are numbered polygon by
// polygon: outer first, then its holes.
type RingRef struct {
	Polygon int  // index into Truth.Polygons
	Hole    int  // -1 for the outer ring, else index into Holes
	Outer   bool // Hole == -1
}

// Rings lists all rings of the truth in ring-number order.
func (t Truth) Rings() []Ring {
	var out []Ring
	for _, p := range t.Polygons {
		out = append(out, p.Outer)
		out = append(out, p.Holes...)
	}
	return out
}

// Refs lists, in ring-number order, what each ring is.
func (t Truth) Refs() []RingRef {
	var out []RingRef
	for i, p := range t.Polygons {
		out = append(out, RingRef{Polygon: i, Hole: -1, Outer: true})
		for h := range p.Holes {
			out = append(out, RingRef{Polygon: i, Hole: h})
		}
	}
	return out
}

// Shape is a coarse description "o<outers>h<holes>".
func (t Truth) Shape() string {
	h := 0
	for _, p := range t.Polygons {
		h += len(p.Holes)
	}
	return fmt.Sprintf("o%dh%d", len(t.Polygons), h)
}

// ---------------------------------------------------------------------------
// exact integer geometry

// cross is the z component of (b-a) x (c-a): >0 when a,b,c turn left.
func cross(a, b, c Pt) int64 {
	return (b.X-a.X)*(c.Y-a.Y) - (b.Y-a.Y)*(c.X-a.X)
}

func sign(v int64) int {
	switch {
	case v > 0:
		return 1
	case v < 0:
		return -1
	}
	return 0
}

// Area2 is twice the signed area of the cyclic vertex list (shoelace
// formula): positive for counter-clockwise, negative for clockwise.
//
// The sum is taken relative to the first vertex (the area does not depend on
// the origin), so that rings far from the origin stay far below 2^63.
func Area2(r []Pt) int64 {
	var a int64
	if len(r) == 0 {
		return 0
	}
	o := r[0]
	for i := range r {
		j := (i + 1) % len(r)
		a += (r[i].X-o.X)*(r[j].Y-o.Y) - (r[j].X-o.X)*(r[i].Y-o.Y)
	}
	return a
}

// Winding is +1 for a counter-clockwise vertex list, -1 for clockwise and 0
// for a degenerate one. The values equal orb.CCW and orb.CW.
func Winding(r []Pt) int { return sign(Area2(r)) }

func within(a, b, p Pt) bool { // p collinear with ab: inside the closed box?
	return min64(a.X, b.X) <= p.X && p.X <= max64(a.X, b.X) &&
		min64(a.Y, b.Y) <= p.Y && p.Y <= max64(a.Y, b.Y)
}

func min64(a, b int64) int64 {
	if a < b {
		return a
	}
	return b
}

func max64(a, b int64) int64 {
	if a > b {
		return a
	}
	return b
}

// SegmentsTouch reports whether the closed segments ab and cd have a point in
// common.
func SegmentsTouch(a, b, c, d Pt) bool {
	d1 := sign(cross(a, b, c))
	d2 := sign(cross(a, b, d))
	d3 := sign(cross(c, d, a))
	d4 := sign(cross(c, d, b))
	if d1*d2 < 0 && d3*d4 < 0 {
		return true
	}
	return (d1 == 0 && within(a, b, c)) || (d2 == 0 && within(a, b, d)) ||
		(d3 == 0 && within(c, d, a)) || (d4 == 0 && within(c, d, b))
}

// Locate places p relative to the simple ring r: +1 strictly inside, 0 on
// the boundary, -1 strictly outside. Crossing-number rule evaluated with
// integer cross products only (no division).
func Locate(p Pt, r Ring) int {
	inside := false
	for i := range r {
		a, b := r[i], r[(i+1)%len(r)]
		if cross(a, b, p) == 0 && within(a, b, p) {
			return 0
		}
		// half-open rule: the edge counts when exactly one end is above p
		if (a.Y > p.Y) != (b.Y > p.Y) {
			// p is left of the edge <=> cross(lower, upper, p) > 0
			lo, hi := a, b
			if lo.Y > hi.Y {
				lo, hi = hi, lo
			}
			if cross(lo, hi, p) > 0 {
				inside = !inside
			}
		}
	}
	if inside {
		return 1
	}
	return -1
}

// simple reports an error unless r is a simple ring of >= 3 distinct vertices
// with non-zero area.
func simple(r Ring) error {
	n := len(r)
	if n < 3 {
		return fmt.Errorf("ring with %d vertices", n)
	}
	if Area2(r) == 0 {
		return fmt.Errorf("zero area")
	}
	for i := 0; i < n; i++ {
		for j := i + 1; j < n; j++ {
			if r[i] == r[j] {
				return fmt.Errorf("vertex %v repeated", r[i])
			}
		}
	}
	for i := 0; i < n; i++ {
		a, b := r[i], r[(i+1)%n]
		// adjacent edges may only share their common vertex
		c := r[(i+2)%n]
		if cross(a, b, c) == 0 && (within(a, b, c) || within(b, c, a)) {
			return fmt.Errorf("edges at vertex %d fold back", (i+1)%n)
		}
		for j := i + 2; j < n; j++ {
			if i == 0 && j == n-1 {
				continue // adjacent around the end
			}
			if SegmentsTouch(a, b, r[j], r[(j+1)%n]) {
				return fmt.Errorf("edges %d and %d touch", i, j)
			}
		}
	}
	return nil
}

func ringsTouch(a, b Ring) bool {
	for i := range a {
		for j := range b {
			if SegmentsTouch(a[i], a[(i+1)%len(a)], b[j], b[(j+1)%len(b)]) {
				return true
			}
		}
	}
	return false
}

// strictlyInside: every vertex of in strictly inside out and no boundary contact.
func strictlyInside(in, out Ring) bool {
	if ringsTouch(in, out) {
		return false
	}
	for _, p := range in {
		if Locate(p, out) != 1 {
			return false
		}
	}
	return true
}

// apart: boundaries do not touch and neither ring lies inside the other.
func apart(a, b Ring) bool {
	if ringsTouch(a, b) {
		return false
	}
	return Locate(a[0], b) == -1 && Locate(b[0], a) == -1
}

// Validate checks that t is inside the domain of property C16.
func (t Truth) Validate() error {
	if len(t.Polygons) == 0 {
		return fmt.Errorf("%s: no polygon", t.Name)
	}
	seen := map[Pt]bool{}
	var lo, hi Pt
	first := true
	for ri, r := range t.Rings() {
		if err := simple(r); err != nil {
			return fmt.Errorf("%s: ring %d: %v", t.Name, ri, err)
		}
		for _, p := range r {
			if p.X == 0 && p.Y == 0 {
				return fmt.Errorf("%s: ring %d has a vertex at (0,0)", t.Name, ri)
			}
			if seen[p] {
				return fmt.Errorf("%s: vertex %v used twice", t.Name, p)
			}
			seen[p] = true
			// a valid location: |lon| <= 180, |lat| <= 90
			if lon, lat := t.Lon(p), t.Lat(p); lon < -180 || lon > 180 || lat < -90 || lat > 90 {
				return fmt.Errorf("%s: vertex %v is no location", t.Name, p)
			}
			if first {
				lo, hi, first = p, p, false
			}
			lo = Pt{min64(lo.X, p.X), min64(lo.Y, p.Y)}
			hi = Pt{max64(hi.X, p.X), max64(hi.Y, p.Y)}
		}
	}
	// all cross products are taken on coordinate differences: with an extent
	// below 2^30 they and their sums stay below 2^62
	if hi.X-lo.X >= 1<<30 || hi.Y-lo.Y >= 1<<30 {
		return fmt.Errorf("%s: extent %v..%v too large for exact int64 geometry", t.Name, lo, hi)
	}
	// two vertices never share a float64 location (they are distinct grid
	// points; this guards Div and the magnitude of the coordinates)
	locs := map[[2]float64]Pt{}
	for _, r := range t.Rings() {
		for _, p := range r {
			k := [2]float64{t.Lon(p), t.Lat(p)}
			if q, dup := locs[k]; dup {
				return fmt.Errorf("%s: vertices %v and %v share the location %v", t.Name, q, p, k)
			}
			locs[k] = p
		}
	}
	for i, p := range t.Polygons {
		for j := i + 1; j < len(t.Polygons); j++ {
			if !apart(p.Outer, t.Polygons[j].Outer) {
				return fmt.Errorf("%s: outers %d and %d not disjoint / nested", t.Name, i, j)
			}
		}
		for h, hole := range p.Holes {
			if !strictlyInside(hole, p.Outer) {
				return fmt.Errorf("%s: hole %d of polygon %d not strictly inside", t.Name, h, i)
			}
			for g := h + 1; g < len(p.Holes); g++ {
				if !apart(hole, p.Holes[g]) {
					return fmt.Errorf("%s: holes %d and %d of polygon %d not disjoint", t.Name, h, g, i)
				}
			}
			// a hole must not have any vertex inside or on another outer
			// (implied by disjoint outers, checked anyway)
			for j, q := range t.Polygons {
				if j != i && !apart(hole, q.Outer) {
					return fmt.Errorf("%s: hole %d of polygon %d meets outer %d", t.Name, h, i, j)
				}
			}
		}
	}
	return nil
}

// ---------------------------------------------------------------------------
// catalogue

func ring(xy ...int64) Ring {
	r := make(Ring, 0, len(xy)/2)
	for i := 0; i+1 < len(xy); i += 2 {
		r = append(r, Pt{xy[i], xy[i+1]})
	}
	return r
}

// Reversed returns the ring stored in the other direction (same first vertex).
func (r Ring) Reversed() Ring {
	out := make(Ring, len(r))
	out[0] = r[0]
	for i := 1; i < len(r); i++ {
		out[i] = r[len(r)-i]
	}
	return out
}

// Shifted returns the ring moved by (dx, dy) grid units.
func (r Ring) Shifted(dx, dy int64) Ring {
	out := make(Ring, len(r))
	for i, p := range r {
		out[i] = Pt{p.X + dx, p.Y + dy}
	}
	return out
}

// Mapped returns the truth with f applied to every vertex, under a new name.
// (A reflection turns every stored winding round; Validate decides whether
// the result is still a ground truth.)
func (t Truth) Mapped(name string, f func(Pt) Pt) Truth {
	out := Truth{Name: name, Div: t.Div}
	mapRing := func(r Ring) Ring {
		m := make(Ring, len(r))
		for i, p := range r {
			m[i] = f(p)
		}
		return m
	}
	for _, p := range t.Polygons {
		q := Polygon{Outer: mapRing(p.Outer)}
		for _, h := range p.Holes {
			q.Holes = append(q.Holes, mapRing(h))
		}
		out.Polygons = append(out.Polygons, q)
	}
	return out
}

// Catalogue returns the ground truths used by C16, all validated (the
// function panics if one of them is outside the domain). Families:
//
//	G1 one outer; G2 one outer + one hole; G3 one outer + two holes;
//	G4 two outers; G5 two outers with a hole in each; G6 U shapes;
//	G7 three outers; G8 one outer with three holes; G9 rings one grid unit
//	apart; G10 vertices level with (sharing a lat or a lon with) vertices of
//	other rings; G11 runs of collinear vertices; G12 slivers and ordinary
//	shapes far from the origin (all four sign quadrants, near +-180/+-90),
//	outers half a world apart; G13 locations with nine decimals.
//
// Rings have 3 to 5 vertices (G6: 8-vertex U shapes), are stored in both windings across the
// catalogue, straddle the axes (vertices with lon == 0 or lat == 0 but never
// both, negative coordinates), contain collinear vertices and concave
// corners, and G4b puts the second outer inside the bounding box (the notch)
// of a concave first outer.
func Catalogue() []Truth {
	tri := ring(1, 1, 9, 2, 4, 8)                  // CCW triangle
	quad := ring(-6, -5, 7, -6, 8, 7, -5, 6)       // CCW quad around the origin
	pent := ring(-8, 0, 0, -9, 9, -2, 4, 9, -6, 8) // CCW pentagon, vertices on both axes
	dart := ring(1, 1, 9, 5, 1, 9, 4, 5)           // CCW concave quad (notch on the left)
	col := ring(2, 2, 6, 2, 10, 2, 10, 8, 2, 8)    // CCW, vertex (6,2) collinear with its neighbours

	holeA := ring(-2, -2, -2, 3, 3, -1)        // CW triangle inside quad / pent
	holeB := ring(2, 2, 5, 2, 5, 5, 2, 5)      // CCW quad inside quad (stored against the required winding)
	holeC := ring(-4, -3, -3, 1, -3, -3)       // small CW triangle inside quad, left of holeA
	holeD := ring(3, 2, 6, 3, 4, 5).Reversed() // CW triangle inside tri... checked by Validate

	far := ring(21, -3, 29, -2, 30, 6, 22, 5) // CCW quad far to the right
	farHole := ring(24, 0, 24, 3, 27, 2)      // CW triangle inside far
	notch := ring(1, 4, 3, 5, 1, 6)           // triangle in the notch of dart (outside dart)
	notchCW := notch.Reversed()

	// a U-shaped outer with a U-shaped hole running through both arms: the
	// hole's bounding-box centre (25,25) lies in the notch, outside its outer
	// and inside the small outer that sits in the notch
	uOuter := ring(10, 10, 40, 10, 40, 40, 30, 40, 30, 20, 20, 20, 20, 40, 10, 40) // CCW
	uHole := ring(12, 12, 38, 12, 38, 38, 32, 38, 32, 18, 18, 18, 18, 38, 12, 38)  // CCW (against the required winding)
	uNotch := ring(23, 24, 27, 24, 25, 30)                                         // CCW triangle around (25,25)

	ts := []Truth{
		{Name: "G6-U-U", Polygons: []Polygon{{Outer: uOuter, Holes: []Ring{uHole.Reversed()}}}},
		{Name: "G6-U-U-notch", Polygons: []Polygon{{Outer: uOuter.Reversed(), Holes: []Ring{uHole}}, {Outer: uNotch}}},
		{Name: "G1-tri", Polygons: []Polygon{{Outer: tri}}},
		{Name: "G1-quad-cw", Polygons: []Polygon{{Outer: quad.Reversed()}}},
		{Name: "G1-pent", Polygons: []Polygon{{Outer: pent}}},
		{Name: "G1-collinear", Polygons: []Polygon{{Outer: col.Reversed()}}},
		{Name: "G2-tri-tri", Polygons: []Polygon{{Outer: tri.Reversed(), Holes: []Ring{holeD}}}},
		{Name: "G2-quad-tri", Polygons: []Polygon{{Outer: quad, Holes: []Ring{holeA}}}},
		{Name: "G2-quad-quad", Polygons: []Polygon{{Outer: quad.Reversed(), Holes: []Ring{holeB}}}},
		{Name: "G2-pent-tri", Polygons: []Polygon{{Outer: pent.Reversed(), Holes: []Ring{holeA.Reversed()}}}},
		{Name: "G3-quad-tri-tri", Polygons: []Polygon{{Outer: quad, Holes: []Ring{holeC, holeB}}}},
		{Name: "G3-quad-tri-quad", Polygons: []Polygon{{Outer: quad.Reversed(), Holes: []Ring{holeA, holeB.Reversed()}}}},
		{Name: "G4-tri-quad", Polygons: []Polygon{{Outer: tri}, {Outer: far.Reversed()}}},
		{Name: "G4-dart-notch", Polygons: []Polygon{{Outer: dart.Reversed()}, {Outer: notch}}},
		{Name: "G4-quad-quad", Polygons: []Polygon{{Outer: quad.Reversed()}, {Outer: far}}},
		{Name: "G5-tri-quad", Polygons: []Polygon{
			{Outer: tri, Holes: []Ring{holeD.Reversed()}},
			{Outer: far.Reversed(), Holes: []Ring{farHole}}}},
		{Name: "G5-quad-quad", Polygons: []Polygon{
			{Outer: quad, Holes: []Ring{holeA}},
			{Outer: far, Holes: []Ring{farHole.Reversed()}}}},
		{Name: "G4-notch-dart", Polygons: []Polygon{{Outer: notchCW}, {Outer: dart}}},
	}
	// ---- boundary audit: shapes the families above lack -----------------

	// G7: three outers (the hole of the middle one has to find its outer
	// among three candidates, whatever the order in which they were joined)
	low := ring(-20, -20, -10, -21, -9, -12, -19, -10) // CCW quad, all coordinates negative
	lowHole := ring(-17, -18, -12, -18, -14, -14)      // CCW triangle (against the required winding)
	ts = append(ts,
		Truth{Name: "G7-three", Polygons: []Polygon{{Outer: tri}, {Outer: far.Reversed()}, {Outer: low}}},
		Truth{Name: "G7-three-holes", Polygons: []Polygon{
			{Outer: low.Reversed(), Holes: []Ring{lowHole}},
			{Outer: tri, Holes: []Ring{holeD}},
			{Outer: far, Holes: []Ring{farHole.Reversed()}}}},
	)

	// G8: one outer with three holes
	holeE := ring(1, -4, 5, -5, 4, -2) // CCW triangle, lower right of quad
	ts = append(ts, Truth{Name: "G8-quad-3holes", Polygons: []Polygon{
		{Outer: quad, Holes: []Ring{holeC, holeB.Reversed(), holeE}}}})

	// G9: nothing touches, but everything is one grid unit away from
	// something: hole s1 from the left and bottom edges of its outer, hole s2
	// from the right and bottom edges and (diagonally) from s1, the second
	// outer from the first; the second outer's corners are level with hole
	// vertices and its horizontal edges collinear with hole edges
	snug := ring(1, 1, 21, 1, 21, 21, 1, 21)    // CCW
	s1 := ring(2, 2, 2, 10, 10, 2)              // CW
	s2 := ring(11, 2, 20, 2, 20, 20, 3, 11)     // CCW (against the required winding)
	snug2 := ring(22, 2, 30, 2, 30, 20, 22, 20) // CCW
	ts = append(ts, Truth{Name: "G9-snug", Polygons: []Polygon{
		{Outer: snug.Reversed(), Holes: []Ring{s1, s2}}, {Outer: snug2}}})

	// G10: ray-casting corner cases. The hexagonal hole of the middle square
	// has its vertices at lat -6, 0 and +6; at those lats the diamond on the
	// right has its bottom vertex (a local minimum), its leftmost and
	// rightmost vertices (the boundary passes through the level) and its top
	// vertex (a local maximum), and the rectangle on the left has its
	// horizontal edges and corners. -mx is the mirror image (diamond left,
	// rectangle right), -t the transposed arrangement (vertices share lons).
	mid := ring(-10, -10, 10, -10, 10, 10, -10, 10)      // CCW
	hex := ring(-5, -6, -6, 0, -5, 6, 5, 6, 6, 0, 5, -6) // CW
	diamond := ring(20, 0, 26, -6, 32, 0, 26, 6)         // CCW
	rect := ring(-30, -6, -20, -6, -20, 6, -30, 6)       // CCW
	level := Truth{Name: "G10-level", Polygons: []Polygon{
		{Outer: rect.Reversed()}, {Outer: mid, Holes: []Ring{hex}}, {Outer: diamond}}}
	ts = append(ts, level,
		level.Mapped("G10-level-mx", func(p Pt) Pt { return Pt{-p.X, p.Y} }),
		level.Mapped("G10-level-t", func(p Pt) Pt { return Pt{p.Y, p.X} }))
	// every vertex of the hole is level with a vertex of its own outer (the
	// octagon's side vertices at lat -3 and +3): with the outer in pieces the
	// containment test has only degenerate rays to go by
	oct := ring(-10, -8, 10, -8, 12, -3, 12, 3, 10, 8, -10, 8, -12, 3, -12, -3) // CCW
	octHole := ring(-4, -3, -4, 3, 4, 3, 4, -3)                                 // CW
	ownLevel := Truth{Name: "G10-own-level", Polygons: []Polygon{{Outer: oct, Holes: []Ring{octHole}}}}
	ts = append(ts, ownLevel,
		ownLevel.Mapped("G10-own-level-t", func(p Pt) Pt { return Pt{p.Y, p.X} }))

	// G11: runs of collinear vertices - horizontal (four in a row, the ring's
	// first vertex among them), vertical, and diagonal on the hole
	runs := ring(0, -10, 5, -10, 10, -10, 10, 0, 10, 10, -10, 10, -10, -10) // CCW
	runHole := ring(-6, -5, -2, -1, 2, 3, -6, 3)                            // CCW (against the required winding)
	ts = append(ts, Truth{Name: "G11-runs", Polygons: []Polygon{{Outer: runs.Reversed(), Holes: []Ring{runHole}}}})

	// G12: far from the origin. A sliver 700 x 1 grid units next to a quad
	// with a sliver hole, just inside lon +180 / lat -90 (twice the area of
	// the sliver is 7e-12 square degrees, while the products lon*lat are near
	// 16000: an area sum that is not taken relative to a vertex of the ring
	// has lost it to rounding); the familiar G5 shapes in the other three
	// sign quadrants; two outers a hundred degrees apart.
	const fx, fy = 1799990001, -899990003
	sliver := ring(0, 0, 700, 1, 700, 2).Shifted(fx, fy)            // CCW
	farQuad := ring(0, 10, 800, 10, 800, 40, 0, 40).Shifted(fx, fy) // CCW
	sliverHole := ring(100, 20, 600, 22, 600, 21).Shifted(fx, fy)   // CW
	ts = append(ts, Truth{Name: "G12-far-sliver", Polygons: []Polygon{
		{Outer: sliver.Reversed()}, {Outer: farQuad, Holes: []Ring{sliverHole}}}})
	g5 := Truth{Polygons: []Polygon{
		{Outer: quad, Holes: []Ring{holeA}},
		{Outer: far.Reversed(), Holes: []Ring{farHole.Reversed()}}}}
	shift := func(dx, dy int64) func(Pt) Pt { return func(p Pt) Pt { return Pt{p.X + dx, p.Y + dy} } }
	ts = append(ts,
		g5.Mapped("G12-far-nw", shift(-1799999900, 899999900)),
		g5.Mapped("G12-far-sw", shift(-1234567891, -456789123)),
		g5.Mapped("G12-far-ne", shift(134050123, 525200456)),
		Truth{Name: "G12-apart", Polygons: []Polygon{
			{Outer: tri.Shifted(-500000000, 300000000), Holes: []Ring{holeD.Shifted(-500000000, 300000000)}},
			{Outer: far.Reversed().Shifted(500000000, -300000000), Holes: []Ring{farHole.Shifted(500000000, -300000000)}}}},
	)

	// G13: nine decimals (grid unit 1e-9 degrees): neighbouring vertices
	// differ only from the eighth decimal on
	g13 := g5.Mapped("G13-decimals", shift(-73123456789, 45987654321))
	g13.Div = 1e9
	ts = append(ts, g13)

	for _, t := range ts {
		if err := t.Validate(); err != nil {
			panic("polycut: catalogue entry outside the domain: " + err.Error())
		}
	}
	return ts
}

// Find returns the catalogue entry with the given name.
func Find(name string) (Truth, bool) {
	for _, t := range Catalogue() {
		if t.Name == name {
			return t, true
		}
	}
	return Truth{}, false
}
