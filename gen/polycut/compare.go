package polycut

import (
	"fmt"

	"github.com/paulmach/orb"
)

// Mismatch describes how a geometry differs from the ground truth. Clause is
// a short stable name of the violated part of the property.
type Mismatch struct {
	Clause string
	Detail string
}

func (m *Mismatch) Error() string { return m.Clause + ": " + m.Detail }

func mis(clause, format string, a ...interface{}) *Mismatch {
	return &Mismatch{Clause: clause, Detail: fmt.Sprintf(format, a...)}
}

// CyclicEqual reports whether b is a rotation of a.
func CyclicEqual(a, b []int) bool {
	if len(a) != len(b) {
		return false
	}
	if len(a) == 0 {
		return true
	}
	for s := range a {
		ok := true
		for i := range a {
			if a[(i+s)%len(a)] != b[i] {
				ok = false
				break
			}
		}
		if ok {
			return true
		}
	}
	return false
}

// CyclicEqualEitherWay reports whether b is a rotation of a or of a reversed.
func CyclicEqualEitherWay(a, b []int) bool {
	if CyclicEqual(a, b) {
		return true
	}
	r := make([]int, len(a))
	for i := range a {
		r[i] = a[len(a)-1-i]
	}
	return CyclicEqual(r, b)
}

type vertexRef struct{ ring, vertex int }

// index maps exact (lon, lat) values back to the truth's vertices.
func (t Truth) index() map[[2]float64]vertexRef {
	m := map[[2]float64]vertexRef{}
	for r, rg := range t.Rings() {
		for v, p := range rg {
			m[[2]float64{t.Lon(p), t.Lat(p)}] = vertexRef{r, v}
		}
	}
	return m
}

// identifyRing checks one emitted ring: closed (closing point repeated),
// only ground-truth coordinates, all from one ring, every vertex of that ring
// exactly once, in the ring's cyclic order, and wound as wanted (+1 CCW, -1
// CW by the integer shoelace formula on the grid points). It returns the
// ring number.
func (t Truth) identifyRing(idx map[[2]float64]vertexRef, got orb.Ring, wantWinding int, what string) (int, *Mismatch) {
	return identifyRing(t.Rings(), idx, got, wantWinding, what)
}

func identifyRing(rings []Ring, idx map[[2]float64]vertexRef, got orb.Ring, wantWinding int, what string) (int, *Mismatch) {
	if len(got) < 4 {
		return -1, mis("ring-closed", "%s has %d points", what, len(got))
	}
	if got[0] != got[len(got)-1] {
		return -1, mis("ring-closed", "%s is not closed: first %v last %v", what, got[0], got[len(got)-1])
	}
	open := got[:len(got)-1]
	ringNo := -1
	seq := make([]int, 0, len(open))
	pts := make([]Pt, 0, len(open))
	count := map[int]int{}
	for _, p := range open {
		ref, ok := idx[[2]float64{p[0], p[1]}]
		if !ok {
			return -1, mis("coordinate-invented", "%s contains %v which is no ground-truth vertex", what, p)
		}
		if ringNo == -1 {
			ringNo = ref.ring
		} else if ringNo != ref.ring {
			return -1, mis("rings-mixed", "%s mixes vertices of ground-truth rings %d and %d", what, ringNo, ref.ring)
		}
		seq = append(seq, ref.vertex)
		pts = append(pts, rings[ref.ring][ref.vertex])
		count[ref.vertex]++
	}
	n := len(rings[ringNo])
	for v := 0; v < n; v++ {
		switch {
		case count[v] == 0:
			return ringNo, mis("coordinate-lost", "%s lacks vertex %d of ground-truth ring %d (got vertex sequence %v)", what, v, ringNo, seq)
		case count[v] > 1:
			return ringNo, mis("coordinate-duplicated", "%s has vertex %d of ground-truth ring %d %d times (got vertex sequence %v)", what, v, ringNo, count[v], seq)
		}
	}
	want := make([]int, n)
	for i := range want {
		want[i] = i
	}
	if !CyclicEqualEitherWay(want, seq) {
		return ringNo, mis("ring-order", "%s visits ground-truth ring %d in the order %v", what, ringNo, seq)
	}
	if w := Winding(pts); w != wantWinding {
		return ringNo, mis("winding", "%s (ground-truth ring %d) has winding %d, want %d", what, ringNo, w, wantWinding)
	}
	return ringNo, nil
}

// Compare returns nil when g is exactly the ground truth: a Polygon or
// MultiPolygon that, as a set of polygons each with a set of holes, consists
// of the original rings, every outer with precisely its own holes, every ring
// closed, outers counter-clockwise, holes clockwise, every ground-truth
// vertex exactly once per ring and no other coordinate. A single polygon may
// be given as orb.Polygon or as a one-element orb.MultiPolygon.
func Compare(t Truth, g orb.Geometry) *Mismatch {
	return NewComparer(t).Compare(g)
}

// Comparer is Compare with the truth's tables built once (the location index
// of its vertices, its ring list): NewComparer(t).Compare(g) == Compare(t, g).
// A Comparer is read-only after construction and may be shared by goroutines.
type Comparer struct {
	t     Truth
	idx   map[[2]float64]vertexRef
	rings []Ring
	refs  []RingRef
}

// NewComparer prepares the comparison of geometries with t.
func NewComparer(t Truth) *Comparer {
	return &Comparer{t: t, idx: t.index(), rings: t.Rings(), refs: t.Refs()}
}

// Compare: see the function Compare.
func (cm *Comparer) Compare(g orb.Geometry) *Mismatch {
	t := cm.t
	var polys []orb.Polygon
	switch v := g.(type) {
	case orb.Polygon:
		polys = []orb.Polygon{v}
	case orb.MultiPolygon:
		polys = v
	case nil:
		return mis("geometry-type", "nil geometry")
	default:
		return mis("geometry-type", "geometry is a %s", g.GeoJSONType())
	}

	idx := cm.idx
	refs := cm.refs
	ringOf := func(poly, hole int) int { // ring number
		for i, r := range refs {
			if r.Polygon == poly && r.Hole == hole {
				return i
			}
		}
		return -1
	}
	seenOuter := map[int]bool{}
	for pi, p := range polys {
		if len(p) == 0 {
			return mis("polygon-empty", "polygon %d has no ring", pi)
		}
		rn, m := identifyRing(cm.rings, idx, p[0], +1, fmt.Sprintf("outer ring of polygon %d", pi))
		if m != nil {
			return m
		}
		if !refs[rn].Outer {
			return mis("role", "outer ring of polygon %d is ground-truth hole ring %d", pi, rn)
		}
		if seenOuter[rn] {
			return mis("polygon-duplicated", "ground-truth outer ring %d emitted twice", rn)
		}
		seenOuter[rn] = true
		tp := refs[rn].Polygon
		seenHole := map[int]bool{}
		for hi := 1; hi < len(p); hi++ {
			hn, m := identifyRing(cm.rings, idx, p[hi], -1, fmt.Sprintf("hole %d of polygon %d", hi, pi))
			if m != nil {
				return m
			}
			if refs[hn].Outer {
				return mis("role", "hole %d of polygon %d is ground-truth outer ring %d", hi, pi, hn)
			}
			if refs[hn].Polygon != tp {
				return mis("hole-assignment", "ground-truth ring %d (hole of outer %d) emitted as hole of outer %d",
					hn, ringOf(refs[hn].Polygon, -1), rn)
			}
			if seenHole[hn] {
				return mis("hole-duplicated", "ground-truth hole ring %d emitted twice", hn)
			}
			seenHole[hn] = true
		}
		if len(seenHole) != len(t.Polygons[tp].Holes) {
			return mis("hole-lost", "outer ring %d has %d of its %d holes", rn, len(seenHole), len(t.Polygons[tp].Holes))
		}
	}
	if len(seenOuter) != len(t.Polygons) {
		return mis("polygon-lost", "%d of %d ground-truth polygons emitted", len(seenOuter), len(t.Polygons))
	}
	return nil
}
