package polycut

import (
	"fmt"
	"sort"
	"strings"
	"time"

	"github.com/paulmach/orb"
	"github.com/paulmach/osm"
)

// Config says how every ring of a truth is cut and stored.
//
// Cuts[r] is the sorted, non-empty list of cut vertices of ring r. With k cut
// vertices c0<c1<..<ck-1 the ring falls into k pieces; piece j runs along the
// stored ring direction from vertex cj to vertex c(j+1 mod k), both included,
// so neighbouring pieces share exactly that end node, and a ring with a
// single cut is one closed way (first node == last node) starting at the cut.
// Rev[r][j] says that piece j is stored in the opposite direction.
type Config struct {
	Cuts [][]int  `json:"cuts"`
	Rev  [][]bool `json:"rev"`
}

// Pieces is the total number of ways of the configuration.
func (c Config) Pieces() int {
	n := 0
	for _, cs := range c.Cuts {
		n += len(cs)
	}
	return n
}

// Case is one fully specified input: a truth (by catalogue name), a
// configuration and the member order. Order[i] is the global piece number
// (pieces numbered ring by ring, in ring order) listed as member i.
type Case struct {
	Truth string `json:"truth"`
	Config
	Order []int `json:"order"`
}

// Fingerprint is a compact unique text form of the case.
func (c Case) Fingerprint() string {
	var sb strings.Builder
	sb.WriteString(c.Truth)
	for r := range c.Cuts {
		sb.WriteByte('|')
		for j, v := range c.Cuts[r] {
			fmt.Fprintf(&sb, "%d", v)
			if c.Rev[r][j] {
				sb.WriteByte('r')
			} else {
				sb.WriteByte('f')
			}
		}
	}
	sb.WriteByte('|')
	for _, o := range c.Order {
		fmt.Fprintf(&sb, "%d.", o)
	}
	return sb.String()
}

// CutSets returns every non-empty subset of {0..n-1}, each sorted, ordered
// by size and then lexicographically.
func CutSets(n int) [][]int {
	var out [][]int
	for mask := 1; mask < 1<<uint(n); mask++ {
		var s []int
		for i := 0; i < n; i++ {
			if mask&(1<<uint(i)) != 0 {
				s = append(s, i)
			}
		}
		out = append(out, s)
	}
	sort.SliceStable(out, func(i, j int) bool {
		if len(out[i]) != len(out[j]) {
			return len(out[i]) < len(out[j])
		}
		for k := range out[i] {
			if out[i][k] != out[j][k] {
				return out[i][k] < out[j][k]
			}
		}
		return false
	})
	return out
}

// Directions returns all 2^k reversal vectors for k pieces.
func Directions(k int) [][]bool {
	out := make([][]bool, 0, 1<<uint(k))
	for mask := 0; mask < 1<<uint(k); mask++ {
		d := make([]bool, k)
		for i := range d {
			d[i] = mask&(1<<uint(i)) != 0
		}
		out = append(out, d)
	}
	return out
}

// Configs returns every configuration of t: the product over its rings of
// (every non-empty cut set) x (every direction vector), ordered by total
// number of pieces (fewest first), then by enumeration order. maxPieces <= 0
// means no limit; otherwise configurations with more pieces are left out.
func Configs(t Truth, maxPieces int) []Config {
	return ConfigsPinned(t, maxPieces, nil)
}

// ConfigsPinned is Configs with some rings pinned: a ring r with pinned[r]
// set is only ever one closed way starting at vertex 0 (stored in both
// directions); the other rings get every cut set and every direction vector.
// A nil or short pinned slice pins nothing.
func ConfigsPinned(t Truth, maxPieces int, pinned []bool) []Config {
	rings := t.Rings()
	type ringCfg struct {
		cuts []int
		rev  []bool
	}
	per := make([][]ringCfg, len(rings))
	for i, r := range rings {
		if i < len(pinned) && pinned[i] {
			per[i] = []ringCfg{{[]int{0}, []bool{false}}, {[]int{0}, []bool{true}}}
			continue
		}
		for _, cs := range CutSets(len(r)) {
			// every other ring has at least one piece: larger cut sets can
			// never fit the bound (same result, far fewer candidates)
			if maxPieces > 0 && len(cs) > maxPieces-(len(rings)-1) {
				continue
			}
			for _, d := range Directions(len(cs)) {
				per[i] = append(per[i], ringCfg{cs, d})
			}
		}
	}
	var out []Config
	idx := make([]int, len(rings))
	for {
		pieces := 0
		for i := range rings {
			pieces += len(per[i][idx[i]].cuts)
		}
		if maxPieces <= 0 || pieces <= maxPieces {
			c := Config{Cuts: make([][]int, len(rings)), Rev: make([][]bool, len(rings))}
			for i := range rings {
				c.Cuts[i] = per[i][idx[i]].cuts
				c.Rev[i] = per[i][idx[i]].rev
			}
			out = append(out, c)
		}
		k := len(rings) - 1
		for k >= 0 {
			idx[k]++
			if idx[k] < len(per[k]) {
				break
			}
			idx[k] = 0
			k--
		}
		if k < 0 {
			break
		}
	}
	sort.SliceStable(out, func(i, j int) bool { return out[i].Pieces() < out[j].Pieces() })
	return out
}

// Permutations returns all p! orders of 0..p-1 in lexicographic order.
func Permutations(p int) [][]int {
	var out [][]int
	cur := make([]int, 0, p)
	used := make([]bool, p)
	var rec func()
	rec = func() {
		if len(cur) == p {
			out = append(out, append([]int(nil), cur...))
			return
		}
		for i := 0; i < p; i++ {
			if !used[i] {
				used[i] = true
				cur = append(cur, i)
				rec()
				cur = cur[:len(cur)-1]
				used[i] = false
			}
		}
	}
	rec()
	return out
}

// Orders returns the member orders explored for a configuration: every
// permutation while the number of pieces is <= fullUpTo; above that all
// rotations plus the reversal of two base orders, the sequential one (ring
// by ring) and the interleaved one (round-robin over the rings, so that
// consecutive members belong to different rings). Duplicates are removed.
func Orders(c Config, fullUpTo int) [][]int {
	p := c.Pieces()
	if p <= fullUpTo {
		return Permutations(p)
	}
	seq := make([]int, p)
	for i := range seq {
		seq[i] = i
	}
	// interleaved: take piece 0 of every ring, then piece 1 of every ring...
	var inter []int
	start := make([]int, len(c.Cuts))
	n := 0
	for r := range c.Cuts {
		start[r] = n
		n += len(c.Cuts[r])
	}
	for j := 0; len(inter) < p; j++ {
		for r := range c.Cuts {
			if j < len(c.Cuts[r]) {
				inter = append(inter, start[r]+j)
			}
		}
	}
	var out [][]int
	seen := map[string]bool{}
	add := func(o []int) {
		k := fmt.Sprint(o)
		if !seen[k] {
			seen[k] = true
			out = append(out, o)
		}
	}
	for _, base := range [][]int{seq, inter} {
		for s := 0; s < p; s++ {
			o := make([]int, p)
			for i := range o {
				o[i] = base[(i+s)%p]
			}
			add(o)
		}
		rev := make([]int, p)
		for i := range rev {
			rev[i] = base[p-1-i]
		}
		add(rev)
	}
	return out
}

// ---------------------------------------------------------------------------
// building the OSM data

// Options selects how the data of a case is supplied.
type Options struct {
	// Annotated: the way nodes carry Lat/Lon (and Version 1) and the data set
	// holds no node objects. Otherwise way nodes carry only IDs and the data
	// set holds one node object per vertex.
	Annotated bool
	// NodesDescending lists the node objects by descending ID (else ascending).
	NodesDescending bool
	// RelationType is the value of the relation's type tag
	// ("multipolygon" when empty).
	RelationType string

	// The fields below were added by the boundary audit; their zero values
	// give exactly the data sets produced before.

	// WaysDescending lists the way objects by descending piece number.
	WaysDescending bool
	// Mixed (only without Annotated): there is a node object for every vertex
	// AND the way nodes at even positions of every way carry Lat/Lon and
	// Version 1, so that one line string draws on both sources.
	Mixed bool
	// WideIDs spreads the way and node ids over the id classes: piece /
	// vertex number k keeps its small id when k%3 == 0, gets 2^40 + the id of
	// its predecessor when k%3 == 1 (equal to it in the low 40 bits, the
	// width of the ref part of osm.FeatureID) and the negated id when
	// k%3 == 2 (ids of objects not uploaded yet).
	WideIDs bool
	// Extras mixes members that are no ways into the member list: a node
	// member with role "outer" whose ref is the id of the first way in front,
	// a relation member with role "inner" in the middle, a node member with
	// an empty role at the end. None of them is part of Built.OSM; their
	// elements are in Built.ExtraNodes / ExtraRelations (for a datasource).
	Extras bool
	// RelationTags are put in front of the relation's type tag.
	RelationTags osm.Tags
	// MemberNodes (only with Annotated): the data set holds no way objects;
	// every member carries the way's node list with Lat/Lon only (no ids, no
	// versions), the form in which Overpass returns member geometry
	// (osm.Member.Nodes).
	MemberNodes bool
}

// Member is the ground truth about one member, in member order. For a member
// that is no way (Options.Extras) WayID is 0, Ring is -1, Vertices is nil and
// Winding is 0: such a member has no direction.
type Member struct {
	WayID osm.WayID
	Ring  int    // ring number in Truth.Rings()
	Role  string // "outer" or "inner"
	// Vertices are the ring vertex indices in stored way order.
	Vertices []int
	// Winding is the direction in which the stored way runs around its
	// ground-truth ring: orb.CCW or orb.CW, from the integer shoelace sign of
	// the ring and the piece direction.
	Winding orb.Orientation
}

// Built is the data set of one case.
type Built struct {
	Truth    Truth
	OSM      *osm.OSM      // nodes (unless annotated), ways, the relation
	Relation *osm.Relation // == OSM.Relations[0]
	Members  []Member      // parallel to Relation.Members
	// elements the extra members (Options.Extras) refer to; not part of OSM
	ExtraNodes     osm.Nodes
	ExtraRelations osm.Relations
}

// wide maps the small id of object number k to its id class (Options.WideIDs).
func wide(id int64, k int) int64 {
	switch k % 3 {
	case 1:
		return 1<<40 + id - 1
	case 2:
		return -id
	}
	return id
}

// Times used for the elements: ways and nodes exist one day before the
// relation, everything long before osm.CommitInfoStart.
var (
	ChildTime    = time.Date(2012, 1, 1, 0, 0, 0, 0, time.UTC)
	RelationTime = time.Date(2012, 1, 2, 0, 0, 0, 0, time.UTC)
)

// RelationID is the id of the generated relation; way ids are 101.. in global
// piece order, node ids 1.. in ring/vertex order (see Options.WideIDs for
// the other id classes).
const RelationID = 1

// NodeID returns the id of vertex v of ring r.
func (t Truth) NodeID(r, v int) osm.NodeID {
	id := 1
	n := 0
	for _, p := range t.Polygons {
		if n == r {
			return osm.NodeID(id + v)
		}
		id += len(p.Outer)
		n++
		for _, h := range p.Holes {
			if n == r {
				return osm.NodeID(id + v)
			}
			id += len(h)
			n++
		}
	}
	panic("polycut: no such ring")
}

// Build produces the OSM data for the case. Member ways and nodes carry no
// tags; the relation carries only its type tag. All elements are visible,
// version 1.
func Build(t Truth, c Case, o Options) *Built {
	rings := t.Rings()
	refs := t.Refs()
	if len(c.Cuts) != len(rings) || len(c.Rev) != len(rings) {
		panic("polycut: configuration does not match the truth")
	}
	typ := o.RelationType
	if typ == "" {
		typ = "multipolygon"
	}

	firstID := make([]int, len(rings)) // id of vertex 0 of every ring, as in Truth.NodeID
	for r, next := 0, 1; r < len(rings); r++ {
		firstID[r] = next
		next += len(rings[r])
	}
	nodeID := func(r, v int) osm.NodeID {
		id := osm.NodeID(firstID[r] + v)
		if o.WideIDs {
			id = osm.NodeID(wide(int64(id), int(id)-1))
		}
		return id
	}
	if o.Mixed && o.Annotated {
		panic("polycut: Mixed needs node objects")
	}
	if o.MemberNodes && !o.Annotated {
		panic("polycut: MemberNodes needs Annotated")
	}

	var pieces []Member
	var ways osm.Ways
	for r, rg := range rings {
		n := len(rg)
		cs := c.Cuts[r]
		if len(cs) == 0 || len(c.Rev[r]) != len(cs) {
			panic("polycut: empty cut set or direction mismatch")
		}
		base := orb.Orientation(Winding(rg))
		for j := range cs {
			from, to := cs[j], cs[(j+1)%len(cs)]
			var vs []int
			v := from
			for {
				vs = append(vs, v)
				v = (v + 1) % n
				if v == to {
					vs = append(vs, v)
					break
				}
			}
			w := base
			if c.Rev[r][j] {
				for a, b := 0, len(vs)-1; a < b; a, b = a+1, b-1 {
					vs[a], vs[b] = vs[b], vs[a]
				}
				w = -base
			}
			role := "inner"
			if refs[r].Outer {
				role = "outer"
			}
			id := osm.WayID(101 + len(pieces))
			if o.WideIDs {
				id = osm.WayID(wide(int64(id), len(pieces)))
			}
			way := &osm.Way{ID: id, Version: 1, Visible: true, Timestamp: ChildTime, ChangesetID: 7,
				Nodes: make(osm.WayNodes, 0, len(vs))}
			for at, v := range vs {
				wn := osm.WayNode{ID: nodeID(r, v)}
				if o.Annotated || (o.Mixed && at%2 == 0) {
					wn.Version = 1
					wn.ChangesetID = 7
					wn.Lat = t.Lat(rg[v])
					wn.Lon = t.Lon(rg[v])
				}
				way.Nodes = append(way.Nodes, wn)
			}
			ways = append(ways, way)
			pieces = append(pieces, Member{WayID: id, Ring: r, Role: role, Vertices: vs, Winding: w})
		}
	}
	if len(c.Order) != len(pieces) {
		panic("polycut: order length does not match the number of pieces")
	}

	rel := &osm.Relation{
		ID: RelationID, Version: 1, Visible: true, Timestamp: RelationTime, ChangesetID: 8,
		Tags: append(append(osm.Tags(nil), o.RelationTags...), osm.Tag{Key: "type", Value: typ}),
	}
	rel.Members = make(osm.Members, 0, len(pieces)+3)
	b := &Built{Truth: t, Relation: rel, Members: make([]Member, 0, len(pieces)+3)}
	extra := func(m osm.Member) {
		rel.Members = append(rel.Members, m)
		b.Members = append(b.Members, Member{Ring: -1, Role: m.Role})
	}
	if o.Extras {
		first := int64(pieces[0].WayID)
		b.ExtraNodes = osm.Nodes{
			{ID: osm.NodeID(first), Version: 1, Visible: true, Timestamp: ChildTime, ChangesetID: 7, Lat: 1, Lon: 1},
			{ID: 9001, Version: 1, Visible: true, Timestamp: ChildTime, ChangesetID: 7, Lat: 2, Lon: 2},
		}
		b.ExtraRelations = osm.Relations{
			{ID: osm.RelationID(first + 1), Version: 1, Visible: true, Timestamp: ChildTime, ChangesetID: 7},
		}
		extra(osm.Member{Type: osm.TypeNode, Ref: first, Role: "outer"})
	}
	used := make([]bool, len(pieces))
	for i, pi := range c.Order {
		if o.Extras && i == len(c.Order)/2 {
			extra(osm.Member{Type: osm.TypeRelation, Ref: int64(b.ExtraRelations[0].ID), Role: "inner"})
		}
		if pi < 0 || pi >= len(pieces) || used[pi] {
			panic("polycut: order is not a permutation")
		}
		used[pi] = true
		p := pieces[pi]
		rel.Members = append(rel.Members, osm.Member{Type: osm.TypeWay, Ref: int64(p.WayID), Role: p.Role})
		b.Members = append(b.Members, p)
	}
	if o.Extras {
		extra(osm.Member{Type: osm.TypeNode, Ref: 9001, Role: ""})
	}

	if o.MemberNodes {
		byID := make(map[osm.WayID]*osm.Way, len(ways))
		for _, w := range ways {
			byID[w.ID] = w
		}
		for i := range rel.Members {
			if rel.Members[i].Type != osm.TypeWay {
				continue
			}
			for _, wn := range byID[osm.WayID(rel.Members[i].Ref)].Nodes {
				rel.Members[i].Nodes = append(rel.Members[i].Nodes, osm.WayNode{Lat: wn.Lat, Lon: wn.Lon})
			}
		}
		ways = nil
	}
	if o.WaysDescending {
		ways = append(osm.Ways(nil), ways...)
		for a, z := 0, len(ways)-1; a < z; a, z = a+1, z-1 {
			ways[a], ways[z] = ways[z], ways[a]
		}
	}
	data := &osm.OSM{Ways: ways, Relations: osm.Relations{rel}}
	if !o.Annotated {
		total := 0
		for _, rg := range rings {
			total += len(rg)
		}
		data.Nodes = make(osm.Nodes, 0, total)
		for r, rg := range rings {
			for v, p := range rg {
				data.Nodes = append(data.Nodes, &osm.Node{
					ID: nodeID(r, v), Version: 1, Visible: true, Timestamp: ChildTime,
					ChangesetID: 7, Lat: t.Lat(p), Lon: t.Lon(p),
				})
			}
		}
		if o.NodesDescending {
			for a, z := 0, len(data.Nodes)-1; a < z; a, z = a+1, z-1 {
				data.Nodes[a], data.Nodes[z] = data.Nodes[z], data.Nodes[a]
			}
		}
	}
	b.OSM = data
	return b
}

// Example returns one fixed non-trivial case for reuse by other checks: two
// outers with a hole each (G5-quad-quad); the first outer cut into three
// pieces of which one is reversed, the second outer a closed clockwise way,
// one hole cut into two pieces, members interleaved.
func Example() (Truth, Case) {
	t, _ := Find("G5-quad-quad")
	c := Case{
		Truth: t.Name,
		Config: Config{
			Cuts: [][]int{{0, 1, 3}, {1}, {2}, {0, 2}},
			Rev:  [][]bool{{false, true, false}, {false}, {true}, {true, false}},
		},
		Order: []int{5, 1, 3, 0, 6, 4, 2},
	}
	return t, c
}
