// Package histsim is a ground-truth OSM edit-history simulator.
//
// A World is a tiny OSM database: a sequence of uploads, each with a commit
// instant and a changeset id of its own, each writing new versions of nodes,
// ways and relations. The world answers, from first principles, "which
// version of element X was current at time t / after upload k", and renders
// the element histories exactly as the library would be given them:
//
//   - commit-time regime: every element carries Committed = the upload's commit
//     instant (after osm.CommitInfoStart) and Timestamp = that instant truncated
//     to the second;
//   - pre-commit regime: timestamps before osm.CommitInfoStart, no Committed;
//     an element's timestamp is the upload instant plus a per-change skew (the
//     old API wrote the elements of one logical upload one by one).
//
// Nothing in this package calls the annotate packages; the only things used
// from github.com/paulmach/osm are its plain data types.
//
// Typical use:
//
//	w := histsim.Build(histsim.Config{Regime: histsim.CommitTime}, uploads)
//	ways := w.Ways(wayID)            // fresh, unannotated parent versions
//	ds := w.Datasource(wayFID)        // fresh osm.HistoryDatasource of everything else
//	v, ok := w.CurrentAt(nodeFID, t)  // ground truth
//
// For explicit-state search the world is also a stack: Apply pushes an upload,
// Undo pops it.
package histsim

import (
	"fmt"
	"time"

	"github.com/paulmach/osm"
)

// Regime selects how element times are rendered.
type Regime int

const (
	// CommitTime: Committed is set on every element, all times after osm.CommitInfoStart.
	CommitTime Regime = iota
	// PreCommit: only timestamps, all before osm.CommitInfoStart.
	PreCommit
)

func (r Regime) String() string {
	if r == CommitTime {
		return "commit-regime"
	}
	return "precommit-regime"
}

// DefaultStart is the commit instant of the first upload when Config.Start is zero.
func DefaultStart(r Regime) time.Time {
	if r == CommitTime {
		return time.Date(2013, 1, 1, 12, 0, 0, 0, time.UTC)
	}
	return time.Date(2008, 1, 1, 12, 0, 0, 0, time.UTC)
}

// Config describes a world before its first upload.
type Config struct {
	Regime         Regime
	Start          time.Time       // commit instant of the first upload (plus its Gap); zero = DefaultStart
	FirstChangeset osm.ChangesetID // changeset of upload 0; upload k uses FirstChangeset+k; zero = 100

	// Version numbering of every element: FirstVersion, FirstVersion+VersionStep, ...
	// (zero values mean 1). OSM versions need not start at 1 or be sequential
	// (redactions), and the library must not assume they do.
	FirstVersion int
	VersionStep  int

	// LocMode selects the node positions. 0 (default): Location(id, version),
	// never zero. LocZeros: the versions of a node cycle through Location,
	// exactly 0/0, latitude 0 only, longitude 0 only (a node may sit on the
	// equator, on the prime meridian or on both).
	LocMode int

	// ReverseWays gives child ways a node list that changes direction: a way
	// version written without SetRefs takes the node list of the last visible
	// version reversed, except every third version of the way, which keeps the
	// direction. False (default): the list is kept as it is.
	ReverseWays bool
}

// LocZeros is the Config.LocMode in which node versions also sit at 0/0, on the
// equator and on the prime meridian.
const LocZeros = 1

// Change is one element version written by an upload.
type Change struct {
	ID     osm.FeatureID
	Delete bool // write a deleted (invisible) version; otherwise a visible one (create, modify, undelete)

	// Refs is the child list of the new version when ID is a way (node ids) or a
	// relation (member ids). With SetRefs false the previous version's list is
	// kept (deleted versions always have an empty list).
	SetRefs bool
	Refs    []osm.FeatureID

	// Skew is added to the upload instant to give the element timestamp in the
	// pre-commit regime. It is ignored in the commit-time regime.
	Skew time.Duration
}

// Upload is one atomic commit. A change list may contain the same element
// more than once (several versions inside one commit).
type Upload struct {
	Gap     time.Duration // time since the previous upload (since Config.Start for the first)
	Changes []Change
}

// Version is the ground-truth record of one element version.
type Version struct {
	ID        osm.FeatureID
	Version   int
	Changeset osm.ChangesetID
	Visible   bool
	Lat, Lon  float64         // nodes only; a function of (id, version), never zero
	Timestamp time.Time       // what the library sees as the element timestamp
	Commit    time.Time       // commit instant of the upload that wrote it (ground truth)
	Upload    int             // index of that upload
	Refs      []osm.FeatureID // child list (ways, relations)
}

type elem struct {
	id   osm.FeatureID
	vers []Version

	// library-facing objects, one per version, shared by SharedDatasource
	nodes osm.Nodes
	ways  osm.Ways
	rels  osm.Relations
}

type uploadRec struct {
	time      time.Time
	changeset osm.ChangesetID
	touched   []int // element index per change written
	created   int   // number of elements created by this upload
}

// World is the simulated database.
type World struct {
	cfg     Config
	elems   []*elem
	uploads []uploadRec
}

// New returns an empty world.
func New(cfg Config) *World {
	if cfg.Start.IsZero() {
		cfg.Start = DefaultStart(cfg.Regime)
	}
	if cfg.FirstChangeset == 0 {
		cfg.FirstChangeset = 100
	}
	if cfg.FirstVersion == 0 {
		cfg.FirstVersion = 1
	}
	if cfg.VersionStep == 0 {
		cfg.VersionStep = 1
	}
	return &World{cfg: cfg}
}

// Build returns the world reached by applying uploads in order.
func Build(cfg Config, uploads []Upload) *World {
	w := New(cfg)
	for _, u := range uploads {
		w.Apply(u)
	}
	return w
}

// Regime returns the world's regime.
func (w *World) Regime() Regime { return w.cfg.Regime }

// Len is the number of uploads applied.
func (w *World) Len() int { return len(w.uploads) }

// UploadTime is the commit instant of upload k.
func (w *World) UploadTime(k int) time.Time { return w.uploads[k].time }

// UploadChangeset is the changeset id of upload k.
func (w *World) UploadChangeset(k int) osm.ChangesetID { return w.uploads[k].changeset }

func (w *World) find(id osm.FeatureID) *elem {
	for _, e := range w.elems {
		if e.id == id {
			return e
		}
	}
	return nil
}

// Location is the position given to version v of node id: distinct for every
// (id, version), never zero, exactly representable sums are not needed since
// the same function is used on both sides of every comparison.
func Location(id osm.FeatureID, version int) (lat, lon float64) {
	return float64(id.Ref()) + float64(version)/64, -float64(id.Ref()) - float64(version)/128
}

// Apply commits an upload.
func (w *World) Apply(u Upload) {
	k := len(w.uploads)
	t := w.cfg.Start.Add(u.Gap)
	if k > 0 {
		t = w.uploads[k-1].time.Add(u.Gap)
	}
	rec := uploadRec{time: t, changeset: w.cfg.FirstChangeset + osm.ChangesetID(k)}
	for _, c := range u.Changes {
		ei := -1
		for i, e := range w.elems {
			if e.id == c.ID {
				ei = i
				break
			}
		}
		if ei < 0 {
			w.elems = append(w.elems, &elem{id: c.ID})
			ei = len(w.elems) - 1
			rec.created++
		}
		e := w.elems[ei]
		v := Version{
			ID:        c.ID,
			Version:   w.cfg.FirstVersion + len(e.vers)*w.cfg.VersionStep,
			Changeset: rec.changeset,
			Visible:   !c.Delete,
			Commit:    t,
			Upload:    k,
		}
		if w.cfg.Regime == CommitTime {
			v.Timestamp = t.Truncate(time.Second)
		} else {
			v.Timestamp = t.Add(c.Skew)
		}
		if c.ID.Type() == osm.TypeNode && v.Visible {
			v.Lat, v.Lon = Location(c.ID, v.Version)
			if w.cfg.LocMode == LocZeros {
				switch len(e.vers) % 4 {
				case 1:
					v.Lat, v.Lon = 0, 0
				case 2:
					v.Lat = 0
				case 3:
					v.Lon = 0
				}
			}
		}
		if v.Visible && c.ID.Type() != osm.TypeNode {
			if c.SetRefs {
				v.Refs = append([]osm.FeatureID(nil), c.Refs...)
			} else if n := len(e.vers); n > 0 {
				for j := n - 1; j >= 0; j-- { // last visible version's list
					if e.vers[j].Visible {
						v.Refs = e.vers[j].Refs
						if w.cfg.ReverseWays && c.ID.Type() == osm.TypeWay && n%3 != 0 {
							v.Refs = make([]osm.FeatureID, len(e.vers[j].Refs))
							for a, r := range e.vers[j].Refs {
								v.Refs[len(v.Refs)-1-a] = r
							}
						}
						break
					}
				}
			}
		}
		e.vers = append(e.vers, v)
		switch c.ID.Type() {
		case osm.TypeNode:
			e.nodes = append(e.nodes, w.node(&v))
		case osm.TypeWay:
			e.ways = append(e.ways, w.way(&v))
		case osm.TypeRelation:
			e.rels = append(e.rels, w.relation(&v))
		default:
			panic(fmt.Sprintf("histsim: unsupported element type %v", c.ID.Type()))
		}
		rec.touched = append(rec.touched, ei)
	}
	w.uploads = append(w.uploads, rec)
}

// Undo removes the last upload.
func (w *World) Undo() {
	k := len(w.uploads) - 1
	rec := w.uploads[k]
	for _, ei := range rec.touched {
		e := w.elems[ei]
		n := len(e.vers) - 1
		e.vers = e.vers[:n]
		switch e.id.Type() {
		case osm.TypeNode:
			e.nodes = e.nodes[:n]
		case osm.TypeWay:
			e.ways = e.ways[:n]
		case osm.TypeRelation:
			e.rels = e.rels[:n]
		}
	}
	w.elems = w.elems[:len(w.elems)-rec.created]
	w.uploads = w.uploads[:k]
}

// ---------------------------------------------------------------- ground truth

// Elements lists the ids of all elements in creation order.
func (w *World) Elements() []osm.FeatureID {
	ids := make([]osm.FeatureID, len(w.elems))
	for i, e := range w.elems {
		ids[i] = e.id
	}
	return ids
}

// Versions returns the ground-truth versions of id, oldest first. The slice
// is owned by the world: do not modify, do not keep across Apply/Undo.
func (w *World) Versions(id osm.FeatureID) []Version {
	if e := w.find(id); e != nil {
		return e.vers
	}
	return nil
}

// CurrentAt returns the version of id that was current at time t: the last
// version written by an upload whose commit instant is not after t. ok is false
// if the element did not exist yet. The version may be a deleted one.
func (w *World) CurrentAt(id osm.FeatureID, t time.Time) (v *Version, ok bool) {
	e := w.find(id)
	if e == nil {
		return nil, false
	}
	for i := len(e.vers) - 1; i >= 0; i-- {
		if !e.vers[i].Commit.After(t) {
			return &e.vers[i], true
		}
	}
	return nil, false
}

// CurrentAfterUpload returns the version of id current once upload k was
// committed (uploads sharing a commit instant are ordered by index).
func (w *World) CurrentAfterUpload(id osm.FeatureID, k int) (v *Version, ok bool) {
	e := w.find(id)
	if e == nil {
		return nil, false
	}
	for i := len(e.vers) - 1; i >= 0; i-- {
		if e.vers[i].Upload <= k {
			return &e.vers[i], true
		}
	}
	return nil, false
}

// ---------------------------------------------------------------- rendering

func (w *World) committed(v *Version) *time.Time {
	if w.cfg.Regime != CommitTime {
		return nil
	}
	t := v.Commit
	return &t
}

func (w *World) node(v *Version) *osm.Node {
	return &osm.Node{
		ID: v.ID.NodeID(), Version: v.Version, ChangesetID: v.Changeset, Visible: v.Visible,
		Lat: v.Lat, Lon: v.Lon, Timestamp: v.Timestamp, Committed: w.committed(v),
	}
}

func (w *World) way(v *Version) *osm.Way {
	x := &osm.Way{
		ID: v.ID.WayID(), Version: v.Version, ChangesetID: v.Changeset, Visible: v.Visible,
		Timestamp: v.Timestamp, Committed: w.committed(v),
	}
	if len(v.Refs) > 0 {
		x.Nodes = make(osm.WayNodes, len(v.Refs))
		for i, r := range v.Refs {
			x.Nodes[i].ID = r.NodeID()
		}
	}
	return x
}

func (w *World) relation(v *Version) *osm.Relation {
	x := &osm.Relation{
		ID: v.ID.RelationID(), Version: v.Version, ChangesetID: v.Changeset, Visible: v.Visible,
		Timestamp: v.Timestamp, Committed: w.committed(v),
	}
	if len(v.Refs) > 0 {
		x.Members = make(osm.Members, len(v.Refs))
		for i, r := range v.Refs {
			x.Members[i].Type = r.Type()
			x.Members[i].Ref = r.Ref()
		}
	}
	return x
}

// Nodes returns fresh copies of all versions of a node, oldest first.
func (w *World) Nodes(id osm.NodeID) osm.Nodes {
	e := w.find(id.FeatureID())
	if e == nil {
		return nil
	}
	out := make(osm.Nodes, len(e.vers))
	for i := range e.vers {
		out[i] = w.node(&e.vers[i])
	}
	return out
}

// Ways returns fresh, unannotated copies of all versions of a way, oldest
// first: the parent versions handed to annotate.Ways.
func (w *World) Ways(id osm.WayID) osm.Ways {
	e := w.find(id.FeatureID())
	if e == nil {
		return nil
	}
	out := make(osm.Ways, len(e.vers))
	for i := range e.vers {
		out[i] = w.way(&e.vers[i])
	}
	return out
}

// Relations returns fresh, unannotated copies of all versions of a relation.
func (w *World) Relations(id osm.RelationID) osm.Relations {
	e := w.find(id.FeatureID())
	if e == nil {
		return nil
	}
	out := make(osm.Relations, len(e.vers))
	for i := range e.vers {
		out[i] = w.relation(&e.vers[i])
	}
	return out
}

func withheld(id osm.FeatureID, list []osm.FeatureID) bool {
	for _, x := range list {
		if x == id {
			return true
		}
	}
	return false
}

// Datasource returns a fresh osm.HistoryDatasource (deep copies) holding the
// history of every element except the ones listed in withhold (typically the
// parent itself and, for fault injection, a child whose history is missing).
func (w *World) Datasource(withhold ...osm.FeatureID) *osm.HistoryDatasource {
	return w.datasource(false, withhold)
}

// SharedDatasource is Datasource without the copying: the element objects are
// the world's own cached ones and are valid until the next Apply/Undo that
// touches the element. For hot loops; the caller must not modify them.
func (w *World) SharedDatasource(withhold ...osm.FeatureID) *osm.HistoryDatasource {
	return w.datasource(true, withhold)
}

func (w *World) datasource(shared bool, withhold []osm.FeatureID) *osm.HistoryDatasource {
	ds := &osm.HistoryDatasource{
		Nodes:     map[osm.NodeID]osm.Nodes{},
		Ways:      map[osm.WayID]osm.Ways{},
		Relations: map[osm.RelationID]osm.Relations{},
	}
	for _, e := range w.elems {
		if withheld(e.id, withhold) {
			continue
		}
		switch e.id.Type() {
		case osm.TypeNode:
			if shared {
				ds.Nodes[e.id.NodeID()] = e.nodes[:len(e.nodes):len(e.nodes)]
			} else {
				ds.Nodes[e.id.NodeID()] = w.Nodes(e.id.NodeID())
			}
		case osm.TypeWay:
			if shared {
				ds.Ways[e.id.WayID()] = e.ways[:len(e.ways):len(e.ways)]
			} else {
				ds.Ways[e.id.WayID()] = w.Ways(e.id.WayID())
			}
		case osm.TypeRelation:
			if shared {
				ds.Relations[e.id.RelationID()] = e.rels[:len(e.rels):len(e.rels)]
			} else {
				ds.Relations[e.id.RelationID()] = w.Relations(e.id.RelationID())
			}
		}
	}
	return ds
}
