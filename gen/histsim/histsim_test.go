package histsim

import (
	"testing"
	"time"

	"github.com/paulmach/osm"
)

func TestGroundTruthQueries(t *testing.T) {
	a, w := osm.NodeID(1).FeatureID(), osm.WayID(10).FeatureID()
	world := Build(Config{Regime: CommitTime}, []Upload{
		{Changes: []Change{{ID: a}, {ID: w, SetRefs: true, Refs: []osm.FeatureID{a}}}},
		{Gap: time.Hour, Changes: []Change{{ID: a}, {ID: a}}}, // two versions in one commit
		{Gap: 100 * time.Millisecond, Changes: []Change{{ID: a, Delete: true}}},
	})
	t1 := world.UploadTime(1)
	if v, ok := world.CurrentAt(a, t1.Add(-time.Nanosecond)); !ok || v.Version != 1 {
		t.Fatalf("before upload 1: %+v %v", v, ok)
	}
	if v, ok := world.CurrentAt(a, t1); !ok || v.Version != 3 || !v.Visible {
		t.Fatalf("at upload 1: %+v %v", v, ok)
	}
	if v, ok := world.CurrentAfterUpload(a, 2); !ok || v.Version != 4 || v.Visible {
		t.Fatalf("after upload 2: %+v %v", v, ok)
	}
	if _, ok := world.CurrentAt(a, world.UploadTime(0).Add(-time.Second)); ok {
		t.Fatalf("node existed before its creation")
	}
	ways := world.Ways(10)
	if len(ways) != 1 || len(ways[0].Nodes) != 1 || ways[0].Nodes[0].Version != 0 || ways[0].Committed == nil {
		t.Fatalf("parent rendering: %+v", ways)
	}
	ds := world.Datasource(w)
	if len(ds.Nodes[1]) != 4 || len(ds.Ways) != 0 || ds.Nodes[1][3].Visible {
		t.Fatalf("datasource: %+v", ds)
	}
	world.Undo()
	if v, _ := world.CurrentAfterUpload(a, 9); v.Version != 3 {
		t.Fatalf("undo: %+v", v)
	}
}

func TestWalkVisitsEveryEnabledSequenceOnce(t *testing.T) {
	s := &Space{Fam: FamilyByName("way2"), Regime: PreCommit, Gaps: []time.Duration{2 * time.Hour, 0},
		Delta: time.Minute, Skews: []int{-1, 0, 1}, Depth: 2}
	seen := map[string]bool{}
	s.Walk(func(w *World, trace []Op) bool {
		k := ""
		for _, o := range trace {
			k += o.String(&s.Fam) + ";"
		}
		if seen[k] {
			t.Fatalf("history %q visited twice", k)
		}
		seen[k] = true
		if w.Len() < len(trace)+1 {
			t.Fatalf("world has %d uploads for trace %q", w.Len(), k)
		}
		return true
	})
	// independent count from the guards
	var count func(st Status, d int) int
	count = func(st Status, d int) int {
		n := 1
		if d == s.Depth {
			return n
		}
		for _, o := range s.Ops() {
			if nx, ok := s.Next(st, o); ok {
				n += count(nx, d+1)
			}
		}
		return n
	}
	_, st := s.Initial()
	if want := count(st, 0); len(seen) != want || want < 500 {
		t.Fatalf("walk visited %d histories, guards allow %d", len(seen), want)
	}
}
