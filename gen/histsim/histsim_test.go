package histsim

import (
	"testing"
	"time"

	"github.com/paulmach/osm"
)

func TestGroundTruthQueries(t *testing.T) {
	a, w := osm.NodeID(1).FeatureID(), osm.WayID(10).FeatureID()
	world := Build(Config{Regime: CommitTime}, []Upload{
		{Changes: []Change{{ID: a}, {ID: w, SetRefs: true, Refs: []osm.FeatureID{a}}}},
		{Gap: time.Hour, Changes: []Change{{ID: a}, {ID: a}}}, // two versions in one commit
		{Gap: 100 * time.Millisecond, Changes: []Change{{ID: a, Delete: true}}},
	})
	t1 := world.UploadTime(1)
	if v, ok := world.CurrentAt(a, t1.Add(-time.Nanosecond)); !ok || v.Version != 1 {
		t.Fatalf("before upload 1: %+v %v", v, ok)
	}
	if v, ok := world.CurrentAt(a, t1); !ok || v.Version != 3 || !v.Visible {
		t.Fatalf("at upload 1: %+v %v", v, ok)
	}
	if v, ok := world.CurrentAfterUpload(a, 2); !ok || v.Version != 4 || v.Visible {
		t.Fatalf("after upload 2: %+v %v", v, ok)
	}
	if _, ok := world.CurrentAt(a, world.UploadTime(0).Add(-time.Second)); ok {
		t.Fatalf("node existed before its creation")
	}
	ways := world.Ways(10)
	if len(ways) != 1 || len(ways[0].Nodes) != 1 || ways[0].Nodes[0].Version != 0 || ways[0].Committed == nil {
		t.Fatalf("parent rendering: %+v", ways)
	}
	ds := world.Datasource(w)
	if len(ds.Nodes[1]) != 4 || len(ds.Ways) != 0 || ds.Nodes[1][3].Visible {
		t.Fatalf("datasource: %+v", ds)
	}
	world.Undo()
	if v, _ := world.CurrentAfterUpload(a, 9); v.Version != 3 {
		t.Fatalf("undo: %+v", v)
	}
}

func TestWalkVisitsEveryEnabledSequenceOnce(t *testing.T) {
	s := &Space{Fam: FamilyByName("way2"), Regime: PreCommit, Gaps: []time.Duration{2 * time.Hour, 0},
		Delta: time.Minute, Skews: []int{-1, 0, 1}, Depth: 2}
	seen := map[string]bool{}
	s.Walk(func(w *World, trace []Op) bool {
		k := ""
		for _, o := range trace {
			k += o.String(&s.Fam) + ";"
		}
		if seen[k] {
			t.Fatalf("history %q visited twice", k)
		}
		seen[k] = true
		if w.Len() < len(trace)+1 {
			t.Fatalf("world has %d uploads for trace %q", w.Len(), k)
		}
		return true
	})
	// independent count from the guards
	var count func(st Status, d int) int
	count = func(st Status, d int) int {
		n := 1
		if d == s.Depth {
			return n
		}
		for _, o := range s.Ops() {
			if nx, ok := s.Next(st, o); ok {
				n += count(nx, d+1)
			}
		}
		return n
	}
	_, st := s.Initial()
	if want := count(st, 0); len(seen) != want || want < 500 {
		t.Fatalf("walk visited %d histories, guards allow %d", len(seen), want)
	}
}

func TestOptionalWorldConfiguration(t *testing.T) {
	a, v := osm.NodeID(1).FeatureID(), osm.WayID(5).FeatureID()
	n1, n2, n3 := osm.NodeID(901).FeatureID(), osm.NodeID(902).FeatureID(), osm.NodeID(903).FeatureID()
	ups := []Upload{{Changes: []Change{{ID: a}, {ID: v, SetRefs: true, Refs: []osm.FeatureID{n1, n2, n3}}}}}
	for i := 0; i < 4; i++ {
		ups = append(ups, Upload{Gap: time.Hour, Changes: []Change{{ID: a}, {ID: v}}})
	}
	// defaults: positions never zero, node lists kept
	w := Build(Config{Regime: CommitTime}, ups)
	for _, x := range w.Versions(a) {
		if x.Lat == 0 || x.Lon == 0 {
			t.Fatalf("default positions must not be zero: %+v", x)
		}
	}
	for _, x := range w.Versions(v) {
		if len(x.Refs) != 3 || x.Refs[0] != n1 {
			t.Fatalf("default: node list changed: %+v", x)
		}
	}
	// options
	w = Build(Config{Regime: CommitTime, LocMode: LocZeros, ReverseWays: true, FirstChangeset: 1 << 33}, ups)
	na := w.Versions(a)
	if na[0].Lat == 0 || na[1].Lat != 0 || na[1].Lon != 0 || na[2].Lat != 0 || na[2].Lon == 0 || na[3].Lat == 0 || na[3].Lon != 0 || na[4].Lat == 0 || na[4].Lon == 0 {
		t.Fatalf("LocZeros cycle: %+v", na)
	}
	first := []osm.FeatureID{}
	for _, x := range w.Versions(v) {
		first = append(first, x.Refs[0])
	}
	// version ordinals 1 and 2 reverse, ordinal 3 keeps, ordinal 4 reverses
	want := []osm.FeatureID{n1, n3, n1, n1, n3}
	for i := range want {
		if first[i] != want[i] {
			t.Fatalf("ReverseWays: first nodes %v, want %v", first, want)
		}
	}
	if na[4].Changeset != 1<<33+4 {
		t.Fatalf("FirstChangeset: %v", na[4].Changeset)
	}
	// a space carries the options into its identity and back
	s := &Space{Fam: FamilyByName("rel3eq"), Regime: CommitTime, Gaps: []time.Duration{time.Hour}, Skews: []int{0}, Depth: 1,
		Start: time.Date(2012, 9, 12, 7, 30, 3, 0, time.UTC), FirstChangeset: 77, LocMode: LocZeros, ReverseWays: true}
	r := SpaceFromID(s.ID())
	if !r.Start.Equal(s.Start) || r.FirstChangeset != 77 || r.LocMode != LocZeros || !r.ReverseWays || r.Config() != s.Config() {
		t.Fatalf("space identity round trip: %+v", r)
	}
	u, _ := s.Initial()
	if len(u.Changes) != 4 || len(u.Changes[1].Refs) != 3 {
		t.Fatalf("initial upload of a space with ReverseWays: %+v", u)
	}
}
