package histsim

// The edit alphabet shared by the checks that search over histories: families
// (parent kind + children + menu of child lists), operations (one upload each),
// their guards and their translation into uploads. A Space is a family in a
// regime with a time alphabet; Walk visits every history of a space.

import (
	"fmt"
	"time"

	"github.com/paulmach/osm"
)

// Family fixes the parent, its possible children and the menu of child lists.
type Family struct {
	Name     string
	Parent   osm.FeatureID
	Children []osm.FeatureID
	Names    []string // one letter per child, for shapes and samples
	Menu     [][]int  // child lists as indices into Children
	Init     int      // menu index of the parent's first version
}

var (
	nodeA = osm.NodeID(1).FeatureID()
	nodeB = osm.NodeID(2).FeatureID()
	nodeC = osm.NodeID(3).FeatureID()
	wayV  = osm.WayID(5).FeatureID()
	relQ  = osm.RelationID(6).FeatureID()
	wayW  = osm.WayID(10).FeatureID()
	relR  = osm.RelationID(20).FeatureID()
)

// FamilyByName returns one of the predefined families.
func FamilyByName(name string) Family {
	switch name {
	case "way2": // way over two nodes, menu with a repeated node and a one-node list
		return Family{Name: name, Parent: wayW, Children: []osm.FeatureID{nodeA, nodeB}, Names: []string{"A", "B"},
			Menu: [][]int{{0, 1}, {1, 0}, {0, 1, 0}, {0}}}
	case "way2r": // churn under a repeated node: long update lists, several versions per commit
		return Family{Name: name, Parent: wayW, Children: []osm.FeatureID{nodeA, nodeB}, Names: []string{"A", "B"},
			Menu: [][]int{{0, 1, 0}}}
	case "way3": // three nodes, children entering and leaving, either node can be dropped
		return Family{Name: name, Parent: wayW, Children: []osm.FeatureID{nodeA, nodeB, nodeC}, Names: []string{"A", "B", "C"},
			Menu: [][]int{{0, 1}, {1, 0}, {0, 1, 0}, {0}, {0, 1, 2}, {2, 1}}}
	case "rel3": // relation over a node, a way and a relation
		return Family{Name: name, Parent: relR, Children: []osm.FeatureID{nodeA, wayV, relQ}, Names: []string{"A", "V", "Q"},
			Menu: [][]int{{0, 1}, {1, 0}, {0, 1, 0}, {1}, {0, 1, 2}, {2}}}
	case "rel4": // two nodes, a way and a relation
		return Family{Name: name, Parent: relR, Children: []osm.FeatureID{nodeA, nodeB, wayV, relQ}, Names: []string{"A", "B", "V", "Q"},
			Menu: [][]int{{0, 2}, {2, 0}, {0, 2, 0}, {2}, {0, 1, 2, 3}, {3, 1}, {2, 3, 2}}}
	case "way2x": // children at three and more positions of one parent version, and a parent version without children
		return Family{Name: name, Parent: wayW, Children: []osm.FeatureID{nodeA, nodeB}, Names: []string{"A", "B"},
			Menu: [][]int{{0, 1}, {0, 0, 0}, {1, 0, 1, 0, 1}, {}}}
	case "rel3eq": // node, way and relation members with the same number; members at three positions; no members
		return Family{Name: name, Parent: relR, Children: []osm.FeatureID{osm.NodeID(7).FeatureID(), osm.WayID(7).FeatureID(), osm.RelationID(7).FeatureID()}, Names: []string{"A", "V", "Q"},
			Menu: [][]int{{0, 1, 2}, {2, 1, 0}, {1, 1, 1}, {0, 1, 0, 2, 0}, {}}}
	case "rel3big": // ids beyond 32 bits, up to the largest the 40 ref bits of osm.FeatureID hold; node and way share their number
		return Family{Name: name, Parent: osm.RelationID(1<<35 + 20).FeatureID(),
			Children: []osm.FeatureID{osm.NodeID(1<<32 + 7).FeatureID(), osm.WayID(1<<32 + 7).FeatureID(), osm.RelationID(1<<40 - 1).FeatureID()}, Names: []string{"A", "V", "Q"},
			Menu: [][]int{{0, 1}, {1, 0}, {0, 1, 0}, {1}, {0, 1, 2}, {2}}}
	}
	panic("unknown family " + name)
}

func (f *Family) IsWay() bool { return f.Parent.Type() == osm.TypeWay }

func (f *Family) InList(l, x int) bool {
	for _, c := range f.Menu[l] {
		if c == x {
			return true
		}
	}
	return false
}

func (f *Family) Refs(l int) []osm.FeatureID {
	out := make([]osm.FeatureID, len(f.Menu[l]))
	for i, c := range f.Menu[l] {
		out[i] = f.Children[c]
	}
	return out
}

// Op kinds: one upload each.
const (
	OpTouch        = iota // new visible version of child X (move / modify / undelete)
	OpTouch2              // two new versions of child X inside one commit (commit-time regime)
	OpEdit                // new visible parent version with child list L (also: undelete of the parent)
	OpTouchEdit           // OpTouch(X) and OpEdit(L) in one upload, X in L, child stamped Skew*delta from the parent
	OpDeleteEdit          // child X deleted and parent edited to a list without X, one upload
	OpDelete              // child X deleted on its own (a fault if the visible parent still references it)
	OpParentDelete        // parent deleted
	// OpInterloperTouchEdit is OpTouchEdit(X, L, Skew) preceded, in the same
	// second, by an upload of somebody else (another changeset) that writes a
	// version of the same child X stamped inside the grouping window: with
	// Skew +1 strictly between the parent's timestamp and the own child
	// version's timestamp (parent T, interloper T+delta/2, own T+delta), with
	// Skew -1 before the own child version (interloper T-1.5 delta, own
	// T-delta, parent T). Two uploads, one transition; version numbers follow
	// commit order and timestamps ascend with them. Pre-commit regime only.
	OpInterloperTouchEdit
	// OpBlink: child X is deleted and created again inside ONE upload (one changeset,
	// two versions: an invisible one and a visible one). A fault if the visible parent
	// references X: a deleted version between parent versions. Commit-time regime,
	// spaces with Blink set.
	OpBlink
)

var OpNames = []string{"touch", "touch2", "edit", "touch+edit", "delete+edit", "delete", "parent-delete", "interloper+touch+edit", "delete+undelete-in-one-upload"}

// Op is one transition. Gap indexes the regime's gap alphabet.
type Op struct {
	Kind int `json:"k"`
	X    int `json:"x"`
	L    int `json:"l"`
	Skew int `json:"s"`
	Gap  int `json:"g"`
}

func (o Op) Code() uint64 {
	return uint64(o.Kind) | uint64(o.X)<<4 | uint64(o.L)<<8 | uint64(o.Skew+1)<<12 | uint64(o.Gap)<<16
}

func (o Op) String(f *Family) string {
	s := OpNames[o.Kind]
	switch o.Kind {
	case OpTouch, OpTouch2, OpDelete, OpBlink:
		s += "(" + f.Names[o.X] + ")"
	case OpEdit:
		s += "(" + f.ListName(o.L) + ")"
	case OpTouchEdit, OpDeleteEdit, OpInterloperTouchEdit:
		s += fmt.Sprintf("(%s,%s,skew%+d)", f.Names[o.X], f.ListName(o.L), o.Skew)
	}
	return s + fmt.Sprintf("@g%d", o.Gap)
}

func (f *Family) ListName(l int) string {
	s := "["
	for _, c := range f.Menu[l] {
		s += f.Names[c]
	}
	return s + "]"
}

// Space is one searched space: a family in a regime with its time alphabet.
type Space struct {
	Fam    Family
	Regime Regime
	Gaps   []time.Duration // gap alphabet; in the pre-commit regime index 0 is "well separated", a 0 gap is "same second"
	Delta  time.Duration   // pre-commit regime: magnitude of the same-upload skew
	Skews  []int           // multiples of Delta tried for same-upload children (commit regime: {0})
	Depth  int
	Touch2 bool // include several-versions-in-one-commit transitions
	Blink  bool // include OpBlink (commit-time regime)

	// Interlopers includes the OpInterloperTouchEdit transitions (pre-commit
	// regime). Independently of it, a gap g with 0 < g < Delta in Gaps is a
	// "small gap": a foreign child-only touch stamped inside the same-upload
	// skew of the previous upload (see Next for the guards).
	Interlopers bool

	// Version numbering of all elements (Config): OSM versions need not
	// start at 1 or be sequential.
	FirstVersion, VersionStep int

	// Further world configuration (Config), all optional: the commit instant of
	// the first upload, the changeset of the first upload, the node position
	// mode and direction-changing child ways. With ReverseWays the child ways of
	// the family get a three-node list in the initial upload.
	Start          time.Time
	FirstChangeset osm.ChangesetID
	LocMode        int
	ReverseWays    bool
}

// SpaceID is the serialisable identity of a space (for replays).
type SpaceID struct {
	Family string  `json:"family"`
	Regime int     `json:"regime"`
	GapsMS []int64 `json:"gaps_ms"`
	DeltaS int64   `json:"delta_s"`
	Skews  []int   `json:"skews"`
	Depth  int     `json:"depth"`
	Touch2 bool    `json:"touch2"`
	Interl bool    `json:"interlopers"`
	FirstV int     `json:"first_version"`
	StepV  int     `json:"version_step"`

	StartUnix int64 `json:"start_unix,omitempty"`
	FirstCS   int64 `json:"first_changeset,omitempty"`
	LocMode   int   `json:"loc_mode,omitempty"`
	RevWays   bool  `json:"reverse_ways,omitempty"`
	Blink     bool  `json:"blink,omitempty"`
}

// ID returns the serialisable identity of the space.
func (s *Space) ID() SpaceID {
	id := SpaceID{Family: s.Fam.Name, Regime: int(s.Regime), DeltaS: int64(s.Delta / time.Second), Skews: s.Skews, Depth: s.Depth, Touch2: s.Touch2, Interl: s.Interlopers, FirstV: s.FirstVersion, StepV: s.VersionStep}
	for _, g := range s.Gaps {
		id.GapsMS = append(id.GapsMS, int64(g/time.Millisecond))
	}
	if !s.Start.IsZero() {
		id.StartUnix = s.Start.Unix()
	}
	id.FirstCS, id.LocMode, id.RevWays = int64(s.FirstChangeset), s.LocMode, s.ReverseWays
	id.Blink = s.Blink
	return id
}

// SpaceFromID rebuilds a space from its identity.
func SpaceFromID(id SpaceID) *Space {
	s := &Space{Fam: FamilyByName(id.Family), Regime: Regime(id.Regime), Delta: time.Duration(id.DeltaS) * time.Second,
		Skews: id.Skews, Depth: id.Depth, Touch2: id.Touch2, Interlopers: id.Interl, FirstVersion: id.FirstV, VersionStep: id.StepV}
	for _, g := range id.GapsMS {
		s.Gaps = append(s.Gaps, time.Duration(g)*time.Millisecond)
	}
	if id.StartUnix != 0 {
		s.Start = time.Unix(id.StartUnix, 0).UTC()
	}
	s.FirstChangeset, s.LocMode, s.ReverseWays = osm.ChangesetID(id.FirstCS), id.LocMode, id.RevWays
	s.Blink = id.Blink
	return s
}

// Name is "<regime>/<family>".
func (s *Space) Name() string {
	return fmt.Sprintf("%s/%s", s.Regime, s.Fam.Name)
}

// Config is the world configuration of the space.
func (s *Space) Config() Config {
	return Config{Regime: s.Regime, FirstVersion: s.FirstVersion, VersionStep: s.VersionStep,
		Start: s.Start, FirstChangeset: s.FirstChangeset, LocMode: s.LocMode, ReverseWays: s.ReverseWays}
}

// Walk visits every history of the space up to s.Depth transitions, depth
// first, in a fixed order (the empty history, i.e. the initial world, first).
// The world and the trace passed to visit are only valid during the call; if
// visit returns false the subtree below that history is not entered.
func (s *Space) Walk(visit func(w *World, trace []Op) bool) {
	w := New(s.Config())
	u, st := s.Initial()
	w.Apply(u)
	ops := s.Ops()
	ups := make([][]Upload, len(ops))
	for i, o := range ops {
		ups[i] = s.Uploads(o)
	}
	var trace []Op
	var rec func(st Status)
	rec = func(st Status) {
		if !visit(w, trace) || len(trace) >= s.Depth {
			return
		}
		for i, o := range ops {
			n, ok := s.Next(st, o)
			if !ok {
				continue
			}
			for _, u := range ups[i] {
				w.Apply(u)
			}
			trace = append(trace, o)
			rec(n)
			trace = trace[:len(trace)-1]
			for range ups[i] {
				w.Undo()
			}
		}
	}
	rec(st)
}

// Status is the summary of the current world the transition guards need. It is
// maintained next to the world (which holds the full ground truth).
type Status struct {
	vis        [4]bool          // child visible
	pvis       bool             // parent visible
	list       int              // menu index of the last visible parent version
	faults     int              // fault transitions so far
	grpPar     bool             // the current same-instant group contains a parent version
	grpMulti   bool             // ... contains an upload writing more than one element
	sinceDel   [4]time.Duration // for a deleted child: time since its delete
	afterSmall bool             // the last upload came after a small gap
}

// ThrMax is the largest grouping threshold any variant uses.
const ThrMax = 30 * time.Minute

// Initial is the first upload (all children v1 and the parent v1 with the
// family's initial list, one commit) and the status after it.
func (s *Space) Initial() (Upload, Status) {
	f := &s.Fam
	var u Upload
	var st Status
	for i, c := range f.Children {
		ch := Change{ID: c}
		if s.ReverseWays && c.Type() == osm.TypeWay {
			// nodes outside the world: nobody looks them up, only the direction matters
			ch.SetRefs, ch.Refs = true, []osm.FeatureID{osm.NodeID(901).FeatureID(), osm.NodeID(902).FeatureID(), osm.NodeID(903).FeatureID()}
		}
		u.Changes = append(u.Changes, ch)
		st.vis[i] = true
	}
	u.Changes = append(u.Changes, Change{ID: f.Parent, SetRefs: true, Refs: f.Refs(f.Init)})
	st.pvis = true
	st.list = f.Init
	st.grpPar, st.grpMulti = true, true
	return u, st
}

// Uploads translates an op into the upload(s) it stands for (one, except for
// OpInterloperTouchEdit which is two).
func (s *Space) Uploads(o Op) []Upload {
	f := &s.Fam
	u := Upload{Gap: s.Gaps[o.Gap]}
	skew := time.Duration(o.Skew) * s.Delta
	switch o.Kind {
	case OpTouch:
		u.Changes = []Change{{ID: f.Children[o.X]}}
	case OpTouch2:
		u.Changes = []Change{{ID: f.Children[o.X]}, {ID: f.Children[o.X]}}
	case OpBlink:
		u.Changes = []Change{{ID: f.Children[o.X], Delete: true}, {ID: f.Children[o.X]}}
	case OpEdit:
		u.Changes = []Change{{ID: f.Parent, SetRefs: true, Refs: f.Refs(o.L)}}
	case OpTouchEdit:
		u.Changes = []Change{{ID: f.Children[o.X], Skew: skew}, {ID: f.Parent, SetRefs: true, Refs: f.Refs(o.L)}}
	case OpDeleteEdit:
		u.Changes = []Change{{ID: f.Children[o.X], Delete: true, Skew: skew}, {ID: f.Parent, SetRefs: true, Refs: f.Refs(o.L)}}
	case OpDelete:
		u.Changes = []Change{{ID: f.Children[o.X], Delete: true}}
	case OpParentDelete:
		u.Changes = []Change{{ID: f.Parent, Delete: true}}
	case OpInterloperTouchEdit:
		u.Changes = []Change{{ID: f.Children[o.X], Skew: s.InterloperSkew(o.Skew)}}
		own := Upload{Gap: 0, Changes: []Change{{ID: f.Children[o.X], Skew: skew}, {ID: f.Parent, SetRefs: true, Refs: f.Refs(o.L)}}}
		return []Upload{u, own}
	}
	return []Upload{u}
}

// Upload is Uploads for ops that stand for exactly one upload (every op
// except OpInterloperTouchEdit, which only spaces with Interlopers set
// contain); it panics otherwise.
func (s *Space) Upload(o Op) Upload {
	us := s.Uploads(o)
	if len(us) != 1 {
		panic("histsim: " + OpNames[o.Kind] + " stands for more than one upload, use Uploads")
	}
	return us[0]
}

// InterloperSkew is the offset of the interloper's child version from the
// parent's timestamp for an OpInterloperTouchEdit with the given own skew.
func (s *Space) InterloperSkew(ownSkew int) time.Duration {
	if ownSkew > 0 {
		return s.Delta / 2
	}
	return -s.Delta - s.Delta/2
}

// Next returns the status after o. ok is false when o is not enabled in st.
//
// Guards. Structural: delete only what is visible, delete+edit only drops a
// child of the current list, touch+edit touches a child of the new list.
// Pre-commit regime (the documented domain restriction: ground truth must be
// observable from one-second timestamps): an upload may share the instant of
// the previous one only if it writes a single element with zero skew and no
// upload of the group wrote a parent version yet (child-then-parent order
// only); a new parent version does not reference a child whose delete is at
// most one threshold old (inside the grouping window a delete is, by design of
// the heuristic, indistinguishable from a delete that belongs to the parent's
// own upload). A small gap (0 < gap < Delta) is only taken by a child-only
// touch (the foreign edit right after an upload, stamped inside that upload's
// skew: by timestamps it is later than the parent, and that is its ground
// truth), and the upload after it is well separated again (a parent version
// stamped inside the skew of an earlier upload would see that upload's child
// version "in the future" under a foreign changeset). An interloper transition
// starts well separated.
func (s *Space) Next(st Status, o Op) (Status, bool) {
	f := &s.Fam
	n := st
	if g := s.Gaps[o.Gap]; s.Regime == PreCommit {
		small := g > 0 && g < s.Delta
		if small && (o.Kind != OpTouch || st.afterSmall) {
			return st, false
		}
		if st.afterSmall && g <= 2*ThrMax {
			return st, false
		}
		if o.Kind == OpInterloperTouchEdit && (g == 0 || small) {
			return st, false
		}
		n.afterSmall = small
	} else if o.Kind == OpInterloperTouchEdit {
		return st, false
	}
	for x := range f.Children {
		if !st.vis[x] && n.sinceDel[x] < 1000*time.Hour {
			n.sinceDel[x] += s.Gaps[o.Gap]
		}
	}
	switch o.Kind {
	case OpTouch, OpTouch2:
		n.vis[o.X] = true
	case OpEdit:
		n.pvis, n.list = true, o.L
		for _, c := range f.Menu[o.L] {
			if !st.vis[c] {
				n.faults++
				break
			}
		}
	case OpTouchEdit, OpInterloperTouchEdit:
		if !f.InList(o.L, o.X) {
			return st, false
		}
		n.vis[o.X] = true
		n.pvis, n.list = true, o.L
		for _, c := range f.Menu[o.L] {
			if !n.vis[c] {
				n.faults++
				break
			}
		}
	case OpDeleteEdit:
		if !st.vis[o.X] || !st.pvis || !f.InList(st.list, o.X) || f.InList(o.L, o.X) {
			return st, false
		}
		n.vis[o.X] = false
		n.list = o.L
		for _, c := range f.Menu[o.L] {
			if !n.vis[c] {
				n.faults++
				break
			}
		}
	case OpDelete:
		if !st.vis[o.X] {
			return st, false
		}
		n.vis[o.X] = false
		if st.pvis && f.InList(st.list, o.X) {
			n.faults++
		}
	case OpParentDelete:
		if !st.pvis {
			return st, false
		}
		n.pvis = false
	case OpBlink:
		if !s.Blink || s.Regime != CommitTime || !st.vis[o.X] {
			return st, false
		}
		if st.pvis && f.InList(st.list, o.X) {
			n.faults++
		}
	}
	single := o.Kind == OpTouch || o.Kind == OpEdit || o.Kind == OpDelete || o.Kind == OpParentDelete
	parent := o.Kind == OpEdit || o.Kind == OpTouchEdit || o.Kind == OpDeleteEdit || o.Kind == OpParentDelete || o.Kind == OpInterloperTouchEdit
	if s.Gaps[o.Gap] == 0 {
		// same instant as the previous upload (pre-commit regime only)
		if !single || st.grpPar || st.grpMulti {
			return st, false
		}
	} else {
		n.grpPar, n.grpMulti = false, false
	}
	n.grpPar = n.grpPar || parent
	n.grpMulti = n.grpMulti || !single
	if o.Kind == OpDelete || o.Kind == OpDeleteEdit {
		n.sinceDel[o.X] = 0
	}
	if s.Regime == PreCommit && parent && n.pvis {
		for _, c := range f.Menu[n.list] {
			if !n.vis[c] && n.sinceDel[c] <= ThrMax {
				return st, false
			}
		}
	}
	return n, true
}

// Ops lists every op of the alphabet (enabled or not) in a fixed order.
func (s *Space) Ops() []Op {
	f := &s.Fam
	var out []Op
	for g := range s.Gaps {
		for x := range f.Children {
			out = append(out, Op{Kind: OpTouch, X: x, Gap: g})
			if s.Touch2 {
				out = append(out, Op{Kind: OpTouch2, X: x, Gap: g})
			}
			out = append(out, Op{Kind: OpDelete, X: x, Gap: g})
			if s.Blink {
				out = append(out, Op{Kind: OpBlink, X: x, Gap: g})
			}
		}
		for l := range f.Menu {
			out = append(out, Op{Kind: OpEdit, L: l, Gap: g})
			for x := range f.Children {
				for _, sk := range s.Skews {
					out = append(out, Op{Kind: OpTouchEdit, X: x, L: l, Skew: sk, Gap: g})
					out = append(out, Op{Kind: OpDeleteEdit, X: x, L: l, Skew: sk, Gap: g})
					if s.Interlopers && sk != 0 {
						out = append(out, Op{Kind: OpInterloperTouchEdit, X: x, L: l, Skew: sk, Gap: g})
					}
				}
			}
		}
		out = append(out, Op{Kind: OpParentDelete, Gap: g})
	}
	return out
}
