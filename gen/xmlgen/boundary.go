package xmlgen

// Boundary value classes for the numeric, boolean and time positions of the
// builders (the counterpart of TextPos / TextClass for string positions), more
// text classes, more ids and more document layouts.
//
// Everything in this file is additive: a B whose NumPos is 0, text classes
// below NumTextClasses, layouts below NumLayouts, entity styles below
// NumEntityStyles and the IDRange slice behave exactly as before, so checks
// that do not ask for the new classes enumerate what they always did.

import (
	"math"
	"strconv"
	"strings"
	"time"

	"github.com/paulmach/osm"
)

// Types of value positions.
const (
	NumInt      = iota // integer attribute / leaf (ids, versions, counts, indexes)
	NumFloat           // decimal attribute (coordinates)
	NumTime            // RFC 3339 timestamp attribute
	NumNoteDate        // note date leaf ("2006-01-02 15:04:05 UTC")
	NumBool            // boolean attribute
	NumValueTypes
)

// IntClasses are the boundary integers of an integer position: zero (present
// but zero), the units, the widths at which encodings change (7/8, 15/16, 31/32
// bits, the 16 version bits and 40 ref bits of packed object ids, the float64
// integer limit) and the int64 limits.
var IntClasses = []int64{
	0, 1, -1, 127, 128, 255, 256, 32767, 32768, 65535, 65536,
	1<<31 - 1, 1 << 31, -(1 << 31) - 1, 1<<32 - 1, 1 << 32,
	1<<40 - 1, 1 << 40, 1 << 53, 1<<53 + 1, math.MaxInt64, math.MinInt64,
}

// FloatClasses are decimal spellings of a coordinate position. The expected
// value is the correctly rounded float64 of the spelling (strconv).
var FloatClasses = []string{
	"0", "-0.0", "0.0000000", "90", "-90", "180", "-180.0000000", "5", "-5", ".5",
	"1e-7", "1E+2", "+12.5", "007.25", "89.99999999999999", "51.123456789012345678",
	"4.9e-324", "1.7976931348623157e308", "-0.00000001", "179.99999995",
}

// TimeClass is one spelling of an instant.
type TimeClass struct {
	Text string
	T    time.Time
}

// TimeClasses are boundary instants of an RFC 3339 position: the zero time,
// the Unix epoch and the second before it, the 32 bit second limits, the
// start of committed-at information, the last instant of int64 nanoseconds
// and the first day after it, the last second of year 9999, a leap day, 1, 3
// and 9 digit fractions, negative and +14:00 zone offsets (crossing a year).
// The instants are written with time.Date, never parsed.
var TimeClasses = []TimeClass{
	{"0001-01-01T00:00:00Z", time.Time{}},
	{"1970-01-01T00:00:00Z", time.Date(1970, 1, 1, 0, 0, 0, 0, time.UTC)},
	{"1969-12-31T23:59:59Z", time.Date(1969, 12, 31, 23, 59, 59, 0, time.UTC)},
	{"1901-12-13T20:45:51Z", time.Date(1901, 12, 13, 20, 45, 51, 0, time.UTC)},
	{"2038-01-19T03:14:08Z", time.Date(2038, 1, 19, 3, 14, 8, 0, time.UTC)},
	{"2012-09-12T09:30:03Z", time.Date(2012, 9, 12, 9, 30, 3, 0, time.UTC)},
	{"2262-04-11T23:47:16.854775807Z", time.Date(2262, 4, 11, 23, 47, 16, 854775807, time.UTC)},
	{"2262-04-12T00:00:00Z", time.Date(2262, 4, 12, 0, 0, 0, 0, time.UTC)},
	{"9999-12-31T23:59:59Z", time.Date(9999, 12, 31, 23, 59, 59, 0, time.UTC)},
	{"2016-02-29T23:59:59.5Z", time.Date(2016, 2, 29, 23, 59, 59, 500000000, time.UTC)},
	{"2020-01-01T00:00:00.000000001Z", time.Date(2020, 1, 1, 0, 0, 0, 1, time.UTC)},
	{"2020-03-04T05:06:07.123Z", time.Date(2020, 3, 4, 5, 6, 7, 123000000, time.UTC)},
	{"2020-06-15T12:00:00-08:00", time.Date(2020, 6, 15, 20, 0, 0, 0, time.UTC)},
	{"2020-01-01T00:30:00+14:00", time.Date(2019, 12, 31, 10, 30, 0, 0, time.UTC)},
}

// NoteDateClasses are boundary instants of a note date position.
var NoteDateClasses = []TimeClass{
	{"0001-01-01 00:00:00 UTC", time.Time{}},
	{"1970-01-01 00:00:00 UTC", time.Date(1970, 1, 1, 0, 0, 0, 0, time.UTC)},
	{"1969-12-31 23:59:59 UTC", time.Date(1969, 12, 31, 23, 59, 59, 0, time.UTC)},
	{"2038-01-19 03:14:08 UTC", time.Date(2038, 1, 19, 3, 14, 8, 0, time.UTC)},
	{"2016-02-29 23:59:59 UTC", time.Date(2016, 2, 29, 23, 59, 59, 0, time.UTC)},
	{"2262-04-12 00:00:00 UTC", time.Date(2262, 4, 12, 0, 0, 0, 0, time.UTC)},
	{"9999-12-31 23:59:59 UTC", time.Date(9999, 12, 31, 23, 59, 59, 0, time.UTC)},
}

// BoolClasses are the spellings of a boolean position.
var BoolClasses = []string{"true", "false"}

// NumClassCount is the number of classes of a value position type.
func NumClassCount(typ int) int {
	switch typ {
	case NumInt:
		return len(IntClasses)
	case NumFloat:
		return len(FloatClasses)
	case NumTime:
		return len(TimeClasses)
	case NumNoteDate:
		return len(NoteDateClasses)
	case NumBool:
		return len(BoolClasses)
	}
	return 0
}

// NumAll as B.NumPos puts the class into every value position at once (the
// class index is taken modulo the number of classes of each position's type).
const NumAll = -1

// NumTypes returns the types of the value positions requested so far, in
// request order: position p (B.NumPos == p+1) has type NumTypes()[p].
func (b *B) NumTypes() []int { return append([]int(nil), b.numTypes...) }

// numPos registers the next value position and reports whether it carries
// the boundary class.
func (b *B) numPos(typ int) (class int, ok bool) {
	p := len(b.numTypes)
	b.numTypes = append(b.numTypes, typ)
	if b.NumPos == NumAll || b.NumPos == p+1 {
		return b.NumClass % NumClassCount(typ), true
	}
	return 0, false
}

func (b *B) numInt() (string, int64, bool) {
	if c, ok := b.numPos(NumInt); ok {
		v := IntClasses[c]
		return strconv.FormatInt(v, 10), v, true
	}
	return "", 0, false
}

func (b *B) numFloat() (string, float64, bool) {
	if c, ok := b.numPos(NumFloat); ok {
		v, err := strconv.ParseFloat(FloatClasses[c], 64)
		if err != nil {
			panic(err)
		}
		return FloatClasses[c], v, true
	}
	return "", 0, false
}

func (b *B) numTime() (string, time.Time, bool) {
	if c, ok := b.numPos(NumTime); ok {
		return TimeClasses[c].Text, TimeClasses[c].T, true
	}
	return "", time.Time{}, false
}

func (b *B) numNoteDate() (string, osm.Date, bool) {
	if c, ok := b.numPos(NumNoteDate); ok {
		return NoteDateClasses[c].Text, osm.Date{Time: NoteDateClasses[c].T}, true
	}
	return "", osm.Date{}, false
}

// Bool returns the text and value of the next boolean position: "true"
// unless the position carries a boundary class.
func (b *B) Bool() (string, bool) {
	if c, ok := b.numPos(NumBool); ok {
		return BoolClasses[c], BoolClasses[c] == "true"
	}
	return "true", true
}

// ---------------------------------------------------------------- text classes

// Text classes beyond NumTextClasses (TextOf understands them; families that
// enumerate [0, NumTextClasses) never see them).
const (
	TextBlank     = NumTextClasses + iota // white space only: space, newline, tab, space
	TextLong                              // ~4.6 KB with multi-byte characters, longer than the decoder's read buffer
	TextEdgeRunes                         // first / last code points of the UTF-8 widths and of the XML Char ranges, BOM, line separators
	TextZero                              // "0": a string that spells a zero number
	NumTextClassesExt
)

func textExt(c int, base string) (string, bool) {
	switch c {
	case TextBlank:
		return " \n\t ", true
	case TextLong:
		// 11 bytes per unit, so that multi-byte characters straddle every
		// power-of-two buffer boundary
		return base + strings.Repeat("aé√b日c", 420) + "#end", true
	case TextEdgeRunes:
		return "\u007f\u0080\u0085\u07ff\u0800\u2028\u2029\ud7ff\ue000\ufeff\ufffd\U00010000\U0010ffff" + base + "\u00a0", true
	case TextZero:
		return "0", true
	}
	return "", false
}

// ---------------------------------------------------------------- ids

// IDRangeExt extends IDRange (which stays as it is) with zero, the units, the
// 7/8 bit and 31/32 bit widths, the last id below the 40 ref bits, the
// float64 integer limit and the int64 limits.
var IDRangeExt = append(append([]int64(nil), IDRange...),
	0, 1, 127, 128, 1<<31-1, 1<<32, 1<<40-1, -(1 << 40), 1<<53, 1<<53+1, math.MaxInt64, math.MinInt64)

// More places that carry an id; none of them is part of IDAtAll.
const (
	IDAtUID    = IDAtChangeset << (1 + iota) // uid of elements, changesets and comments
	IDAtNoteID                               // <id> of a note
	IDAtUserID                               // id of <user>
)

// ---------------------------------------------------------------- layouts and entity styles

// Layouts beyond NumLayouts.
const (
	LayoutDoctype = NumLayouts + iota // declaration with single quotes and standalone, DOCTYPE, compact body, comment / PI / white space after the root
	LayoutBOM                         // byte order mark, declaration, indented body
	LayoutXMLNS                       // compact, the root declares a default namespace and an unused prefix
	NumLayoutsExt
)

// Entity styles beyond NumEntityStyles.
const (
	EntPadded = NumEntityStyles + iota // lower-case hexadecimal and decimal references with leading zeros, alternating
	NumEntityStylesExt
)

// ---------------------------------------------------------------- more unknown attributes and elements

// UnknownAttrsExt are unknown attributes whose names are close to known ones
// (a known name plus a letter, a known name in upper case, a plural) or whose
// value is empty. None of them is an attribute of any OSM element, so they
// can be added to every element.
var UnknownAttrsExt = []Attr{{"idx", "7"}, {"ID", "77"}, {"refs", "1 2 3"}, {"timestamp2", "2009-01-01T00:00:00Z"}, {"la", "1.5"}, {"foo", ""}}

// NumUnknownKidsExt is the number of shapes understood by UnknownKidExt.
const NumUnknownKidsExt = 9

// UnknownKidExt returns an unknown element whose name is close to a known
// one (never equal to an OSM element name in any letter case).
func UnknownKidExt(which int) *Elem {
	var e *Elem
	switch which % NumUnknownKidsExt {
	case 0:
		e = E("nodes", []Attr{{"id", "1"}, {"lat", "2"}, {"lon", "3"}}, E("tagx", []Attr{{"k", "a"}, {"v", "b"}}))
	case 1:
		e = E("tags", []Attr{{"k", "plural"}, {"v", "not a tag"}})
	case 2:
		e = E("ndx", []Attr{{"ref", "12345"}}, T("idx", "9"), T("texts", "t"))
	case 3:
		e = T("ids", "31337")
	case 4:
		// an unknown wrapper around elements with KNOWN names: what is inside an
		// unknown element is unknown too, whatever it is called
		e = E("history", []Attr{{"of", "x"}},
			E("nd", []Attr{{"ref", "900"}, {"version", "3"}, {"lat", "1"}, {"lon", "2"}}),
			E("tag", []Attr{{"k", "wrapped"}, {"v", "not a tag"}}),
			E("member", []Attr{{"type", "node"}, {"ref", "901"}, {"role", "wrapped"}}),
			E("update", []Attr{{"index", "0"}, {"version", "9"}, {"timestamp", "2012-01-01T00:00:00Z"}}))
	case 6:
		// names with upper-case letters (none of them an OSM element name in another case)
		e = E("osmBase", []Attr{{"at", "2012-01-01T00:00:00Z"}})
	case 7:
		e = E("Remark", nil, T("Line", "free text"), E("X-Info", []Attr{{"k", "v"}}))
	case 8:
		e = E("X-Info", []Attr{{"Ref", "1"}}, E("Inner", nil, E("nd", []Attr{{"ref", "904"}})))
	default:
		// ... two levels down, and with the children a discussion / a note would hold
		e = E("meta", nil, E("inner", nil,
			E("nd", []Attr{{"ref", "902"}}),
			E("tag", []Attr{{"k", "deep"}, {"v", "x"}}),
			E("comment", []Attr{{"uid", "5"}, {"user", "u"}, {"date", "2012-01-01T00:00:00Z"}}, T("text", "wrapped")),
			E("member", []Attr{{"type", "way"}, {"ref", "903"}, {"role", "deep"}}, E("nd", []Attr{{"lat", "1"}, {"lon", "2"}}))))
		// (no element the streaming scanner returns as an object - node, way, relation,
		// changeset, note, user, bounds: it finds those at any depth by design)
	}
	e.Walk(func(x *Elem) { x.Unknown = true })
	return e
}

// WithUnknownAttrOf is WithUnknownAttr with the attribute chosen by the
// caller.
func WithUnknownAttrOf(root *Elem, i int, a Attr) *Elem {
	c := root.Clone()
	n := 0
	done := false
	c.Walk(func(e *Elem) {
		if done || e.Unknown {
			return
		}
		k := len(e.Attrs) + 1
		if i < n+k {
			p := i - n
			e.Attrs = append(e.Attrs[:p:p], append([]Attr{a}, e.Attrs[p:]...)...)
			done = true
			return
		}
		n += k
	})
	return c
}

// WithUnknownKidOf is WithUnknownKid with the element chosen by the caller.
func WithUnknownKidOf(root *Elem, i int, u *Elem) *Elem {
	c := root.Clone()
	n := 0
	done := false
	var rec func(e *Elem)
	rec = func(e *Elem) {
		if done || e.Unknown {
			return
		}
		if !e.Leaf {
			k := len(e.Kids) + 1
			if i < n+k {
				p := i - n
				e.Kids = append(e.Kids[:p:p], append([]*Elem{u}, e.Kids[p:]...)...)
				done = true
				return
			}
			n += k
		}
		for _, kid := range e.Kids {
			rec(kid)
			if done {
				return
			}
		}
	}
	rec(c)
	return c
}
