package xmlgen

import (
	"fmt"

	"github.com/paulmach/osm"
)

// Kinds of top-level objects.
const (
	KindBounds = iota
	KindNode
	KindWay
	KindRelation
	KindChangeset
	KindNote
	KindUser
	NumKinds
)

// KindNames are the element names of the kinds.
var KindNames = []string{"bounds", "node", "way", "relation", "changeset", "note", "user"}

// Obj is one built object: its element and the value a decoder must produce.
type Obj struct {
	Kind int
	Elem *Elem
	Val  osm.Object
}

// Full builds an object of the kind with every optional part present.
func (b *B) Full(kind int) Obj {
	switch kind {
	case KindBounds:
		e, v := b.Bounds(All(NumBoundsAttrs))
		return Obj{kind, e, v}
	case KindNode:
		e, v := b.Node(NodeCfg{Attrs: All(NumNodeAttrs), Tags: 2})
		return Obj{kind, e, v}
	case KindWay:
		e, v := b.Way(FullWay())
		return Obj{kind, e, v}
	case KindRelation:
		e, v := b.Relation(FullRelation())
		return Obj{kind, e, v}
	case KindChangeset:
		e, v := b.Changeset(FullChangeset())
		return Obj{kind, e, v}
	case KindNote:
		e, v := b.Note(FullNote())
		return Obj{kind, e, v}
	case KindUser:
		e, v := b.User(FullUser())
		return Obj{kind, e, v}
	}
	panic(fmt.Sprintf("kind %d", kind))
}

// Small builds a small but non-empty object of the kind (id and a few parts).
func (b *B) Small(kind int) Obj {
	switch kind {
	case KindBounds:
		e, v := b.Bounds(All(NumBoundsAttrs))
		return Obj{kind, e, v}
	case KindNode:
		e, v := b.Node(NodeCfg{Attrs: 0b0010100111, Tags: 1})
		return Obj{kind, e, v}
	case KindWay:
		e, v := b.Way(WayCfg{Attrs: 0b00101001, Nds: []uint{1, 1}, Tags: 1})
		return Obj{kind, e, v}
	case KindRelation:
		e, v := b.Relation(RelationCfg{Attrs: 0b00101001, Members: []MemberCfg{{Attrs: 7, Type: 1}}, Tags: 1})
		return Obj{kind, e, v}
	case KindChangeset:
		e, v := b.Changeset(ChangesetCfg{Attrs: 0b000000001111, Tags: 1})
		return Obj{kind, e, v}
	case KindNote:
		e, v := b.Note(NoteCfg{Parts: 0b1010000111, HasComments: true, Comments: []uint{0b0100101}})
		return Obj{kind, e, v}
	case KindUser:
		e, v := b.User(UserCfg{Parts: 0b00000000111})
		return Obj{kind, e, v}
	}
	panic(fmt.Sprintf("kind %d", kind))
}

// FullWay is a way with everything present: plain and annotated nds, tags,
// updates and bounds.
func FullWay() WayCfg {
	return WayCfg{Attrs: All(NumWayAttrs), Nds: []uint{1, All(NumNdAttrs), 0b01101}, Tags: 2,
		Updates: []uint{All(NumUpdateAttrs), 0b0000111}, Bounds: int(All(NumBoundsAttrs)) + 1}
}

// FullRelation is a relation with members of the three types, annotated
// members, nested nds, tags, updates and bounds.
func FullRelation() RelationCfg {
	return RelationCfg{Attrs: All(NumWayAttrs), Members: []MemberCfg{
		{Attrs: 7, Type: 0},
		{Attrs: All(NumMemberAttrs), Type: 1, Orient: 1, Nds: []uint{0b11001, 0b11001}},
		{Attrs: 0b10000111, Type: 2, Orient: 0},
	}, Tags: 2, Updates: []uint{All(NumUpdateAttrs)}, Bounds: int(All(NumBoundsAttrs)) + 1}
}

// FullChangeset is a changeset with tags and a discussion of two comments.
func FullChangeset() ChangesetCfg {
	return ChangesetCfg{Attrs: All(NumChangesetAttrs), Tags: 2, Discussion: 1,
		Comments: []uint{All(NumCSCommentParts), All(NumCSCommentParts)}}
}

// FullNote is a note with two complete comments.
func FullNote() NoteCfg {
	return NoteCfg{Parts: All(NumNoteParts), HasComments: true,
		Comments: []uint{All(NumNoteCommentParts), All(NumNoteCommentParts)}}
}

// appendTo adds the object to an osm.OSM the way whole-document decoding
// groups it: by kind, in document order inside the kind; bounds replace.
func appendTo(o *osm.OSM, ob Obj) {
	switch v := ob.Val.(type) {
	case *osm.Bounds:
		o.Bounds = v
	case *osm.Node:
		o.Nodes = append(o.Nodes, v)
	case *osm.Way:
		o.Ways = append(o.Ways, v)
	case *osm.Relation:
		o.Relations = append(o.Relations, v)
	case *osm.Changeset:
		o.Changesets = append(o.Changesets, v)
	case *osm.Note:
		o.Notes = append(o.Notes, v)
	case *osm.User:
		o.Users = append(o.Users, v)
	default:
		panic("unknown object")
	}
}

// NumRootAttrs is the number of optional attributes of <osm> / <osmChange>
// (version generator copyright attribution license).
const NumRootAttrs = 5

func (b *B) rootAttrs(mask uint) ([]Attr, [5]string) {
	var at []Attr
	var v [5]string
	names := []string{"version", "generator", "copyright", "attribution", "license"}
	bases := []string{"0.6", "verif xmlgen 1.0", "OpenStreetMap and contributors",
		"http://www.openstreetmap.org/copyright", "http://opendatacommons.org/licenses/odbl/1-0/"}
	for i := range names {
		if bit(mask, i) {
			v[i] = b.S(bases[i])
			at = append(at, Attr{names[i], v[i]})
		}
	}
	return at, v
}

// OSMDoc is an <osm> document and what decoding it must give.
type OSMDoc struct {
	Root  *Elem
	Want  *osm.OSM
	Order []osm.Object // the objects in document order
}

// OSMDocOf assembles an <osm> document with the root attributes in mask and
// the objects as children in the given order.
func (b *B) OSMDocOf(mask uint, objs []Obj) OSMDoc {
	at, rv := b.rootAttrs(mask)
	d := OSMDoc{Want: &osm.OSM{Version: rv[0], Generator: rv[1], Copyright: rv[2], Attribution: rv[3], License: rv[4]}}
	var kids []*Elem
	for _, o := range objs {
		kids = append(kids, o.Elem)
		appendTo(d.Want, o)
		d.Order = append(d.Order, o.Val)
	}
	d.Root = E("osm", at, kids...)
	return d
}

// Block is one action block of an osmChange document.
type Block struct {
	Action string // create, modify or delete
	Objs   []Obj
}

// ChangeDoc is an <osmChange> document and what decoding it must give.
type ChangeDoc struct {
	Root  *Elem
	Want  *osm.Change
	Order []osm.Object
}

// ChangeDocOf assembles an osmChange document. Blocks of the same action may
// repeat and interleave: the decoded container accumulates them in order.
func (b *B) ChangeDocOf(mask uint, blocks []Block) ChangeDoc {
	at, rv := b.rootAttrs(mask)
	d := ChangeDoc{Want: &osm.Change{Version: rv[0], Generator: rv[1], Copyright: rv[2], Attribution: rv[3], License: rv[4]}}
	var kids []*Elem
	for _, bl := range blocks {
		var slot **osm.OSM
		switch bl.Action {
		case "create":
			slot = &d.Want.Create
		case "modify":
			slot = &d.Want.Modify
		case "delete":
			slot = &d.Want.Delete
		default:
			panic("action " + bl.Action)
		}
		if *slot == nil {
			*slot = &osm.OSM{}
		}
		var bk []*Elem
		for _, o := range bl.Objs {
			bk = append(bk, o.Elem)
			appendTo(*slot, o)
			d.Order = append(d.Order, o.Val)
		}
		kids = append(kids, E(bl.Action, nil, bk...))
	}
	d.Root = E("osmChange", at, kids...)
	return d
}

// ActionCfg is one <action> of an augmented diff.
type ActionCfg struct {
	Type     string // value of the type attribute
	NoType   bool   // omit the type attribute
	Direct   *Obj   // element directly inside <action> (create actions)
	Old      []Obj  // children of <old> when HasOld
	HasOld   bool
	New      []Obj
	HasNew   bool
	NewFirst bool // write <new> before <old>
}

// DiffDoc is an augmented diff document and what decoding it must give.
type DiffDoc struct {
	Root  *Elem
	Want  *osm.Diff
	Order []osm.Object
}

// DiffDocOf assembles an augmented diff: <osm> with <action> children
// followed by optional changesets.
func (b *B) DiffDocOf(actions []ActionCfg, changesets []Obj) DiffDoc {
	d := DiffDoc{Want: &osm.Diff{}}
	var kids []*Elem
	for _, a := range actions {
		var at []Attr
		av := osm.Action{}
		if !a.NoType {
			t := b.S(a.Type)
			at = append(at, Attr{"type", t})
			av.Type = osm.ActionType(t)
		}
		var ak []*Elem
		if a.Direct != nil {
			ak = append(ak, a.Direct.Elem)
			av.OSM = &osm.OSM{}
			appendTo(av.OSM, *a.Direct)
			d.Order = append(d.Order, a.Direct.Val)
		}
		side := func(name string, objs []Obj) (*Elem, *osm.OSM, []osm.Object) {
			o := &osm.OSM{}
			var sk []*Elem
			var ord []osm.Object
			for _, ob := range objs {
				sk = append(sk, ob.Elem)
				appendTo(o, ob)
				ord = append(ord, ob.Val)
			}
			return E(name, nil, sk...), o, ord
		}
		var oldE, newE *Elem
		var oldOrd, newOrd []osm.Object
		if a.HasOld {
			oldE, av.Old, oldOrd = side("old", a.Old)
		}
		if a.HasNew {
			newE, av.New, newOrd = side("new", a.New)
		}
		if a.NewFirst {
			if newE != nil {
				ak = append(ak, newE)
				d.Order = append(d.Order, newOrd...)
			}
			if oldE != nil {
				ak = append(ak, oldE)
				d.Order = append(d.Order, oldOrd...)
			}
		} else {
			if oldE != nil {
				ak = append(ak, oldE)
				d.Order = append(d.Order, oldOrd...)
			}
			if newE != nil {
				ak = append(ak, newE)
				d.Order = append(d.Order, newOrd...)
			}
		}
		kids = append(kids, E("action", at, ak...))
		d.Want.Actions = append(d.Want.Actions, av)
	}
	for _, c := range changesets {
		kids = append(kids, c.Elem)
		d.Want.Changesets = append(d.Want.Changesets, c.Val.(*osm.Changeset))
		d.Order = append(d.Order, c.Val)
	}
	d.Root = E("osm", nil, kids...)
	return d
}
