// Package xmlgen is an independent OSM XML writer for the checks in /verif.
//
// It never uses encoding/xml (or any /repo code) to produce text: documents
// are small element trees (Elem) written out by Render under a Style that
// chooses attribute order, whitespace layout, comments, self-closing versus
// paired empty tags, quoting and the way special characters are escaped.
// build.go / docs.go construct, side by side, the element tree of an OSM
// object or document and the Go value (github.com/paulmach/osm types) that a
// faithful decoder must produce from it; the Go value is assembled directly
// from the same constants, never by decoding.
package xmlgen

import (
	"fmt"
	"strings"
)

// Attr is one attribute of an element.
type Attr struct {
	Name string
	Val  string
}

// Elem is one element of the abstract document.
type Elem struct {
	Name  string
	Attrs []Attr
	Kids  []*Elem
	// Leaf elements carry character data (Text) instead of child elements.
	Leaf bool
	Text string
	// Unknown marks elements that are not part of the OSM XML vocabulary.
	Unknown bool
}

// E builds an element with children.
func E(name string, attrs []Attr, kids ...*Elem) *Elem {
	return &Elem{Name: name, Attrs: attrs, Kids: kids}
}

// T builds a leaf element with text content.
func T(name, text string) *Elem { return &Elem{Name: name, Leaf: true, Text: text} }

// Clone returns a deep copy.
func (e *Elem) Clone() *Elem {
	if e == nil {
		return nil
	}
	c := *e
	c.Attrs = append([]Attr(nil), e.Attrs...)
	c.Kids = make([]*Elem, len(e.Kids))
	for i, k := range e.Kids {
		c.Kids[i] = k.Clone()
	}
	return &c
}

// Walk calls f for e and every descendant, depth first, in document order.
func (e *Elem) Walk(f func(*Elem)) {
	f(e)
	for _, k := range e.Kids {
		k.Walk(f)
	}
}

// Layouts.
const (
	LayoutCompact  = iota // no whitespace between elements
	LayoutIndent          // newline + two spaces per level
	LayoutComments        // indented, comments and processing instructions between elements, comments inside text
	LayoutProlog          // XML declaration, CRLF line ends, tab indentation, whitespace inside tags
	NumLayouts
)

// Entity styles.
const (
	EntNamed = iota // &lt; &amp; &gt; &quot; &apos;, non-ASCII raw
	EntDec          // &#60; ... non-ASCII as decimal references too
	EntHex          // &#x3C; ... non-ASCII as hexadecimal references too
	EntCDATA        // CDATA sections in text (attributes: named, only what must be escaped)
	NumEntityStyles
)

// Style selects one concrete spelling of a document.
type Style struct {
	Layout    int  `json:"layout"`
	SelfClose bool `json:"self_close"` // write empty elements as <a/> instead of <a></a>
	Order     int  `json:"order"`      // index into Orders(n) for every element (taken modulo the number of orders)
	Entity    int  `json:"entity"`
	Single    bool `json:"single_quotes"` // attribute values in '...' instead of "..."
}

func (s Style) String() string {
	return fmt.Sprintf("layout=%d selfclose=%v order=%d entity=%d single=%v", s.Layout, s.SelfClose, s.Order, s.Entity, s.Single)
}

// Orders returns the attribute orders enumerated for an element with n
// attributes: all n! permutations for n <= 4, otherwise the n rotations, the
// reversal and the n-1 rotations of the reversal. Orders(n)[0] is the identity.
func Orders(n int) [][]int {
	id := make([]int, n)
	for i := range id {
		id[i] = i
	}
	if n <= 1 {
		return [][]int{id}
	}
	if n <= 4 {
		var out [][]int
		var rec func(cur []int, used []bool)
		rec = func(cur []int, used []bool) {
			if len(cur) == n {
				out = append(out, append([]int(nil), cur...))
				return
			}
			for i := 0; i < n; i++ {
				if !used[i] {
					used[i] = true
					rec(append(cur, i), used)
					used[i] = false
				}
			}
		}
		rec(nil, make([]bool, n))
		return out
	}
	var out [][]int
	for r := 0; r < n; r++ {
		p := make([]int, n)
		for i := range p {
			p[i] = (i + r) % n
		}
		out = append(out, p)
	}
	for r := 0; r < n; r++ {
		p := make([]int, n)
		for i := range p {
			p[i] = (n - 1 - i + r + n) % n
		}
		out = append(out, p)
	}
	return out
}

// NumOrders is len(Orders(n)) without building them.
func NumOrders(n int) int {
	switch {
	case n <= 1:
		return 1
	case n == 2:
		return 2
	case n == 3:
		return 6
	case n == 4:
		return 24
	}
	return 2 * n
}

// MaxOrders returns the largest number of attribute orders over all elements
// of the tree: Style.Order in [0, MaxOrders) visits every order of every
// element at least once.
func MaxOrders(e *Elem) int {
	m := 1
	e.Walk(func(x *Elem) {
		if k := NumOrders(len(x.Attrs)); k > m {
			m = k
		}
	})
	return m
}

// Render writes the document rooted at root.
func Render(root *Elem, st Style) string {
	var sb strings.Builder
	w := writer{sb: &sb, st: st}
	switch st.Layout {
	case LayoutProlog:
		sb.WriteString("<?xml version=\"1.0\" encoding=\"UTF-8\"?>\r\n")
	case LayoutComments:
		sb.WriteString("<!-- generated -->\n<?verif-pi some data?>\n")
	case LayoutDoctype:
		sb.WriteString("<?xml version='1.0' encoding='utf-8' standalone='yes'?>\n<!DOCTYPE " + root.Name + ">\n")
	case LayoutBOM:
		sb.WriteString("\ufeff<?xml version=\"1.0\" encoding=\"UTF-8\"?>\n")
	}
	w.elem(root, 0)
	switch st.Layout {
	case LayoutDoctype:
		sb.WriteString("\n<!-- end -->\n<?verif-pi done?>\n  \n")
	case LayoutBOM:
		sb.WriteString("\n")
	case LayoutComments:
		sb.WriteString("\n<!-- end -->\n")
	case LayoutIndent:
		sb.WriteString("\n")
	case LayoutProlog:
		sb.WriteString("\r\n")
	}
	return sb.String()
}

type writer struct {
	sb *strings.Builder
	st Style
	nc int
}

func (w *writer) nl(depth int) {
	switch w.st.Layout {
	case LayoutIndent, LayoutComments, LayoutBOM:
		w.sb.WriteByte('\n')
		for i := 0; i < depth; i++ {
			w.sb.WriteString("  ")
		}
	case LayoutProlog:
		w.sb.WriteString("\r\n")
		for i := 0; i < depth; i++ {
			w.sb.WriteByte('\t')
		}
	}
}

func (w *writer) comment() {
	w.nc++
	// comment bodies contain markup-looking text that must stay inert
	fmt.Fprintf(w.sb, "<!-- c%d <node id=\"9\"/> & -->", w.nc)
}

func (w *writer) elem(e *Elem, depth int) {
	sb := w.sb
	sb.WriteByte('<')
	sb.WriteString(e.Name)
	if depth == 0 && w.st.Layout == LayoutXMLNS {
		// namespace declarations are not attributes of the vocabulary
		sb.WriteString(` xmlns="http://openstreetmap.org/osm/0.6" xmlns:vx="urn:x-verif"`)
	}
	if n := len(e.Attrs); n > 0 {
		ords := Orders(n)
		ord := ords[w.st.Order%len(ords)]
		for _, i := range ord {
			a := e.Attrs[i]
			if w.st.Layout == LayoutProlog {
				sb.WriteString("\r\n")
				for k := 0; k <= depth+1; k++ {
					sb.WriteByte('\t')
				}
				sb.WriteString(a.Name)
				sb.WriteString(" = ")
			} else {
				sb.WriteByte(' ')
				sb.WriteString(a.Name)
				sb.WriteByte('=')
			}
			q := byte('"')
			if w.st.Single {
				q = '\''
			}
			sb.WriteByte(q)
			sb.WriteString(EscapeAttr(a.Val, w.st.Entity, q))
			sb.WriteByte(q)
		}
	}
	empty := (e.Leaf && e.Text == "") || (!e.Leaf && len(e.Kids) == 0)
	if empty && w.st.SelfClose {
		if w.st.Layout == LayoutProlog {
			sb.WriteByte(' ')
		}
		sb.WriteString("/>")
		return
	}
	if w.st.Layout == LayoutProlog {
		sb.WriteByte(' ') // whitespace before '>' is legal
	}
	sb.WriteByte('>')
	if e.Leaf {
		if w.st.Layout == LayoutComments && len(e.Text) >= 2 {
			// a comment in the middle of character data (split at a rune boundary)
			cut := len(e.Text) / 2
			for cut > 0 && cut < len(e.Text) && !runeStart(e.Text[cut]) {
				cut--
			}
			sb.WriteString(EscapeText(e.Text[:cut], w.st.Entity))
			w.comment()
			sb.WriteString(EscapeText(e.Text[cut:], w.st.Entity))
		} else {
			sb.WriteString(EscapeText(e.Text, w.st.Entity))
		}
	} else {
		for _, k := range e.Kids {
			if w.st.Layout == LayoutComments {
				w.nl(depth + 1)
				w.comment()
			}
			w.nl(depth + 1)
			w.elem(k, depth+1)
		}
		if len(e.Kids) > 0 {
			if w.st.Layout == LayoutComments {
				w.nl(depth + 1)
				w.comment()
			}
			w.nl(depth)
		} else if w.st.Layout == LayoutComments {
			w.comment()
		}
	}
	sb.WriteString("</")
	sb.WriteString(e.Name)
	if w.st.Layout == LayoutProlog {
		sb.WriteByte(' ')
	}
	sb.WriteByte('>')
}

func runeStart(b byte) bool { return b&0xC0 != 0x80 }

func numeric(style int) bool { return style == EntDec || style == EntHex || style == EntPadded }

func ref(r rune, style int) string {
	if style == EntPadded {
		// leading zeros are legal in both forms, hexadecimal digits in either case
		if r%2 == 0 {
			return fmt.Sprintf("&#x%06x;", r)
		}
		return fmt.Sprintf("&#%07d;", r)
	}
	if style == EntHex {
		return fmt.Sprintf("&#x%X;", r)
	}
	return fmt.Sprintf("&#%d;", r)
}

func named(r rune) string {
	switch r {
	case '<':
		return "&lt;"
	case '>':
		return "&gt;"
	case '&':
		return "&amp;"
	case '"':
		return "&quot;"
	case '\'':
		return "&apos;"
	}
	return string(r)
}

// EscapeAttr spells an attribute value for quote character q.
// Tab, newline and carriage return are always written as character
// references (a literal one would be subject to attribute-value
// normalisation by conforming parsers).
func EscapeAttr(s string, style int, q byte) string {
	var sb strings.Builder
	prev := rune(0)
	for _, r := range s {
		p := prev
		prev = r
		switch {
		case r == '\t' || r == '\n' || r == '\r':
			sb.WriteString(ref(r, style))
		case r == '>' && p == ']' && style != EntDec:
			// never spell "]]>" literally outside a CDATA section
			sb.WriteString(named(r))
		case r == '<' || r == '&' || r == rune(q):
			if numeric(style) {
				sb.WriteString(ref(r, style))
			} else {
				sb.WriteString(named(r))
			}
		case r == '>' || r == '"' || r == '\'':
			// not required; escaped in the named style, raw or numeric otherwise
			switch style {
			case EntNamed:
				sb.WriteString(named(r))
			case EntDec:
				sb.WriteString(ref(r, style))
			default:
				sb.WriteRune(r)
			}
		case r > 0x7e && numeric(style):
			sb.WriteString(ref(r, style))
		default:
			sb.WriteRune(r)
		}
	}
	return sb.String()
}

// EscapeText spells character data.
func EscapeText(s string, style int) string {
	var sb strings.Builder
	if style == EntCDATA {
		if s == "" {
			return ""
		}
		if strings.Contains(s, "]]>") { // would end the section early
			return EscapeText(s, EntNamed)
		}
		open := false
		for _, r := range s {
			if r == '\r' { // a literal CR would be normalised to LF, even in CDATA
				if open {
					sb.WriteString("]]>")
					open = false
				}
				sb.WriteString("&#13;")
				continue
			}
			if !open {
				sb.WriteString("<![CDATA[")
				open = true
			}
			sb.WriteRune(r)
		}
		if open {
			sb.WriteString("]]>")
		}
		return sb.String()
	}
	prev := rune(0)
	for _, r := range s {
		p := prev
		prev = r
		switch {
		case r == '\r':
			sb.WriteString(ref(r, style))
		case r == '>' && p == ']' && style == EntDec:
			// never spell "]]>" literally outside a CDATA section
			sb.WriteString(ref(r, style))
		case r == '<' || r == '&':
			if style == EntNamed {
				sb.WriteString(named(r))
			} else {
				sb.WriteString(ref(r, style))
			}
		case r == '>' || r == '"' || r == '\'':
			switch style {
			case EntNamed:
				sb.WriteString(named(r))
			case EntHex, EntPadded:
				sb.WriteString(ref(r, style))
			default:
				sb.WriteRune(r)
			}
		case r > 0x7e && numeric(style):
			sb.WriteString(ref(r, style))
		default:
			sb.WriteRune(r)
		}
	}
	return sb.String()
}
