package xmlgen

import "strings"

// Schema is the vocabulary of one OSM XML element: its attribute names and its
// child elements. The table below is written from the OSM XML / osmChange /
// augmented diff formats (all names lower-case apart from the osmChange root),
// plus the annotation extensions of the library under test that the round-trip
// property names explicitly (committed, update, orientation, annotated nd,
// element bounds, bounds inside change blocks and diff sides).
type Schema struct {
	Attrs string // space separated
	Kids  map[string]*Schema
}

// HasAttr reports whether name is an attribute of the element.
func (s *Schema) HasAttr(name string) bool {
	for _, a := range strings.Fields(s.Attrs) {
		if a == name {
			return true
		}
	}
	return false
}

var (
	sText = &Schema{}
	sTag  = &Schema{Attrs: "k v"}
	sNd   = &Schema{Attrs: "ref version changeset lat lon"}

	sBounds = &Schema{Attrs: "minlat minlon maxlat maxlon origin"}
	sUpdate = &Schema{Attrs: "index version timestamp changeset lat lon reverse"}

	metaAttrs = "id user uid visible version changeset timestamp committed"

	sNode   = &Schema{Attrs: metaAttrs + " lat lon", Kids: map[string]*Schema{"tag": sTag}}
	sWay    = &Schema{Attrs: metaAttrs, Kids: map[string]*Schema{"nd": sNd, "tag": sTag, "update": sUpdate, "bounds": sBounds}}
	sMember = &Schema{Attrs: "type ref role version changeset lat lon orientation", Kids: map[string]*Schema{"nd": sNd}}
	sRel    = &Schema{Attrs: metaAttrs, Kids: map[string]*Schema{"member": sMember, "tag": sTag, "update": sUpdate, "bounds": sBounds}}

	sChangeset = &Schema{
		Attrs: "id user uid created_at closed_at open num_changes changes_count min_lat max_lat min_lon max_lon comments_count",
		Kids: map[string]*Schema{"tag": sTag, "discussion": {Kids: map[string]*Schema{
			"comment": {Attrs: "id user uid date visible", Kids: map[string]*Schema{"text": sText}}}}},
	}
	sNote = &Schema{Attrs: "lat lon", Kids: map[string]*Schema{
		"id": sText, "url": sText, "comment_url": sText, "close_url": sText, "reopen_url": sText,
		"date_created": sText, "date_closed": sText, "status": sText,
		"comments": {Kids: map[string]*Schema{"comment": {Kids: map[string]*Schema{
			"date": sText, "uid": sText, "user": sText, "user_url": sText, "action": sText, "text": sText, "html": sText}}}},
	}}
	sUser = &Schema{Attrs: "id display_name account_created", Kids: map[string]*Schema{
		"description": sText, "img": {Attrs: "href"}, "changesets": {Attrs: "count"}, "traces": {Attrs: "count"},
		"home":              {Attrs: "lat lon zoom"},
		"languages":         {Kids: map[string]*Schema{"lang": sText}},
		"blocks":            {Kids: map[string]*Schema{"received": {Attrs: "count active"}, "issued": {Attrs: "count active"}}},
		"messages":          {Kids: map[string]*Schema{"received": {Attrs: "count unread"}, "sent": {Attrs: "count"}}},
		"roles":             {Kids: map[string]*Schema{"moderator": sText, "administrator": sText}},
		"contributor-terms": {Attrs: "agreed pd"},
	}}

	sInner = &Schema{Kids: map[string]*Schema{"bounds": sBounds, "node": sNode, "way": sWay, "relation": sRel,
		"changeset": sChangeset, "note": sNote, "user": sUser}}
	sAction = &Schema{Attrs: "type", Kids: map[string]*Schema{"node": sNode, "way": sWay, "relation": sRel, "old": sInner, "new": sInner}}

	rootAttrs = "version generator copyright attribution license"

	sOSM = &Schema{Attrs: rootAttrs, Kids: map[string]*Schema{"bounds": sBounds, "node": sNode, "way": sWay, "relation": sRel,
		"changeset": sChangeset, "note": sNote, "user": sUser, "action": sAction}}
	sChange = &Schema{Attrs: rootAttrs, Kids: map[string]*Schema{"create": sInner, "modify": sInner, "delete": sInner}}
)

// Roots maps a document / fragment root element name to its schema.
var Roots = map[string]*Schema{
	"osm": sOSM, "osmChange": sChange,
	"bounds": sBounds, "node": sNode, "way": sWay, "relation": sRel,
	"changeset": sChangeset, "note": sNote, "user": sUser,
}
