package xmlgen

import (
	"fmt"
	"strconv"
	"time"

	"github.com/paulmach/orb"
	"github.com/paulmach/osm"
)

// Text classes for string positions.
const (
	TextPlain   = iota // the base string
	TextEscape         // characters that need escaping: < & > " '
	TextUnicode        // non-ASCII: 2, 3 and 4 byte UTF-8
	TextSpaces         // leading, inner and trailing spaces
	TextControl        // newline, tab and carriage return
	TextMarkup         // text that spells markup: ]]> <!--x--> &amp; <![CDATA[y]]>
	TextEmpty          // the empty string
	NumTextClasses
)

// TextOf returns the string of class c derived from base.
func TextOf(c int, base string) string {
	switch c {
	case TextEscape:
		return base + `<b&c>d"e'f`
	case TextUnicode:
		return "é√" + base + "日本🙂"
	case TextSpaces:
		return "  " + base + " x  "
	case TextControl:
		return base + "\nl2\tz\rq"
	case TextMarkup:
		return base + `]]> <!--x--> &amp; <![CDATA[y]]>`
	case TextEmpty:
		return ""
	}
	if s, ok := textExt(c, base); ok {
		return s
	}
	return base
}

// B is the context of one build: it makes the values of different elements
// distinct (Seed), decides which string position carries a special text class
// and whether timestamps carry fractional seconds.
type B struct {
	Seed      int
	TextPos   int // index of the string position that gets TextClass; -1 for none
	TextClass int
	Nanos     bool // RFC 3339 timestamps with nanoseconds (note dates never carry any)
	ZoneForm  int  // 0: "Z"; 1: "+00:00"; 2: "+05:30" offset (same instant arithmetic done here)

	// ForceID, when non-nil, replaces the generated value in the id positions
	// selected by ForceWhere (a bit set of the IDAt* constants): the id-range
	// families put boundary ids (negative placeholder ids, ids of 2^31 and
	// beyond, ids whose bits reach the type bits of packed object ids) into
	// every id-carrying place.
	ForceID    *int64
	ForceWhere uint

	// NumPos, when non-zero, selects the value position (integer, decimal,
	// timestamp, note date or boolean; 1-based, in request order, NumAll for
	// every position) that carries boundary class NumClass of its type
	// instead of the generated value (see boundary.go).
	NumPos   int
	NumClass int

	pos      int
	numTypes []int
}

// Places that carry an id.
const (
	IDAtElem      = 1 << iota // id of node / way / relation
	IDAtNdRef                 // ref of <nd>
	IDAtMemberRef             // ref of <member>
	IDAtChangeset             // id of <changeset> and the changeset attribute of elements, nds, members and updates
	IDAtAll       = IDAtElem | IDAtNdRef | IDAtMemberRef | IDAtChangeset
)

// IDRange is the boundary id set of the id-range families: the usual editor
// placeholder id, the int32 limits, and ids at and beyond 2^40 whose bits
// collide with the type bits of a packed object id (id<<16 | type | version).
var IDRange = []int64{-1, -2147483648, 1 << 31, 1 << 40, 1<<40 + 1, 1<<44 + 5, 1 << 62}

// ID is I for an id position of the given place.
func (b *B) ID(base int64, where uint) (string, int64) {
	if b.ForceID != nil && b.ForceWhere&where != 0 {
		return strconv.FormatInt(*b.ForceID, 10), *b.ForceID
	}
	return b.I(base)
}

// NewB returns a context with no special text position.
func NewB(seed int) *B { return &B{Seed: seed, TextPos: -1} }

// Positions is the number of string positions requested so far.
func (b *B) Positions() int { return b.pos }

// S returns the text for the next string position.
func (b *B) S(base string) string {
	p := b.pos
	b.pos++
	if p == b.TextPos {
		return TextOf(b.TextClass, base)
	}
	return base
}

func (b *B) next() int { b.Seed++; return b.Seed }

// I returns a distinct positive integer and its decimal text.
func (b *B) I(base int64) (string, int64) {
	if s, v, ok := b.numInt(); ok {
		return s, v
	}
	v := base + int64(b.Seed)
	return strconv.FormatInt(v, 10), v
}

// more digits than the 1e-7 degree grid of the PBF / API formats: XML carries
// whatever was written, decoding must not snap it to a grid
var fracs = []string{"5", "25", "125", "75", "0625", "375", "1234567", "9999999", "123456789", "99999999", "00000001", "7654321987654"}

// F returns a coordinate-like value and its decimal text. The text is written
// from an integer part and a fraction literal; the value is the correctly
// rounded float64 of that decimal (strconv, not the code under test).
func (b *B) F(whole int, k int) (string, float64) {
	if s, v, ok := b.numFloat(); ok {
		return s, v
	}
	i := (b.Seed + k) % len(fracs)
	w := whole + b.Seed%7
	neg := (b.Seed+k)%3 == 1
	txt := fmt.Sprintf("%d.%s", w, fracs[i])
	if neg {
		txt = "-" + txt
	}
	v, err := strconv.ParseFloat(txt, 64)
	if err != nil {
		panic(err)
	}
	return txt, v
}

// Time returns an RFC 3339 timestamp text and its instant; k separates the
// different time fields of one element.
func (b *B) Time(k int) (string, time.Time) {
	if s, v, ok := b.numTime(); ok {
		return s, v
	}
	y, mo, d := 2009+k, 1+(b.Seed+k)%12, 1+(b.Seed*3+k)%28
	h, mi, s := (3+k)%24, (4+b.Seed)%60, (5+k*7)%60
	ns := 0
	frac := ""
	if b.Nanos {
		ns = 123456789
		frac = ".123456789"
	}
	t := time.Date(y, time.Month(mo), d, h, mi, s, ns, time.UTC)
	switch b.ZoneForm {
	case 1:
		return fmt.Sprintf("%04d-%02d-%02dT%02d:%02d:%02d%s+00:00", y, mo, d, h, mi, s, frac), t
	case 2:
		// the same wall clock read in +05:30 is 5h30m earlier as an instant
		return fmt.Sprintf("%04d-%02d-%02dT%02d:%02d:%02d%s+05:30", y, mo, d, h, mi, s, frac), t.Add(-(5*time.Hour + 30*time.Minute))
	}
	return fmt.Sprintf("%04d-%02d-%02dT%02d:%02d:%02d%sZ", y, mo, d, h, mi, s, frac), t
}

// NoteDate returns a note date text ("2006-01-02 15:04:05 UTC") and its instant.
func (b *B) NoteDate(k int) (string, osm.Date) {
	if s, v, ok := b.numNoteDate(); ok {
		return s, v
	}
	y, mo, d := 2011+k, 1+(b.Seed+k)%12, 1+(b.Seed*5+k)%28
	h, mi, s := (7+k)%24, (8+b.Seed)%60, (9+k*11)%60
	t := time.Date(y, time.Month(mo), d, h, mi, s, 0, time.UTC)
	return fmt.Sprintf("%04d-%02d-%02d %02d:%02d:%02d UTC", y, mo, d, h, mi, s), osm.Date{Time: t}
}

func bit(m uint, i int) bool { return m&(1<<uint(i)) != 0 }

// All returns the mask with the n lowest bits set.
func All(n int) uint { return 1<<uint(n) - 1 }

// ---------------------------------------------------------------- tags

func (b *B) tags(n int) ([]*Elem, osm.Tags) {
	var es []*Elem
	var ts osm.Tags
	for i := 0; i < n; i++ {
		k := b.S(fmt.Sprintf("key%d", i))
		v := b.S(fmt.Sprintf("value %d", i))
		es = append(es, E("tag", []Attr{{"k", k}, {"v", v}}))
		ts = append(ts, osm.Tag{Key: k, Value: v})
	}
	return es, ts
}

// ---------------------------------------------------------------- bounds

// NumBoundsAttrs is the number of optional attributes of <bounds>.
const NumBoundsAttrs = 4

// Bounds builds <bounds> with the attributes selected by mask
// (minlat, minlon, maxlat, maxlon).
func (b *B) Bounds(mask uint) (*Elem, *osm.Bounds) {
	b.next()
	v := &osm.Bounds{}
	var at []Attr
	if bit(mask, 0) {
		s, f := b.F(10, 0)
		at = append(at, Attr{"minlat", s})
		v.MinLat = f
	}
	if bit(mask, 1) {
		s, f := b.F(20, 1)
		at = append(at, Attr{"minlon", s})
		v.MinLon = f
	}
	if bit(mask, 2) {
		s, f := b.F(30, 2)
		at = append(at, Attr{"maxlat", s})
		v.MaxLat = f
	}
	if bit(mask, 3) {
		s, f := b.F(40, 3)
		at = append(at, Attr{"maxlon", s})
		v.MaxLon = f
	}
	return E("bounds", at), v
}

// ---------------------------------------------------------------- element metadata shared by node/way/relation

type meta struct {
	user      string
	uid       int64
	visible   bool
	version   int64
	changeset int64
	timestamp time.Time
	committed *time.Time
}

// metaAttrs handles user, uid, visible, version, changeset, timestamp,
// committed: 7 bits starting at bit `from` of mask.
func (b *B) metaAttrs(mask uint, from int) ([]Attr, meta) {
	var at []Attr
	var m meta
	if bit(mask, from) {
		m.user = b.S("mapper")
		at = append(at, Attr{"user", m.user})
	}
	if bit(mask, from+1) {
		var s string
		s, m.uid = b.ID(4200, IDAtUID)
		at = append(at, Attr{"uid", s})
	}
	if bit(mask, from+2) {
		// visible="true" is the informative value: absent decodes as false
		var s string
		s, m.visible = b.Bool()
		at = append(at, Attr{"visible", s})
	}
	if bit(mask, from+3) {
		var s string
		s, m.version = b.I(2)
		at = append(at, Attr{"version", s})
	}
	if bit(mask, from+4) {
		var s string
		s, m.changeset = b.ID(98765432100, IDAtChangeset)
		at = append(at, Attr{"changeset", s})
	}
	if bit(mask, from+5) {
		var s string
		s, m.timestamp = b.Time(0)
		at = append(at, Attr{"timestamp", s})
	}
	if bit(mask, from+6) {
		s, t := b.Time(1)
		m.committed = &t
		at = append(at, Attr{"committed", s})
	}
	return at, m
}

// ---------------------------------------------------------------- node

// NodeCfg selects the shape of a <node>.
type NodeCfg struct {
	Attrs uint `json:"attrs"` // bits: id lat lon user uid visible version changeset timestamp committed
	Tags  int  `json:"tags"`
}

// NumNodeAttrs is the number of optional node attributes.
const NumNodeAttrs = 10

// Node builds a <node>.
func (b *B) Node(c NodeCfg) (*Elem, *osm.Node) {
	b.next()
	v := &osm.Node{}
	var at []Attr
	if bit(c.Attrs, 0) {
		s, i := b.ID(5000000000, IDAtElem)
		at = append(at, Attr{"id", s})
		v.ID = osm.NodeID(i)
	}
	if bit(c.Attrs, 1) {
		s, f := b.F(51, 0)
		at = append(at, Attr{"lat", s})
		v.Lat = f
	}
	if bit(c.Attrs, 2) {
		s, f := b.F(113, 1)
		at = append(at, Attr{"lon", s})
		v.Lon = f
	}
	ma, m := b.metaAttrs(c.Attrs, 3)
	at = append(at, ma...)
	v.User, v.UserID, v.Visible, v.Version = m.user, osm.UserID(m.uid), m.visible, int(m.version)
	v.ChangesetID, v.Timestamp, v.Committed = osm.ChangesetID(m.changeset), m.timestamp, m.committed
	kids, tags := b.tags(c.Tags)
	v.Tags = tags
	return E("node", at, kids...), v
}

// ---------------------------------------------------------------- nd / update

// NumNdAttrs is the number of optional <nd> attributes (ref version changeset lat lon).
const NumNdAttrs = 5

func (b *B) nd(mask uint) (*Elem, osm.WayNode) {
	b.next()
	var v osm.WayNode
	var at []Attr
	if bit(mask, 0) {
		s, i := b.ID(700, IDAtNdRef)
		at = append(at, Attr{"ref", s})
		v.ID = osm.NodeID(i)
	}
	if bit(mask, 1) {
		s, i := b.I(3)
		at = append(at, Attr{"version", s})
		v.Version = int(i)
	}
	if bit(mask, 2) {
		s, i := b.ID(31000, IDAtChangeset)
		at = append(at, Attr{"changeset", s})
		v.ChangesetID = osm.ChangesetID(i)
	}
	if bit(mask, 3) {
		s, f := b.F(47, 2)
		at = append(at, Attr{"lat", s})
		v.Lat = f
	}
	if bit(mask, 4) {
		s, f := b.F(8, 3)
		at = append(at, Attr{"lon", s})
		v.Lon = f
	}
	return E("nd", at), v
}

func (b *B) nds(masks []uint) ([]*Elem, osm.WayNodes) {
	var es []*Elem
	var vs osm.WayNodes
	for _, m := range masks {
		e, v := b.nd(m)
		es = append(es, e)
		vs = append(vs, v)
	}
	return es, vs
}

// NumUpdateAttrs is the number of optional <update> attributes
// (index version timestamp changeset lat lon reverse).
const NumUpdateAttrs = 7

func (b *B) update(mask uint) (*Elem, osm.Update) {
	b.next()
	var v osm.Update
	var at []Attr
	if bit(mask, 0) {
		s, i := b.I(1)
		at = append(at, Attr{"index", s})
		v.Index = int(i)
	}
	if bit(mask, 1) {
		s, i := b.I(4)
		at = append(at, Attr{"version", s})
		v.Version = int(i)
	}
	if bit(mask, 2) {
		s, t := b.Time(2)
		at = append(at, Attr{"timestamp", s})
		v.Timestamp = t
	}
	if bit(mask, 3) {
		s, i := b.ID(52000, IDAtChangeset)
		at = append(at, Attr{"changeset", s})
		v.ChangesetID = osm.ChangesetID(i)
	}
	if bit(mask, 4) {
		s, f := b.F(12, 4)
		at = append(at, Attr{"lat", s})
		v.Lat = f
	}
	if bit(mask, 5) {
		s, f := b.F(77, 5)
		at = append(at, Attr{"lon", s})
		v.Lon = f
	}
	if bit(mask, 6) {
		s, r := b.Bool()
		at = append(at, Attr{"reverse", s})
		v.Reverse = r
	}
	return E("update", at), v
}

func (b *B) updates(masks []uint) ([]*Elem, osm.Updates) {
	var es []*Elem
	var vs osm.Updates
	for _, m := range masks {
		e, v := b.update(m)
		es = append(es, e)
		vs = append(vs, v)
	}
	return es, vs
}

// arrange orders the child groups of an element. mode 0: groups in the given
// order; 1: groups reversed (each group keeps its inner order); 2: round
// robin over the groups. The relative order inside a group never changes, so
// the expected slices are unaffected.
func arrange(mode int, groups ...[]*Elem) []*Elem {
	var out []*Elem
	switch mode {
	case 1:
		for i := len(groups) - 1; i >= 0; i-- {
			out = append(out, groups[i]...)
		}
	case 2:
		for i := 0; ; i++ {
			any := false
			for _, g := range groups {
				if i < len(g) {
					out = append(out, g[i])
					any = true
				}
			}
			if !any {
				break
			}
		}
	default:
		for _, g := range groups {
			out = append(out, g...)
		}
	}
	return out
}

// NumArrangements is the number of child arrangements understood by the
// Arrange fields.
const NumArrangements = 3

// ---------------------------------------------------------------- way

// WayCfg selects the shape of a <way>.
type WayCfg struct {
	Attrs   uint   `json:"attrs"` // bits: id user uid visible version changeset timestamp committed
	Nds     []uint `json:"nds"`   // one attribute mask per <nd>
	Tags    int    `json:"tags"`
	Updates []uint `json:"updates"` // one attribute mask per <update>
	Bounds  int    `json:"bounds"`  // 0: absent, else attribute mask + 1
	Arrange int    `json:"arrange"`
}

// NumWayAttrs is the number of optional way / relation attributes.
const NumWayAttrs = 8

// Way builds a <way>.
func (b *B) Way(c WayCfg) (*Elem, *osm.Way) {
	b.next()
	v := &osm.Way{}
	var at []Attr
	if bit(c.Attrs, 0) {
		s, i := b.ID(6000000000, IDAtElem)
		at = append(at, Attr{"id", s})
		v.ID = osm.WayID(i)
	}
	ma, m := b.metaAttrs(c.Attrs, 1)
	at = append(at, ma...)
	v.User, v.UserID, v.Visible, v.Version = m.user, osm.UserID(m.uid), m.visible, int(m.version)
	v.ChangesetID, v.Timestamp, v.Committed = osm.ChangesetID(m.changeset), m.timestamp, m.committed
	ndE, nds := b.nds(c.Nds)
	v.Nodes = nds
	tagE, tags := b.tags(c.Tags)
	v.Tags = tags
	upE, ups := b.updates(c.Updates)
	v.Updates = ups
	var bE []*Elem
	if c.Bounds > 0 {
		e, bv := b.Bounds(uint(c.Bounds - 1))
		bE = []*Elem{e}
		v.Bounds = bv
	}
	return E("way", at, arrange(c.Arrange, ndE, tagE, upE, bE)...), v
}

// ---------------------------------------------------------------- relation

// MemberCfg selects the shape of a <member>.
type MemberCfg struct {
	Attrs  uint   `json:"attrs"`  // bits: type ref role version changeset lat lon orientation
	Type   int    `json:"type"`   // 0 node, 1 way, 2 relation
	Orient int    `json:"orient"` // used when the orientation bit is set: 0 -> "1" (CCW), 1 -> "-1" (CW), 2 -> "0"
	Nds    []uint `json:"nds"`
	// TypeText, when non-empty, is written as the type attribute instead of
	// the name selected by Type (other object types, for example "changeset").
	TypeText string `json:"type_text,omitempty"`
}

// NumMemberAttrs is the number of optional <member> attributes.
const NumMemberAttrs = 8

var memberTypes = []osm.Type{osm.TypeNode, osm.TypeWay, osm.TypeRelation}
var memberTypeText = []string{"node", "way", "relation"}

func (b *B) member(c MemberCfg) (*Elem, osm.Member) {
	b.next()
	var v osm.Member
	var at []Attr
	if bit(c.Attrs, 0) {
		if c.TypeText != "" {
			at = append(at, Attr{"type", c.TypeText})
			v.Type = osm.Type(c.TypeText)
		} else {
			at = append(at, Attr{"type", memberTypeText[c.Type%3]})
			v.Type = memberTypes[c.Type%3]
		}
	}
	if bit(c.Attrs, 1) {
		s, i := b.ID(880000, IDAtMemberRef)
		at = append(at, Attr{"ref", s})
		v.Ref = i
	}
	if bit(c.Attrs, 2) {
		v.Role = b.S("outer")
		at = append(at, Attr{"role", v.Role})
	}
	if bit(c.Attrs, 3) {
		s, i := b.I(5)
		at = append(at, Attr{"version", s})
		v.Version = int(i)
	}
	if bit(c.Attrs, 4) {
		s, i := b.ID(64000, IDAtChangeset)
		at = append(at, Attr{"changeset", s})
		v.ChangesetID = osm.ChangesetID(i)
	}
	if bit(c.Attrs, 5) {
		s, f := b.F(33, 1)
		at = append(at, Attr{"lat", s})
		v.Lat = f
	}
	if bit(c.Attrs, 6) {
		s, f := b.F(44, 2)
		at = append(at, Attr{"lon", s})
		v.Lon = f
	}
	if bit(c.Attrs, 7) {
		if c.Orient == 2 {
			// present but zero
			at = append(at, Attr{"orientation", "0"})
			v.Orientation = 0
		} else if c.Orient%2 == 0 {
			at = append(at, Attr{"orientation", "1"})
			v.Orientation = orb.CCW
		} else {
			at = append(at, Attr{"orientation", "-1"})
			v.Orientation = orb.CW
		}
	}
	ndE, nds := b.nds(c.Nds)
	v.Nodes = nds
	return E("member", at, ndE...), v
}

// RelationCfg selects the shape of a <relation>.
type RelationCfg struct {
	Attrs   uint        `json:"attrs"` // as WayCfg.Attrs
	Members []MemberCfg `json:"members"`
	Tags    int         `json:"tags"`
	Updates []uint      `json:"updates"`
	Bounds  int         `json:"bounds"`
	Arrange int         `json:"arrange"`
}

// Relation builds a <relation>.
func (b *B) Relation(c RelationCfg) (*Elem, *osm.Relation) {
	b.next()
	v := &osm.Relation{}
	var at []Attr
	if bit(c.Attrs, 0) {
		s, i := b.ID(7000000000, IDAtElem)
		at = append(at, Attr{"id", s})
		v.ID = osm.RelationID(i)
	}
	ma, m := b.metaAttrs(c.Attrs, 1)
	at = append(at, ma...)
	v.User, v.UserID, v.Visible, v.Version = m.user, osm.UserID(m.uid), m.visible, int(m.version)
	v.ChangesetID, v.Timestamp, v.Committed = osm.ChangesetID(m.changeset), m.timestamp, m.committed
	var memE []*Elem
	for _, mc := range c.Members {
		e, mv := b.member(mc)
		memE = append(memE, e)
		v.Members = append(v.Members, mv)
	}
	tagE, tags := b.tags(c.Tags)
	v.Tags = tags
	upE, ups := b.updates(c.Updates)
	v.Updates = ups
	var bE []*Elem
	if c.Bounds > 0 {
		e, bv := b.Bounds(uint(c.Bounds - 1))
		bE = []*Elem{e}
		v.Bounds = bv
	}
	return E("relation", at, arrange(c.Arrange, memE, tagE, upE, bE)...), v
}

// ---------------------------------------------------------------- changeset

// ChangesetCfg selects the shape of a <changeset>.
type ChangesetCfg struct {
	// bits: id user uid created_at closed_at open num_changes min_lat max_lat min_lon max_lon comments_count
	Attrs      uint   `json:"attrs"`
	Tags       int    `json:"tags"`
	Discussion int    `json:"discussion"` // 0: no <discussion>; 1: present (with Comments, possibly none)
	Comments   []uint `json:"comments"`   // bits per comment: user uid date text
	Arrange    int    `json:"arrange"`
}

// NumChangesetAttrs is the number of optional changeset attributes.
const NumChangesetAttrs = 12

// NumCSCommentParts is the number of optional parts of a discussion comment.
const NumCSCommentParts = 4

// Changeset builds a <changeset>.
func (b *B) Changeset(c ChangesetCfg) (*Elem, *osm.Changeset) {
	b.next()
	v := &osm.Changeset{}
	var at []Attr
	if bit(c.Attrs, 0) {
		s, i := b.ID(81000000, IDAtChangeset)
		at = append(at, Attr{"id", s})
		v.ID = osm.ChangesetID(i)
	}
	if bit(c.Attrs, 1) {
		v.User = b.S("editor")
		at = append(at, Attr{"user", v.User})
	}
	if bit(c.Attrs, 2) {
		s, i := b.ID(9100, IDAtUID)
		at = append(at, Attr{"uid", s})
		v.UserID = osm.UserID(i)
	}
	if bit(c.Attrs, 3) {
		s, t := b.Time(3)
		at = append(at, Attr{"created_at", s})
		v.CreatedAt = t
	}
	if bit(c.Attrs, 4) {
		s, t := b.Time(4)
		at = append(at, Attr{"closed_at", s})
		v.ClosedAt = t
	}
	if bit(c.Attrs, 5) {
		s, o := b.Bool()
		at = append(at, Attr{"open", s})
		v.Open = o
	}
	if bit(c.Attrs, 6) {
		s, i := b.I(17)
		at = append(at, Attr{"num_changes", s})
		v.ChangesCount = int(i)
	}
	if bit(c.Attrs, 7) {
		s, f := b.F(1, 0)
		at = append(at, Attr{"min_lat", s})
		v.MinLat = f
	}
	if bit(c.Attrs, 8) {
		s, f := b.F(2, 1)
		at = append(at, Attr{"max_lat", s})
		v.MaxLat = f
	}
	if bit(c.Attrs, 9) {
		s, f := b.F(3, 2)
		at = append(at, Attr{"min_lon", s})
		v.MinLon = f
	}
	if bit(c.Attrs, 10) {
		s, f := b.F(4, 3)
		at = append(at, Attr{"max_lon", s})
		v.MaxLon = f
	}
	if bit(c.Attrs, 11) {
		s, i := b.I(2)
		at = append(at, Attr{"comments_count", s})
		v.CommentsCount = int(i)
	}
	tagE, tags := b.tags(c.Tags)
	v.Tags = tags
	var dE []*Elem
	if c.Discussion > 0 {
		d := &osm.ChangesetDiscussion{}
		var cE []*Elem
		for _, cm := range c.Comments {
			b.next()
			cv := &osm.ChangesetComment{}
			var cat []Attr
			if bit(cm, 0) {
				cv.User = b.S("reviewer")
				cat = append(cat, Attr{"user", cv.User})
			}
			if bit(cm, 1) {
				s, i := b.ID(300, IDAtUID)
				cat = append(cat, Attr{"uid", s})
				cv.UserID = osm.UserID(i)
			}
			if bit(cm, 2) {
				s, t := b.Time(5)
				cat = append(cat, Attr{"date", s})
				cv.Timestamp = t
			}
			var ck []*Elem
			if bit(cm, 3) {
				cv.Text = b.S("looks fine to me")
				ck = append(ck, T("text", cv.Text))
			}
			cE = append(cE, E("comment", cat, ck...))
			d.Comments = append(d.Comments, cv)
		}
		dE = []*Elem{E("discussion", nil, cE...)}
		v.Discussion = d
	}
	return E("changeset", at, arrange(c.Arrange, tagE, dE)...), v
}

// ---------------------------------------------------------------- note

// NoteCfg selects the shape of a <note>.
type NoteCfg struct {
	// bits: lat lon (attributes) id url comment_url close_url reopen_url date_created date_closed status (children)
	Parts       uint   `json:"parts"`
	HasComments bool   `json:"has_comments"` // <comments> element present
	Comments    []uint `json:"comments"`     // bits per comment: date uid user user_url action text html
	Arrange     int    `json:"arrange"`
}

// NumNoteParts is the number of optional attributes/children of a note.
const NumNoteParts = 10

// NumNoteCommentParts is the number of optional children of a note comment.
const NumNoteCommentParts = 7

// Note builds a <note>.
func (b *B) Note(c NoteCfg) (*Elem, *osm.Note) {
	b.next()
	v := &osm.Note{}
	var at []Attr
	var kids []*Elem
	if bit(c.Parts, 0) {
		s, f := b.F(59, 0)
		at = append(at, Attr{"lat", s})
		v.Lat = f
	}
	if bit(c.Parts, 1) {
		s, f := b.F(18, 1)
		at = append(at, Attr{"lon", s})
		v.Lon = f
	}
	if bit(c.Parts, 2) {
		s, i := b.ID(1600000, IDAtNoteID)
		kids = append(kids, T("id", s))
		v.ID = osm.NoteID(i)
	}
	if bit(c.Parts, 3) {
		v.URL = b.S("https://api.example.org/api/0.6/notes/16?x=1&y=2")
		kids = append(kids, T("url", v.URL))
	}
	if bit(c.Parts, 4) {
		v.CommentURL = b.S("https://api.example.org/api/0.6/notes/16/comment")
		kids = append(kids, T("comment_url", v.CommentURL))
	}
	if bit(c.Parts, 5) {
		v.CloseURL = b.S("https://api.example.org/api/0.6/notes/16/close")
		kids = append(kids, T("close_url", v.CloseURL))
	}
	if bit(c.Parts, 6) {
		v.ReopenURL = b.S("https://api.example.org/api/0.6/notes/16/reopen")
		kids = append(kids, T("reopen_url", v.ReopenURL))
	}
	if bit(c.Parts, 7) {
		s, d := b.NoteDate(0)
		kids = append(kids, T("date_created", s))
		v.DateCreated = d
	}
	if bit(c.Parts, 8) {
		s, d := b.NoteDate(1)
		kids = append(kids, T("date_closed", s))
		v.DateClosed = d
	}
	if bit(c.Parts, 9) {
		st := b.S("closed")
		kids = append(kids, T("status", st))
		v.Status = osm.NoteStatus(st)
	}
	var cs []*Elem
	if c.HasComments {
		var cE []*Elem
		for _, cm := range c.Comments {
			b.next()
			cv := &osm.NoteComment{}
			var ck []*Elem
			if bit(cm, 0) {
				s, d := b.NoteDate(2)
				ck = append(ck, T("date", s))
				cv.Date = d
			}
			if bit(cm, 1) {
				s, i := b.ID(555, IDAtUID)
				ck = append(ck, T("uid", s))
				cv.UserID = osm.UserID(i)
			}
			if bit(cm, 2) {
				cv.User = b.S("walker")
				ck = append(ck, T("user", cv.User))
			}
			if bit(cm, 3) {
				cv.UserURL = b.S("https://www.example.org/user/walker")
				ck = append(ck, T("user_url", cv.UserURL))
			}
			if bit(cm, 4) {
				a := b.S("opened")
				ck = append(ck, T("action", a))
				cv.Action = osm.NoteCommentAction(a)
			}
			if bit(cm, 5) {
				cv.Text = b.S("bridge is closed")
				ck = append(ck, T("text", cv.Text))
			}
			if bit(cm, 6) {
				cv.HTML = b.S("<p>bridge is closed</p>")
				ck = append(ck, T("html", cv.HTML))
			}
			cE = append(cE, E("comment", nil, ck...))
			v.Comments = append(v.Comments, cv)
		}
		cs = []*Elem{E("comments", nil, cE...)}
	}
	// every child is a distinct singleton: any arrangement is legal
	groups := make([][]*Elem, 0, len(kids)+1)
	for _, k := range kids {
		groups = append(groups, []*Elem{k})
	}
	groups = append(groups, cs)
	return E("note", at, arrange(c.Arrange, groups...)...), v
}

// ---------------------------------------------------------------- user

// UserCfg selects the shape of a <user>.
type UserCfg struct {
	// bits: id display_name account_created (attributes)
	//       description img changesets traces home languages blocks messages (children)
	Parts   uint `json:"parts"`
	Img     uint `json:"img"`    // bit0 href
	Counts  uint `json:"counts"` // bit0 changesets@count, bit1 traces@count
	Home    uint `json:"home"`   // bits: lat lon zoom
	Langs   int  `json:"langs"`  // number of <lang>
	Blocks  uint `json:"blocks"` // bit0 <received> present, bit1 count, bit2 active
	Msgs    uint `json:"msgs"`   // bit0 <received> present, bit1 count, bit2 unread, bit3 <sent> present, bit4 sent count
	Arrange int  `json:"arrange"`
}

// NumUserParts is the number of optional attributes/children of a user.
const NumUserParts = 11

// FullUser returns the configuration with everything present.
func FullUser() UserCfg {
	return UserCfg{Parts: All(NumUserParts), Img: 1, Counts: 3, Home: 7, Langs: 2, Blocks: 7, Msgs: 31}
}

// User builds a <user>.
func (b *B) User(c UserCfg) (*Elem, *osm.User) {
	b.next()
	v := &osm.User{}
	var at []Attr
	var kids []*Elem
	if bit(c.Parts, 0) {
		s, i := b.ID(230000, IDAtUserID)
		at = append(at, Attr{"id", s})
		v.ID = osm.UserID(i)
	}
	if bit(c.Parts, 1) {
		v.Name = b.S("Some Mapper")
		at = append(at, Attr{"display_name", v.Name})
	}
	if bit(c.Parts, 2) {
		s, t := b.Time(6)
		at = append(at, Attr{"account_created", s})
		v.CreatedAt = t
	}
	if bit(c.Parts, 3) {
		v.Description = b.S("I map footpaths.")
		kids = append(kids, T("description", v.Description))
	}
	if bit(c.Parts, 4) {
		var a []Attr
		if bit(c.Img, 0) {
			v.Img.Href = b.S("https://img.example.org/a.png?s=1&t=2")
			a = append(a, Attr{"href", v.Img.Href})
		}
		kids = append(kids, E("img", a))
	}
	if bit(c.Parts, 5) {
		var a []Attr
		if bit(c.Counts, 0) {
			s, i := b.I(1200)
			a = append(a, Attr{"count", s})
			v.Changesets.Count = int(i)
		}
		kids = append(kids, E("changesets", a))
	}
	if bit(c.Parts, 6) {
		var a []Attr
		if bit(c.Counts, 1) {
			s, i := b.I(34)
			a = append(a, Attr{"count", s})
			v.Traces.Count = int(i)
		}
		kids = append(kids, E("traces", a))
	}
	if bit(c.Parts, 7) {
		var a []Attr
		if bit(c.Home, 0) {
			s, f := b.F(48, 0)
			a = append(a, Attr{"lat", s})
			v.Home.Lat = f
		}
		if bit(c.Home, 1) {
			s, f := b.F(11, 1)
			a = append(a, Attr{"lon", s})
			v.Home.Lon = f
		}
		if bit(c.Home, 2) {
			s, i := b.I(3)
			a = append(a, Attr{"zoom", s})
			v.Home.Zoom = int(i)
		}
		kids = append(kids, E("home", a))
	}
	if bit(c.Parts, 8) {
		var ls []*Elem
		for i := 0; i < c.Langs; i++ {
			l := b.S([]string{"en-GB", "de", "pt-BR"}[i%3])
			ls = append(ls, T("lang", l))
			v.Languages = append(v.Languages, l)
		}
		kids = append(kids, E("languages", nil, ls...))
	}
	if bit(c.Parts, 9) {
		var rk []*Elem
		if bit(c.Blocks, 0) {
			var a []Attr
			if bit(c.Blocks, 1) {
				s, i := b.I(2)
				a = append(a, Attr{"count", s})
				v.Blocks.Received.Count = int(i)
			}
			if bit(c.Blocks, 2) {
				s, i := b.I(1)
				a = append(a, Attr{"active", s})
				v.Blocks.Received.Active = int(i)
			}
			rk = append(rk, E("received", a))
		}
		kids = append(kids, E("blocks", nil, rk...))
	}
	if bit(c.Parts, 10) {
		var mk []*Elem
		if bit(c.Msgs, 0) {
			var a []Attr
			if bit(c.Msgs, 1) {
				s, i := b.I(70)
				a = append(a, Attr{"count", s})
				v.Messages.Received.Count = int(i)
			}
			if bit(c.Msgs, 2) {
				s, i := b.I(6)
				a = append(a, Attr{"unread", s})
				v.Messages.Received.Unread = int(i)
			}
			mk = append(mk, E("received", a))
		}
		if bit(c.Msgs, 3) {
			var a []Attr
			if bit(c.Msgs, 4) {
				s, i := b.I(90)
				a = append(a, Attr{"count", s})
				v.Messages.Sent.Count = int(i)
			}
			mk = append(mk, E("sent", a))
		}
		kids = append(kids, E("messages", nil, mk...))
	}
	groups := make([][]*Elem, 0, len(kids))
	for _, k := range kids {
		groups = append(groups, []*Elem{k})
	}
	return E("user", at, arrange(c.Arrange, groups...)...), v
}

// ---------------------------------------------------------------- unknown attributes and elements

var unknownAttrs = []Attr{{"foo", "bar"}, {"xml:lang", "en"}, {"data-x", "a&b<c"}, {"Version", "99"}}

func unknownKid(i int) *Elem {
	switch i % 3 {
	case 0:
		e := E("extra", []Attr{{"k", "v"}, {"id", "31337"}}, T("inner", "text & more"), E("empty", nil))
		e.Unknown = true
		return e
	case 1:
		e := T("remark", "free <text> here")
		e.Unknown = true
		return e
	}
	e := E("x-meta", []Attr{{"ref", "1"}, {"lat", "1.5"}})
	e.Unknown = true
	return e
}

// UnknownSlots returns the number of places where an unknown attribute
// (every element, every position in its attribute list) or an unknown child
// element (every non-leaf element, every position among its children) can be
// inserted into the tree.
func UnknownSlots(root *Elem) (attrSlots, kidSlots int) {
	root.Walk(func(e *Elem) {
		if e.Unknown {
			return
		}
		attrSlots += len(e.Attrs) + 1
		if !e.Leaf {
			kidSlots += len(e.Kids) + 1
		}
	})
	return
}

// WithUnknownAttr returns a copy of the tree with an unknown attribute in
// slot i (0 <= i < attrSlots).
func WithUnknownAttr(root *Elem, i int) *Elem {
	c := root.Clone()
	n := 0
	done := false
	c.Walk(func(e *Elem) {
		if done || e.Unknown {
			return
		}
		k := len(e.Attrs) + 1
		if i < n+k {
			p := i - n
			a := unknownAttrs[i%len(unknownAttrs)]
			e.Attrs = append(e.Attrs[:p:p], append([]Attr{a}, e.Attrs[p:]...)...)
			done = true
			return
		}
		n += k
	})
	return c
}

// WithUnknownKid returns a copy of the tree with an unknown child element in
// slot i (0 <= i < kidSlots).
func WithUnknownKid(root *Elem, i int) *Elem {
	c := root.Clone()
	n := 0
	done := false
	var rec func(e *Elem)
	rec = func(e *Elem) {
		if done || e.Unknown {
			return
		}
		if !e.Leaf {
			k := len(e.Kids) + 1
			if i < n+k {
				p := i - n
				u := unknownKid(i)
				e.Kids = append(e.Kids[:p:p], append([]*Elem{u}, e.Kids[p:]...)...)
				done = true
				return
			}
			n += k
		}
		for _, kid := range e.Kids {
			rec(kid)
			if done {
				return
			}
		}
	}
	rec(c)
	return c
}
