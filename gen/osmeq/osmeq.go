// Package osmeq is the shared deep-equality helper for values of the
// github.com/paulmach/osm types (and anything built from them) used by the
// XML, JSON and PBF checks.
//
// Equivalences (the zero-false-alarm policy of /verif/props/README.md):
//   - a nil slice or map equals an empty one;
//   - time.Time values are compared as instants (t.Equal), never by location
//     or monotonic reading;
//   - pointers are compared by pointee (two nil pointers are equal, a nil and
//     a non-nil pointer differ), except that a *osm.ChangesetDiscussion without
//     comments equals an absent (nil) discussion;
//   - struct fields named XMLName are bookkeeping of encoding/xml and ignored;
//   - floats compare with == (NaN equals NaN) unless Options.FloatTol is set.
//
// Diff reports the path of the first differing field, e.g.
// "Ways[0].Nodes[2].Lat: 1.5 != 0".
package osmeq

import (
	"fmt"
	"math"
	"reflect"
	"sort"
	"strings"
	"time"

	"github.com/paulmach/osm"
)

// Options tunes the comparison. The zero value is the strict comparison
// described in the package comment.
type Options struct {
	// FloatTol, when > 0, is the absolute tolerance for float fields.
	FloatTol float64
	// Ignore, when non-nil, is asked for every struct field path (for
	// example "Ways[0].Nodes[1].Version"); a true answer skips the field.
	Ignore func(path string) bool
	// TagsAsSet compares osm.Tags without regard to order.
	TagsAsSet bool
}

var (
	timeType       = reflect.TypeOf(time.Time{})
	discussionType = reflect.TypeOf(osm.ChangesetDiscussion{})
	tagsType       = reflect.TypeOf(osm.Tags{})
)

// Equal reports whether a and b are equal under the package's equivalences.
func Equal(a, b interface{}) bool { return Diff(a, b) == "" }

// Diff returns "" when a equals b and otherwise a description of the first
// difference, starting with its field path.
func Diff(a, b interface{}) string { return Options{}.Diff(a, b) }

// Equal is Diff(a,b)=="" with options.
func (o Options) Equal(a, b interface{}) bool { return o.Diff(a, b) == "" }

// Diff is the package-level Diff with options.
func (o Options) Diff(a, b interface{}) string {
	va, vb := reflect.ValueOf(a), reflect.ValueOf(b)
	if !va.IsValid() || !vb.IsValid() {
		if va.IsValid() == vb.IsValid() {
			return ""
		}
		return fmt.Sprintf("(root): %s != %s", show(va), show(vb))
	}
	if va.Type() != vb.Type() {
		// allow T against *T at the root for convenience
		if va.Kind() == reflect.Ptr && va.Type().Elem() == vb.Type() && !va.IsNil() {
			va = va.Elem()
		} else if vb.Kind() == reflect.Ptr && vb.Type().Elem() == va.Type() && !vb.IsNil() {
			vb = vb.Elem()
		} else {
			return fmt.Sprintf("(root): type %s != type %s", va.Type(), vb.Type())
		}
	}
	return o.walk("", va, vb)
}

// Path returns the field path part of a Diff result ("" for "").
func Path(diff string) string {
	if i := strings.Index(diff, ": "); i >= 0 {
		return diff[:i]
	}
	return diff
}

func join(path, field string) string {
	if path == "" {
		return field
	}
	return path + "." + field
}

func root(path string) string {
	if path == "" {
		return "(root)"
	}
	return path
}

func (o Options) walk(path string, a, b reflect.Value) string {
	t := a.Type()
	if t == timeType {
		ta := a.Interface().(time.Time)
		tb := b.Interface().(time.Time)
		if !ta.Equal(tb) {
			return fmt.Sprintf("%s: %s != %s", root(path), ta.Format(time.RFC3339Nano), tb.Format(time.RFC3339Nano))
		}
		return ""
	}
	switch a.Kind() {
	case reflect.Ptr:
		if a.IsNil() || b.IsNil() {
			if a.IsNil() && b.IsNil() {
				return ""
			}
			if t.Elem() == discussionType {
				// an empty discussion is the same as no discussion
				non := a
				if a.IsNil() {
					non = b
				}
				if non.Elem().FieldByName("Comments").Len() == 0 {
					return ""
				}
			}
			return fmt.Sprintf("%s: %s != %s", root(path), show(a), show(b))
		}
		return o.walk(path, a.Elem(), b.Elem())
	case reflect.Interface:
		if a.IsNil() || b.IsNil() {
			if a.IsNil() && b.IsNil() {
				return ""
			}
			return fmt.Sprintf("%s: %s != %s", root(path), show(a), show(b))
		}
		ea, eb := a.Elem(), b.Elem()
		if ea.Type() != eb.Type() {
			return fmt.Sprintf("%s: dynamic type %s != %s", root(path), ea.Type(), eb.Type())
		}
		return o.walk(path, ea, eb)
	case reflect.Struct:
		for i := 0; i < t.NumField(); i++ {
			f := t.Field(i)
			if f.Name == "XMLName" {
				continue
			}
			if f.PkgPath != "" && !f.Anonymous {
				continue // unexported
			}
			p := join(path, f.Name)
			if o.Ignore != nil && o.Ignore(p) {
				continue
			}
			fa, fb := a.Field(i), b.Field(i)
			if f.PkgPath != "" {
				// unexported embedded field: not reachable through Interface
				continue
			}
			if d := o.walk(p, fa, fb); d != "" {
				return d
			}
		}
		return ""
	case reflect.Slice, reflect.Array:
		if a.Len() != b.Len() {
			return fmt.Sprintf("%s: len %d != len %d (%s != %s)", root(path), a.Len(), b.Len(), show(a), show(b))
		}
		if o.TagsAsSet && t == tagsType {
			a, b = sortedTags(a), sortedTags(b)
		}
		for i := 0; i < a.Len(); i++ {
			if d := o.walk(fmt.Sprintf("%s[%d]", path, i), a.Index(i), b.Index(i)); d != "" {
				return d
			}
		}
		return ""
	case reflect.Map:
		if a.Len() != b.Len() {
			return fmt.Sprintf("%s: map len %d != %d", root(path), a.Len(), b.Len())
		}
		keys := a.MapKeys()
		sort.Slice(keys, func(i, j int) bool { return fmt.Sprint(keys[i]) < fmt.Sprint(keys[j]) })
		for _, k := range keys {
			vb := b.MapIndex(k)
			if !vb.IsValid() {
				return fmt.Sprintf("%s[%v]: missing on the right", root(path), k)
			}
			if d := o.walk(fmt.Sprintf("%s[%v]", path, k), a.MapIndex(k), vb); d != "" {
				return d
			}
		}
		return ""
	case reflect.Float32, reflect.Float64:
		fa, fb := a.Float(), b.Float()
		if fa == fb || (math.IsNaN(fa) && math.IsNaN(fb)) {
			return ""
		}
		if o.FloatTol > 0 && math.Abs(fa-fb) <= o.FloatTol {
			return ""
		}
		return fmt.Sprintf("%s: %v != %v", root(path), fa, fb)
	case reflect.Bool:
		if a.Bool() != b.Bool() {
			return fmt.Sprintf("%s: %v != %v", root(path), a.Bool(), b.Bool())
		}
		return ""
	case reflect.Int, reflect.Int8, reflect.Int16, reflect.Int32, reflect.Int64:
		if a.Int() != b.Int() {
			return fmt.Sprintf("%s: %d != %d", root(path), a.Int(), b.Int())
		}
		return ""
	case reflect.Uint, reflect.Uint8, reflect.Uint16, reflect.Uint32, reflect.Uint64, reflect.Uintptr:
		if a.Uint() != b.Uint() {
			return fmt.Sprintf("%s: %d != %d", root(path), a.Uint(), b.Uint())
		}
		return ""
	case reflect.String:
		if a.String() != b.String() {
			return fmt.Sprintf("%s: %q != %q", root(path), a.String(), b.String())
		}
		return ""
	case reflect.Complex64, reflect.Complex128:
		if a.Complex() != b.Complex() {
			return fmt.Sprintf("%s: %v != %v", root(path), a.Complex(), b.Complex())
		}
		return ""
	case reflect.Func, reflect.Chan, reflect.UnsafePointer:
		if a.IsNil() != b.IsNil() {
			return fmt.Sprintf("%s: nil-ness differs", root(path))
		}
		return ""
	}
	return fmt.Sprintf("%s: unsupported kind %s", root(path), a.Kind())
}

func sortedTags(v reflect.Value) reflect.Value {
	ts := append(osm.Tags(nil), v.Interface().(osm.Tags)...)
	sort.SliceStable(ts, func(i, j int) bool {
		if ts[i].Key != ts[j].Key {
			return ts[i].Key < ts[j].Key
		}
		return ts[i].Value < ts[j].Value
	})
	return reflect.ValueOf(ts)
}

func show(v reflect.Value) string {
	if !v.IsValid() {
		return "<invalid>"
	}
	switch v.Kind() {
	case reflect.Ptr, reflect.Interface, reflect.Map, reflect.Slice:
		if v.IsNil() {
			if v.Kind() == reflect.Slice || v.Kind() == reflect.Map {
				return "[]"
			}
			return "nil"
		}
	}
	if v.Kind() == reflect.Ptr {
		v = v.Elem()
	}
	s := ""
	if v.CanInterface() {
		s = fmt.Sprintf("%+v", v.Interface())
	} else {
		s = fmt.Sprintf("<%s>", v.Type())
	}
	if len(s) > 160 {
		s = s[:160] + "..."
	}
	return s
}
