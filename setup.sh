#!/bin/bash
# Run once after a fresh restore, offline. Builds the shared tools and pre-warms the Go build cache
# (plain builds, the instrumenter, and the -tags verif overlay builds of the Engine A harnesses).
set -e
cd "$(dirname "$0")"
. ./env.sh
cp /repo/go.sum ./go.sum 2>/dev/null || true
mkdir -p bin evidence
go build ./kit/... ./gen/...
(cd tools/vinst && go build -o ../../bin/vinst .) || echo "setup: vinst build failed"
for d in props/*/; do
  n=$(basename "$d")
  [ -f "$d/main.go" ] || continue
  [ "$n" = selftest ] && continue
  if head -3 "$d/main.go" | grep -q 'go:build verif'; then
    VERIF_BUILD_ONLY=1 "$d/run.sh" quick >/dev/null 2>&1 || echo "setup: overlay build of $n failed"
  else
    go build -o "bin/$n" "./props/$n" || echo "setup: build of $n failed"
  fi
done
for n in c06 c08 c09; do
  VERIF_BUILD_ONLY=1 engine/run_a.sh $(echo $n | tr a-z A-Z) quick -pkg osmpbf:decode.go,scanner.go,decode_data.go -sub sched >/dev/null 2>&1 || echo "setup: overlay build of $n/sched failed"
done
# engine self-test (vsched + vexplore on programs with known defects); reported, never fatal
tools/selftest.sh > bin/selftest.log 2>&1 && echo "setup: engine self-test passed" || { echo "setup: ENGINE SELF-TEST FAILED (bin/selftest.log)"; tail -5 bin/selftest.log; }
echo setup done
