#!/bin/bash
# Run once after a fresh restore, offline. Builds the shared tools and pre-warms the Go build cache.
set -e
cd "$(dirname "$0")"
. ./env.sh
cp /repo/go.sum ./go.sum 2>/dev/null || true
mkdir -p bin evidence
go build ./kit/... 
for d in props/*/; do
  n=$(basename "$d")
  if [ -f "$d/main.go" ]; then go build -o "bin/$n" "./props/$n" || echo "setup: build of $n failed"; fi
done
[ -x tools/setup_extra.sh ] && tools/setup_extra.sh
echo setup done
