module verif

go 1.21

require github.com/paulmach/osm v0.0.0

replace github.com/paulmach/osm => /repo
