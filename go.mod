module verif

go 1.21

require (
	github.com/paulmach/orb v0.1.3
	github.com/paulmach/osm v0.0.0
)

require (
	github.com/datadog/czlib v0.0.0-20160811164712-4bc9a24e37f2 // indirect
	github.com/paulmach/protoscan v0.2.1 // indirect
	google.golang.org/protobuf v1.27.1 // indirect
)

replace github.com/paulmach/osm => /repo
